/* C09: presents the same fully opaque content in different ways (alpha-less format, alpha format with alpha
 * 255, r5g6b5, solid colour, 1x1 repeating, constant image) as source, mask or destination and executes
 * the same request on each presentation.  Logs Req (the request as scripted), Dispatch (hook H2: operator
 * in/out, flags) and Res (destination pixels as channel fields).  It never judges.
 *
 * script line:  P pair variant cmp op  skind sfmt sw sh srep sfilt t0..t5  mkind  dfmt dw dh  sx sy dx dy w h  seed quant
 * usage: drv_opacity script trace
 */
#include <config.h>
#include "pixman-private.h"
#include "vcommon.h"

#define W2(x) (unsigned)((uint32_t)(x) >> 16), (unsigned)((uint32_t)(x) & 0xffff)

static void
flags_list (FILE *o, const char *k, uint32_t fl)
{
    int i, first = 1;
    fprintf (o, ",\"%s\":[", k);
    for (i = 0; i < 32; i++)
	if (fl & (1u << i))
	{
	    fprintf (o, first ? "%d" : ",%d", i);
	    first = 0;
	}
    fputc (']', o);
}

static void
sink (const char *event, const void *data)
{
    if (!strcmp (event, "Dispatch"))
    {
	const pixman_verif_dispatch_t *e = data;
	fprintf (vt_out, "{\"e\":\"Dispatch\",\"op_in\":%d,\"op_out\":%d,\"sf\":[%u,%u],\"mf\":[%u,%u],\"df\":[%u,%u],\"ext\":[%d,%d,%d,%d]",
		 e->op_in, e->op_out, W2 (e->src_format), W2 (e->mask_format), W2 (e->dest_format), e->x1, e->y1, e->x2, e->y2);
	flags_list (vt_out, "sfl", e->src_flags);
	flags_list (vt_out, "mfl", e->mask_flags);
	flags_list (vt_out, "dfl", e->dest_flags);
	fputs ("}\n", vt_out);
    }
}

static int
rep (int v, int from)      /* widen a from-bit value to 8 bits by replication */
{
    int r = 0, have = 0;
    if (from == 0) return 0;
    v &= (1 << from) - 1;
    while (have < 8) { r = (r << from) | v; have += from; }
    return r >> (have - 8);
}

/* position (shift) of each channel inside a pixel of the format */
static void
shifts (pixman_format_code_t f, int *as, int *rs, int *gs, int *bs)
{
    int a = PIXMAN_FORMAT_A (f), r = PIXMAN_FORMAT_R (f), g = PIXMAN_FORMAT_G (f), b = PIXMAN_FORMAT_B (f);
    int bpp = PIXMAN_FORMAT_BPP (f);
    switch (PIXMAN_FORMAT_TYPE (f))
    {
    case PIXMAN_TYPE_ARGB: *bs = 0; *gs = b; *rs = b + g; *as = b + g + r; break;
    case PIXMAN_TYPE_ABGR: *rs = 0; *gs = r; *bs = r + g; *as = r + g + b; break;
    case PIXMAN_TYPE_BGRA: *bs = bpp - b; *gs = bpp - b - g; *rs = bpp - b - g - r; *as = bpp - b - g - r - a; break;
    case PIXMAN_TYPE_RGBA: *rs = bpp - r; *gs = bpp - r - g; *bs = bpp - r - g - b; *as = bpp - r - g - b - a; break;
    default: *as = 0; *rs = *gs = *bs = 0; break;      /* PIXMAN_TYPE_A */
    }
}

static uint32_t
pack (pixman_format_code_t f, uint32_t argb, uint32_t junk)
{
    int a = PIXMAN_FORMAT_A (f), r = PIXMAN_FORMAT_R (f), g = PIXMAN_FORMAT_G (f), b = PIXMAN_FORMAT_B (f);
    int bpp = PIXMAN_FORMAT_BPP (f), as, rs, gs, bs;
    uint32_t v, used = 0;
    shifts (f, &as, &rs, &gs, &bs);
    v = 0;
    /* channels deeper than 8 bits are widened by replication */
#define PUT(bits, sh, val8) if (bits) { uint32_t q_ = (bits) <= 8 ? (uint32_t)(val8) >> (8 - (bits)) \
	: (((uint32_t)(val8) << ((bits) - 8)) | ((uint32_t)(val8) >> (16 - (bits)))); \
	v |= q_ << (sh); used |= (((1u << (bits)) - 1) << (sh)); }
    PUT (a, as, (argb >> 24) & 0xff);
    PUT (r, rs, (argb >> 16) & 0xff);
    PUT (g, gs, (argb >> 8) & 0xff);
    PUT (b, bs, argb & 0xff);
    v |= junk & ~used;                 /* undefined bits hold junk */
    if (bpp < 32) v &= (1u << bpp) - 1;
    return v;
}

typedef struct { pixman_image_t *img; uint8_t *bits; int w, h, stride; pixman_format_code_t fmt; } img_t;

static uint32_t
content_pixel (vrng_t *rng, int quant, int alpha_from_rng)
{
    uint32_t v = (uint32_t)vrng_next (rng);
    int a = alpha_from_rng ? (v >> 24) : 255, r = (v >> 16) & 0xff, g = (v >> 8) & 0xff, b = v & 0xff;
    if (vrng_below (rng, 5) == 0) { r = g = b = vrng_below (rng, 2) ? 255 : 0; }
    if (quant) { r = rep (r >> 3, 5); g = rep (g >> 2, 6); b = rep (b >> 3, 5); }
    if (alpha_from_rng) { r = r * a / 255; g = g * a / 255; b = b * a / 255; }
    return ((uint32_t)a << 24) | (r << 16) | (g << 8) | b;
}

static void
make_image (img_t *im, pixman_format_code_t fmt, int w, int h, uint64_t seed, int quant, int constant, int alpha_from_rng)
{
    int bpp = PIXMAN_FORMAT_BPP (fmt), x, y;
    vrng_t rng, junk;
    uint32_t c = 0;
    im->stride = ((w * bpp + 31) / 32 + 1) * 4;
    im->bits = calloc (1, im->stride * h + 8);
    im->w = w; im->h = h; im->fmt = fmt;
    vrng_seed (&rng, seed);
    vrng_seed (&junk, seed ^ 0x5555);
    if (constant)
	c = content_pixel (&rng, quant, alpha_from_rng);
    for (y = 0; y < h; y++)
	for (x = 0; x < w; x++)
	{
	    uint32_t v = pack (fmt, constant ? c : content_pixel (&rng, quant, alpha_from_rng), (uint32_t)vrng_next (&junk));
	    uint8_t *p = im->bits + y * im->stride + x * (bpp / 8);
	    if (bpp == 32) memcpy (p, &v, 4);
	    else if (bpp == 16) { uint16_t s = (uint16_t)v; memcpy (p, &s, 2); }
	    else *p = (uint8_t)v;
	}
    im->img = pixman_image_create_bits (fmt, w, h, (uint32_t *)im->bits, im->stride);
}

static void
log_pixels (const img_t *d)
{
    int a = PIXMAN_FORMAT_A (d->fmt), r = PIXMAN_FORMAT_R (d->fmt), g = PIXMAN_FORMAT_G (d->fmt), b = PIXMAN_FORMAT_B (d->fmt);
    int bpp = PIXMAN_FORMAT_BPP (d->fmt), as, rs, gs, bs, x, y, first = 1;
    shifts (d->fmt, &as, &rs, &gs, &bs);
    fprintf (vt_out, ",\"cbits\":[%d,%d,%d,%d],\"px\":[", a, r, g, b);
    for (y = 0; y < d->h; y++)
	for (x = 0; x < d->w; x++)
	{
	    const uint8_t *p = d->bits + y * d->stride + x * (bpp / 8);
	    uint32_t v = 0;
	    if (bpp == 32) memcpy (&v, p, 4);
	    else if (bpp == 16) { uint16_t s; memcpy (&s, p, 2); v = s; }
	    else v = *p;
#define GET(bits, sh) ((bits) ? (int)((v >> (sh)) & ((1u << (bits)) - 1)) : 0)
	    fprintf (vt_out, "%s[%d,%d,%d,%d]", first ? "" : ",", GET (a, as), GET (r, rs), GET (g, gs), GET (b, bs));
	    first = 0;
	}
    fputc (']', vt_out);
}

/* G lines: a gradient (linear / radial / conical, any repeat mode, any stop list) used as source (role 0) or as mask
 * (role 1), presented directly (variant 0) and rendered with SRC into a cleared a8r8g8b8 image that is then used as a plain,
 * non-repeating image covering the request (variant 1: an alpha format is never flagged opaque).  The Req event carries
 * the alpha of every gradient sample of the request ("galpha", read from that rendering): the specification decides from them
 * whether the gradient is truly opaque for the request.
 *
 * G pair variant cmp op role gkind grep g0..g5 nstops p0 a0 p1 a1 p2 a2 p3 a3 other dfmt dw dh gx gy dx dy w h seed
 *   gkind 0 linear (g0,g1)-(g2,g3); 1 radial (g0,g1,r g2)-(g3,g4,r g5); 2 conical centre (g0,g1) angle g2   (16.16)
 *   other: role 0: mask kind (0, 1, 2, 4, 5 as in P lines); role 1: source kind (0 opaque x8r8g8b8 image, 1 solid,
 *          4 translucent a8r8g8b8 image, 10 opaque a8r8g8b8 image)
 */
static int
do_grad (FILE *in)
{
    long long f[40];
    int i, k = 0, x, y;
    int pair, variant, cmp, op, role, gkind, grep, nstops, other, dw, dh, gx, gy, dx, dy, w, h;
    pixman_fixed_t g[6];
    pixman_gradient_stop_t stops[4];
    pixman_format_code_t dfmt, sfmt = PIXMAN_a8r8g8b8;
    uint64_t seed;
    vrng_t rng;
    img_t s, m, d, t;
    pixman_image_t *grad, *src = NULL, *mask = NULL, *pres;
    int skind = 8, mkind = 8, sw = 0, sh = 0, sx = 0, sy = 0, mx = 0, my = 0;
    int *galpha, ng = 0;
    void (*saved) (const char *, const void *);

    for (i = 0; i < 33; i++)
	if (fscanf (in, "%lld", &f[i]) != 1) return 3;
    pair = (int)f[k++]; variant = (int)f[k++]; cmp = (int)f[k++]; op = (int)f[k++];
    role = (int)f[k++]; gkind = (int)f[k++]; grep = (int)f[k++];
    for (i = 0; i < 6; i++) g[i] = (pixman_fixed_t)f[k++];
    nstops = (int)f[k++];
    vrng_seed (&rng, (uint64_t)f[32] ^ 0x9a);
    for (i = 0; i < 4; i++)
    {
	uint32_t c = (uint32_t)vrng_next (&rng);
	unsigned a = (unsigned)f[k + 1];
	stops[i].x = (pixman_fixed_t)f[k];
	stops[i].color.alpha = a;
	stops[i].color.red = ((c >> 16) & 0xff) * 0x101; stops[i].color.green = ((c >> 8) & 0xff) * 0x101;
	stops[i].color.blue = (c & 0xff) * 0x101;
	k += 2;
    }
    other = (int)f[k++];
    dfmt = (pixman_format_code_t)f[k++]; dw = (int)f[k++]; dh = (int)f[k++];
    gx = (int)f[k++]; gy = (int)f[k++]; dx = (int)f[k++]; dy = (int)f[k++]; w = (int)f[k++]; h = (int)f[k++];
    seed = (uint64_t)f[k++];
    memset (&s, 0, sizeof s); memset (&m, 0, sizeof m); memset (&t, 0, sizeof t);

    if (gkind == 0)
    {
	pixman_point_fixed_t p1 = { g[0], g[1] }, p2 = { g[2], g[3] };
	grad = pixman_image_create_linear_gradient (&p1, &p2, stops, nstops);
    }
    else if (gkind == 1)
    {
	pixman_point_fixed_t c1 = { g[0], g[1] }, c2 = { g[3], g[4] };
	grad = pixman_image_create_radial_gradient (&c1, &c2, g[2], g[5], stops, nstops);
    }
    else
    {
	pixman_point_fixed_t c = { g[0], g[1] };
	grad = pixman_image_create_conical_gradient (&c, g[2], stops, nstops);
    }
    if (!grad) return 3;
    pixman_image_set_repeat (grad, (pixman_repeat_t)grep);

    /* the gradient alone, SRC, onto a cleared a8r8g8b8 buffer of the destination's size, with the request's geometry
     * (not part of the request under judgement: the hook is silent meanwhile) */
    t.w = dw; t.h = dh; t.fmt = PIXMAN_a8r8g8b8; t.stride = dw * 4;
    t.bits = calloc (1, t.stride * dh + 8);
    t.img = pixman_image_create_bits (PIXMAN_a8r8g8b8, dw, dh, (uint32_t *)t.bits, t.stride);
    saved = _pixman_verif_sink;
    _pixman_verif_sink = NULL;
    pixman_image_composite32 (PIXMAN_OP_SRC, grad, NULL, t.img, gx, gy, 0, 0, dx, dy, w, h);
    _pixman_verif_sink = saved;
    galpha = malloc (sizeof (int) * (w * h + 1));
    for (y = dy; y < dy + h; y++)
	for (x = dx; x < dx + w; x++)
	    if (x >= 0 && y >= 0 && x < dw && y < dh)
		galpha[ng++] = t.bits[y * t.stride + x * 4 + 3];       /* little endian: byte 3 = alpha */

    pres = variant == 0 ? grad : t.img;
    if (role == 0)
    {
	src = pres;
	sx = variant == 0 ? gx : dx; sy = variant == 0 ? gy : dy;
	sw = dw; sh = dh;
	mkind = other;
	if (mkind == 1 || mkind == 4)
	{
	    int mw = dw + 4, mh = dh + 2;
	    vrng_t mr;
	    vrng_seed (&mr, seed ^ 0x77);
	    m.stride = ((mw * 8 + 31) / 32) * 4;
	    m.bits = malloc (m.stride * mh);
	    memset (m.bits, 0xff, m.stride * mh);
	    if (mkind == 4)
		for (y = 0; y < mh; y++)
		    for (x = 0; x < mw; x++)
			m.bits[y * m.stride + x] = (uint8_t)vrng_next (&mr);
	    m.img = pixman_image_create_bits (PIXMAN_a8, mw, mh, (uint32_t *)m.bits, m.stride);
	    mask = m.img;
	}
	else if (mkind == 2 || mkind == 5)
	{
	    static const uint16_t almost[] = { 0xfffe, 0xff80, 0xff00, 0xfeff };
	    pixman_color_t white = { 0xffff, 0xffff, 0xffff, 0xffff };
	    if (mkind == 5)
		white.alpha = almost[seed % 4];
	    mask = pixman_image_create_solid_fill (&white);
	}
    }
    else
    {
	mask = pres;
	mx = variant == 0 ? gx : dx; my = variant == 0 ? gy : dy;
	skind = other == 10 ? 0 : other;
	sfmt = other == 0 ? PIXMAN_x8r8g8b8 : PIXMAN_a8r8g8b8;
	sx = 1; sy = 1;
	if (skind == 1)
	{
	    pixman_color_t col;
	    uint32_t c;
	    vrng_seed (&rng, seed);
	    c = content_pixel (&rng, 0, 0);
	    col.alpha = 0xffff;
	    col.red = ((c >> 16) & 0xff) * 0x101; col.green = ((c >> 8) & 0xff) * 0x101; col.blue = (c & 0xff) * 0x101;
	    src = pixman_image_create_solid_fill (&col);
	    sw = sh = 1;
	}
	else
	{
	    sw = dw + 6; sh = dh + 4;
	    make_image (&s, sfmt, sw, sh, seed, 0, 0, skind == 4);
	    src = s.img;
	}
    }

    vt_begin ("Req");
    vt_int ("pair", pair); vt_int ("variant", variant); vt_int ("cmp", cmp); vt_int ("op", op);
    vt_int ("skind", skind); vt_int ("s_abits", role == 0 ? 8 : (skind == 1 ? 0 : PIXMAN_FORMAT_A (sfmt)));
    vt_int ("sw", sw); vt_int ("sh", sh);
    vt_int ("srep", 0); vt_bool ("simple", 1);
    vt_int ("sfilt", PIXMAN_FILTER_NEAREST); vt_ints ("kernel", NULL, 0); vt_int ("tx", 0); vt_int ("ty", 0);
    vt_int ("mkind", mkind); vt_int ("d_abits", PIXMAN_FORMAT_A (dfmt)); vt_int ("dw", dw); vt_int ("dh", dh);
    vt_int ("sx", sx); vt_int ("sy", sy); vt_int ("dx", dx); vt_int ("dy", dy); vt_int ("w", w); vt_int ("h", h);
    vt_int ("role", role); vt_int ("gkind", gkind); vt_int ("grep", grep); vt_int ("nstops", nstops);
    vt_ints ("galpha", galpha, ng);
    vt_end ();

    make_image (&d, dfmt, dw, dh, seed ^ 0xd57, 0, 0, 0);
    pixman_image_composite32 ((pixman_op_t)op, src, mask, d.img, sx, sy, mx, my, dx, dy, w, h);
    vt_begin ("Res");
    vt_int ("pair", pair); vt_int ("variant", variant); vt_int ("cmp", cmp);
    log_pixels (&d);
    vt_end ();

    pixman_image_unref (grad);
    pixman_image_unref (t.img);
    if (s.img) pixman_image_unref (s.img);
    else if (role == 1) pixman_image_unref (src);
    if (role == 0 && mask) pixman_image_unref (mask);
    pixman_image_unref (d.img);
    free (s.bits); free (m.bits); free (d.bits); free (t.bits); free (galpha);
    return 0;
}

int
main (int argc, char **argv)
{
    FILE *in;
    char kind[4];
    if (argc < 3)
	return 3;
    in = fopen (argv[1], "r");
    if (!in) { perror (argv[1]); return 3; }
    vt_open (argv[2]);
    vt_reset (getenv ("PIXMAN_DISABLE") ? getenv ("PIXMAN_DISABLE") : "default");
    _pixman_verif_sink = sink;
    while (fscanf (in, "%3s", kind) == 1)
    {
	long long f[40];
	int n = 28, i, k = 0;
	int pair, variant, cmp, op, skind, sw, sh, srep, sfilt, mkind, dw, dh, sx, sy, dx, dy, w, h, quant, drep, persp;
	pixman_format_code_t sfmt, dfmt;
	pixman_fixed_t t[6];
	uint64_t seed;
	img_t s, m, d;
	pixman_image_t *src, *mask = NULL;
	int simple, nk;
	pixman_fixed_t kparams[16];
	if (kind[0] == 'G')
	{
	    if (do_grad (in)) return 3;
	    continue;
	}
	for (i = 0; i < n; i++)
	    if (fscanf (in, "%lld", &f[i]) != 1) return 3;
	pair = (int)f[k++]; variant = (int)f[k++]; cmp = (int)f[k++]; op = (int)f[k++];
	skind = (int)f[k++]; sfmt = (pixman_format_code_t)f[k++]; sw = (int)f[k++]; sh = (int)f[k++];
	srep = (int)f[k++]; sfilt = (int)f[k++];
	for (i = 0; i < 6; i++) t[i] = (pixman_fixed_t)f[k++];
	mkind = (int)f[k++];
	dfmt = (pixman_format_code_t)f[k++]; dw = (int)f[k++]; dh = (int)f[k++];
	sx = (int)f[k++]; sy = (int)f[k++]; dx = (int)f[k++]; dy = (int)f[k++]; w = (int)f[k++]; h = (int)f[k++];
	seed = (uint64_t)f[k++]; quant = (int)f[k++];
	drep = (quant >> 1) & 1;       /* bit 1: the destination is given REPEAT_NORMAL (pixman then knows an
				    * alpha-less destination to be opaque) */
	persp = (quant >> 4) & 15;     /* bits 4-7: projective row of the source transform (table below) */
	quant &= 1;
	memset (&s, 0, sizeof s); memset (&m, 0, sizeof m);
	nk = 0;
	if (sfilt >= 50)
	{
	    /* 50..52: 3x3 convolution, 60..62: separable 1x1 / 2x1 (one phase); last digit: kernel gain 1/2, 1, 3/2 */
	    int g = (sfilt % 10 == 0) ? 32768 : (sfilt % 10 == 1 ? 65536 : 98304);
	    if (sfilt < 60)
	    {
		kparams[0] = pixman_int_to_fixed (3); kparams[1] = pixman_int_to_fixed (3);
		for (i = 0; i < 9; i++) kparams[2 + i] = 0;
		kparams[2 + 4] = g - 2 * 4096; kparams[2 + 1] = 4096; kparams[2 + 7] = 4096;
		nk = 11;
	    }
	    else
	    {
		kparams[0] = pixman_int_to_fixed (2); kparams[1] = pixman_int_to_fixed (1);
		kparams[2] = 0; kparams[3] = 0;
		kparams[4] = g / 2; kparams[5] = g - g / 2;     /* x coefficients */
		kparams[6] = 65536;                              /* y coefficient */
		nk = 7;
	    }
	}

	/* the scripted request, echoed for the specification */
	simple = (persp == 0 && t[1] == 0 && t[2] == 0 && t[0] == 65536 && t[3] == 65536 && (t[4] & 0xffff) == 0 && (t[5] & 0xffff) == 0 &&
		  (sfilt == PIXMAN_FILTER_NEAREST || sfilt == PIXMAN_FILTER_FAST));
	vt_begin ("Req");
	vt_int ("pair", pair); vt_int ("variant", variant); vt_int ("cmp", cmp); vt_int ("op", op);
	vt_int ("skind", skind); vt_int ("s_abits", skind == 1 ? 0 : PIXMAN_FORMAT_A (sfmt)); vt_int ("sw", sw); vt_int ("sh", sh);
	vt_int ("srep", srep); vt_bool ("simple", simple);
	vt_int ("sfilt", sfilt); vt_ints ("kernel", (const int *)kparams, nk); vt_int ("tx", t[4] >> 16); vt_int ("ty", t[5] >> 16);
	vt_int ("mkind", mkind); vt_int ("d_abits", PIXMAN_FORMAT_A (dfmt)); vt_int ("dw", dw); vt_int ("dh", dh);
	vt_int ("sx", sx); vt_int ("sy", sy); vt_int ("dx", dx); vt_int ("dy", dy); vt_int ("w", w); vt_int ("h", h);
	vt_end ();

	pixman_color_t fillcol;
	int use_fill = (skind == 6 || skind == 7);
	if (skind == 1 || skind == 5 || use_fill)
	{
	    /* 1: solid colour: the constant content colour, alpha 1
	     * 5: a solid whose 16-bit alpha is NOT 0xffff (almost opaque ... translucent): never opaque
	     * 6, 7: the same two colours drawn by pixman_image_fill_boxes instead of compositing a solid image */
	    static const uint16_t almost[] = { 0xfffe, 0xff80, 0xff00, 0xfeff, 0x8000, 0x00ff };
	    vrng_t rng; uint32_t c; pixman_color_t col;
	    vrng_seed (&rng, seed);
	    c = content_pixel (&rng, quant, 0);
	    col.alpha = (skind == 1 || skind == 6) ? 0xffff : almost[seed % 6];
	    col.red = ((c >> 16) & 0xff) * 0x101; col.green = ((c >> 8) & 0xff) * 0x101; col.blue = (c & 0xff) * 0x101;
	    if (col.red > col.alpha) col.red = col.alpha;
	    if (col.green > col.alpha) col.green = col.alpha;
	    if (col.blue > col.alpha) col.blue = col.alpha;
	    fillcol = col;
	    src = pixman_image_create_solid_fill (&col);
	}
	else
	{
	    /* 0: opaque varying content; 2: 1x1 repeating constant; 3: constant image; 4: translucent varying content */
	    if (skind == 2) { sw = sh = 1; srep = PIXMAN_REPEAT_NORMAL; }
	    make_image (&s, sfmt, sw, sh, seed, quant, skind == 2 || skind == 3, skind == 4);
	    src = s.img;
	    pixman_image_set_repeat (src, (pixman_repeat_t)srep);
	    if (sfilt >= 50)
		pixman_image_set_filter (src, sfilt < 60 ? PIXMAN_FILTER_CONVOLUTION : PIXMAN_FILTER_SEPARABLE_CONVOLUTION,
					 kparams, nk);
	    else
		pixman_image_set_filter (src, (pixman_filter_t)sfilt, NULL, 0);
	    if (persp || !(t[0] == 65536 && t[1] == 0 && t[2] == 0 && t[3] == 65536 && t[4] == 0 && t[5] == 0))
	    {
		pixman_transform_t tr;
		pixman_transform_init_identity (&tr);
		tr.matrix[0][0] = t[0]; tr.matrix[0][1] = t[1]; tr.matrix[1][0] = t[2]; tr.matrix[1][1] = t[3];
		tr.matrix[0][2] = t[4]; tr.matrix[1][2] = t[5];
		if (persp)
		{
		    /* w = 1 + a x + b y (in 1/65536): the four corners of a rectangle map to a quadrilateral, so that two
		     * opposite corners do not bound the others */
		    static const int pa[16] = { 0, 2048, -2048, 0, 0, 1024, -1024, 4096, -4096, 3000, -3000, 0, 0, 1500, -1500, 700 };
		    static const int pb[16] = { 0, 0, 0, 4096, -4096, 2048, 2048, 0, 0, -3000, 3000, 8192, -8192, 1500, -1500, -700 };
		    tr.matrix[2][0] = pa[persp]; tr.matrix[2][1] = pb[persp];
		}
		pixman_image_set_transform (src, &tr);
	    }
	}
	if (mkind == 1 || mkind == 3 || mkind == 4 || mkind == 6)
	{
	    /* 1: a8 mask, every pixel 255; 3: a8r8g8b8 component-alpha mask, every component 255; 4: translucent a8 (same in all variants);
	     * 6: a8 with runs of 0, of 255 and of partial coverage (the special-cased values of the fast paths), same in all variants */
	    pixman_format_code_t mf = mkind == 3 ? PIXMAN_a8r8g8b8 : PIXMAN_a8;
	    int mw = dw + 4, mh = dh + 2, x, y;
	    vrng_t rng;
	    vrng_seed (&rng, seed ^ 0x77);
	    m.stride = ((mw * PIXMAN_FORMAT_BPP (mf) + 31) / 32) * 4;
	    m.bits = malloc (m.stride * mh);
	    memset (m.bits, 0xff, m.stride * mh);
	    if (mkind == 4)
		for (y = 0; y < mh; y++)
		    for (x = 0; x < mw; x++)
			m.bits[y * m.stride + x] = (uint8_t)vrng_next (&rng);
	    if (mkind == 6)
		for (y = 0; y < mh; y++)
		    for (x = 0; x < mw; x++)
		    {
			uint32_t r = (uint32_t)vrng_next (&rng);
			m.bits[y * m.stride + x] = (r >> 8) % 3 == 0 ? 0 : (r >> 8) % 3 == 1 ? 255 : (uint8_t)r;
		    }
	    m.img = pixman_image_create_bits (mf, mw, mh, (uint32_t *)m.bits, m.stride);
	    mask = m.img;
	    if (mkind == 3)
		pixman_image_set_component_alpha (mask, 1);
	}
	else if (mkind == 2 || mkind == 5)
	{
	    /* 2: solid white, alpha 1; 5: a solid mask whose 16-bit alpha is just below 1 (never opaque) */
	    static const uint16_t almost[] = { 0xfffe, 0xff80, 0xff00, 0xfeff };
	    pixman_color_t white = { 0xffff, 0xffff, 0xffff, 0xffff };
	    if (mkind == 5)
		white.alpha = almost[seed % 4];
	    mask = pixman_image_create_solid_fill (&white);
	}
	/* destination: opaque varying content (alpha 255 where the format has alpha) */
	make_image (&d, dfmt, dw, dh, seed ^ 0xd57, quant, 0, 0);
	if (drep)
	    pixman_image_set_repeat (d.img, PIXMAN_REPEAT_NORMAL);
	if (use_fill)
	{
	    pixman_box32_t bx;
	    bx.x1 = dx; bx.y1 = dy; bx.x2 = dx + w; bx.y2 = dy + h;
	    pixman_image_fill_boxes ((pixman_op_t)op, d.img, &fillcol, 1, &bx);
	}
	else
	    pixman_image_composite32 ((pixman_op_t)op, src, mask, d.img, sx, sy, 0, 0, dx, dy, w, h);
	vt_begin ("Res");
	vt_int ("pair", pair); vt_int ("variant", variant); vt_int ("cmp", cmp);
	log_pixels (&d);
	vt_end ();
	pixman_image_unref (src);
	if (mask) pixman_image_unref (mask);
	pixman_image_unref (d.img);
	free (s.bits); free (m.bits); free (d.bits);
    }
    _pixman_verif_sink = NULL;
    vt_close ();
    return 0;
}
