/* Allocation accounting for the lifetime driver (C20).  Linked with
 *   -Wl,--wrap=malloc,--wrap=calloc,--wrap=realloc,--wrap=free
 * so that every allocation made by the statically linked pixman goes through the wrappers in
 * life_alloc.c.  While la_on is set, each allocation gets a small id (1, 2, ... per execution) and
 * Malloc/Free records are appended to the list of sub-events of the API call in progress; nothing is
 * printed from inside the wrappers.  The wrappers judge nothing: a free of an address that has no id
 * is recorded with id 0 and the trace specification decides what that means. */
#ifndef LIFE_ALLOC_H
#define LIFE_ALLOC_H
typedef struct { char k; int a, b, c; } la_ev_t;
#define LA_MAXSUB 1024
extern la_ev_t la_sub[LA_MAXSUB];
extern int la_nsub;           /* number of sub-events recorded since la_clear () */
extern int la_overflow;       /* more than LA_MAXSUB sub-events were produced */
extern int la_on;             /* record allocation events */
void la_push (char k, int a, int b, int c);
void la_clear (void);         /* forget the sub-events (start of an API call) */
void la_reset (void);         /* forget the id table too (start of an execution) */
#endif
