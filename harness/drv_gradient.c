/* Conformance driver for gradient sources (C13): creates a gradient, composites it with OP_SRC into
 * a small destination and logs the destination scanlines.  It never judges.
 *
 * script (blank separated tokens):
 *   R name
 *   G claim kind repeat wide nstops {x a r g b}*nstops ngeom {v}*ngeom hasT {m}*9 dw dh
 *        claim 1: colour-claim scenario, arguments and every scanline are logged
 *              0: safety scenario (arbitrary stops / degenerate geometry), only Begin/Done are logged
 *        kind  0 linear (p1x p1y p2x p2y)   1 radial (c1x c1y r1 c2x c2y r2)   2 conical (cx cy angle)
 *        all coordinates 16.16, colours 16 bit
 *   M fmt n v0 .. v(n-1)
 *        mask for the NEXT G/H line: an a8 (fmt 0) or a8r8g8b8 (fmt 1, colour bytes 0x5a) image of the destination's
 *        size with these alpha values (row-major, n = dw*dh); the composite becomes OP_SRC (gradient IN mask) and
 *        GradBegin carries "mask" (rows) and "mfmt"
 *   H claim kind nsteps {repeat}*nsteps wide nstops ... (rest as G)
 *        repeat-switch history on ONE image object: create; then for every step set_repeat (repeat_i) and
 *        composite; every step is logged exactly like a G scenario (GradBegin with that repeat, GradRow...,
 *        plus "step" = index in the history)
 * events: GradBegin (before the composite), GradRow (one per scanline) / GradDone, End
 * A watchdog alarm turns a hang into a Crash event.
 */
#include "vcommon.h"
#include <pixman.h>
#include <unistd.h>
#include <math.h>

static const char *kinds[] = { "linear", "radial", "conical" };
static const char *rname[] = { "NONE", "NORMAL", "PAD", "REFLECT" };

#define MAXSTOPS 64

/* a float channel in 1/256 of an 8-bit step; values far outside [0,1] (and NaN) saturate so that the number
 * stays a 32-bit integer in the trace */
static long
q256 (float f)
{
    if (!(f > -1000.0f && f < 1000.0f))
	return f < 0 ? -99999999L : 99999999L;
    return lrint (f * 65280.0);
}

static int mask_n = -1, mask_fmt, mask_v[4096];

static long long
rd (FILE *in)
{
    long long v;
    if (fscanf (in, "%lld", &v) != 1)
	exit (3);
    return v;
}

int
main (int argc, char **argv)
{
    FILE *in;
    char kind[8], name[128];
    if (argc < 3)
    {
	fprintf (stderr, "usage: drv_gradient script trace\n");
	return 3;
    }
    in = fopen (argv[1], "r");
    if (!in) { perror (argv[1]); return 3; }
    vt_open (argv[2]);
    while (fscanf (in, "%7s", kind) == 1)
    {
	if (kind[0] == 'R')
	{
	    if (fscanf (in, "%127s", name) != 1) return 3;
	    vt_reset (name);
	}
	else if (kind[0] == 'M')
	{
	    int i;
	    mask_fmt = (int)rd (in);
	    mask_n = (int)rd (in);
	    if (mask_n < 0 || mask_n > 4096) return 3;
	    for (i = 0; i < mask_n; i++) mask_v[i] = (int)rd (in) & 255;
	}
	else if (kind[0] == 'G' || kind[0] == 'H')
	{
	    int claim = (int)rd (in), k = (int)rd (in);
	    int nsteps = kind[0] == 'H' ? (int)rd (in) : 1, reps[8], step, rep;
	    int wide;
	    int ns, i, ng, hasT, dw, dh, g[6], m[9], x, y;
	    pixman_gradient_stop_t stops[MAXSTOPS];
	    pixman_image_t *src = NULL, *dst, *msk = NULL;
	    uint32_t *mbits = NULL;
	    pixman_transform_t t;
	    void *bits;
	    if (nsteps < 1 || nsteps > 8) return 3;
	    for (i = 0; i < nsteps; i++) reps[i] = (int)rd (in);
	    wide = (int)rd (in);
	    ns = (int)rd (in);
	    if (ns > MAXSTOPS || ns < 0) return 3;
	    for (i = 0; i < ns; i++)
	    {
		stops[i].x = (pixman_fixed_t)rd (in);
		stops[i].color.alpha = (uint16_t)rd (in);
		stops[i].color.red = (uint16_t)rd (in);
		stops[i].color.green = (uint16_t)rd (in);
		stops[i].color.blue = (uint16_t)rd (in);
	    }
	    ng = (int)rd (in);
	    if (ng > 6) return 3;
	    for (i = 0; i < ng; i++) g[i] = (int)rd (in);
	    hasT = (int)rd (in);
	    for (i = 0; i < 9; i++) m[i] = hasT ? (int)rd (in) : 0;
	    dw = (int)rd (in);
	    dh = (int)rd (in);
	    if (mask_n >= 0 && mask_n != dw * dh) return 3;
	    if (mask_n >= 0)
	    {
		/* both formats use 4-byte aligned rows of dw words; a8 rows keep their padding bytes at 0 */
		mbits = calloc ((size_t)dw * dh, 4);
		for (i = 0; i < mask_n; i++)
		{
		    if (mask_fmt == 0)
			((uint8_t *)mbits)[(i / dw) * dw * 4 + i % dw] = (uint8_t)mask_v[i];
		    else
			mbits[i] = ((uint32_t)mask_v[i] << 24) | 0x5a5a5a;
		}
		msk = pixman_image_create_bits (mask_fmt == 0 ? PIXMAN_a8 : PIXMAN_a8r8g8b8, dw, dh, mbits, dw * 4);
	    }

	    alarm (20);
	    if (k == 0)
	    {
		pixman_point_fixed_t p1 = { g[0], g[1] }, p2 = { g[2], g[3] };
		src = pixman_image_create_linear_gradient (&p1, &p2, stops, ns);
	    }
	    else if (k == 1)
	    {
		pixman_point_fixed_t c1 = { g[0], g[1] }, c2 = { g[3], g[4] };
		src = pixman_image_create_radial_gradient (&c1, &c2, g[2], g[5], stops, ns);
	    }
	    else
	    {
		pixman_point_fixed_t c = { g[0], g[1] };
		src = pixman_image_create_conical_gradient (&c, g[2], stops, ns);
	    }
	    alarm (0);
	    if (src && hasT)
	    {
		for (i = 0; i < 9; i++) t.matrix[i / 3][i % 3] = m[i];
		pixman_image_set_transform (src, &t);
	    }
	    for (step = 0; step < nsteps; step++)
	    {
	    rep = reps[step];
	    vt_begin ("GradBegin");
	    vt_bool ("claim", claim);
	    if (claim)
	    {
		vt_str ("kind", kinds[k % 3]);
		vt_ints ("g", g, ng);
		vt_key ("stops");
		fputc ('[', vt_out);
		for (i = 0; i < ns; i++)
		    fprintf (vt_out, "%s[%d,%d,%d,%d,%d]", i ? "," : "", (int)stops[i].x, stops[i].color.alpha,
			     stops[i].color.red, stops[i].color.green, stops[i].color.blue);
		fputc (']', vt_out);
		vt_str ("repeat", rname[rep & 3]);
		vt_ints ("m", m, hasT ? 9 : 0);
		vt_bool ("wide", wide);
		vt_int ("dw", dw);
		vt_int ("dh", dh);
		if (nsteps > 1) vt_int ("step", step);
		if (msk)
		{
		    vt_str ("mfmt", mask_fmt == 0 ? "a8" : "a8r8g8b8");
		    vt_key ("mask");
		    fputc ('[', vt_out);
		    for (y = 0; y < dh; y++)
		    {
			fputs (y ? ",[" : "[", vt_out);
			for (x = 0; x < dw; x++)
			    fprintf (vt_out, x ? ",%d" : "%d", mask_v[y * dw + x]);
			fputc (']', vt_out);
		    }
		    fputc (']', vt_out);
		}
	    }
	    vt_end ();

	    alarm (20);
	    bits = calloc ((size_t)dw * dh, wide ? 16 : 4);
	    if (wide)
	    {
		float *f = bits;
		for (i = 0; i < dw * dh * 4; i++) f[i] = 0.33f;
		dst = pixman_image_create_bits (PIXMAN_rgba_float, dw, dh, bits, dw * 16);
	    }
	    else
	    {
		uint32_t *u = bits;
		for (i = 0; i < dw * dh; i++) u[i] = 0x12345678u;
		dst = pixman_image_create_bits (PIXMAN_a8r8g8b8, dw, dh, bits, dw * 4);
	    }
	    if (src)
	    {
		pixman_image_set_repeat (src, (pixman_repeat_t)rep);
		pixman_image_composite32 (PIXMAN_OP_SRC, src, msk, dst, 0, 0, 0, 0, 0, 0, dw, dh);
	    }
	    alarm (0);

	    if (!claim)
	    {
		vt_begin ("GradDone");
		vt_bool ("created", src != NULL);
		vt_end ();
	    }
	    else
	    {
		for (y = 0; y < dh; y++)
		{
		    vt_begin ("GradRow");
		    vt_int ("y", y);
		    vt_int ("x0", 0);
		    vt_key ("out");
		    fputc ('[', vt_out);
		    for (x = 0; x < dw; x++)
		    {
			if (wide)
			{
			    /* rgba_float: r, g, b, a in memory; unit conversion to 1/256 of an 8-bit step */
			    float *f = (float *)bits + ((size_t)y * dw + x) * 4;
			    fprintf (vt_out, "%s[%ld,%ld,%ld,%ld]", x ? "," : "", q256 (f[3]),
				     q256 (f[0]), q256 (f[1]), q256 (f[2]));
			}
			else
			{
			    uint32_t p = ((uint32_t *)bits)[y * dw + x];
			    fprintf (vt_out, "%s[%u,%u,%u,%u]", x ? "," : "", p >> 24, (p >> 16) & 255,
				     (p >> 8) & 255, p & 255);
			}
		    }
		    fputc (']', vt_out);
		    vt_end ();
		}
	    }
	    pixman_image_unref (dst);
	    free (bits);
	    }
	    if (src) pixman_image_unref (src);
	    if (msk) pixman_image_unref (msk);
	    free (mbits);
	    mask_n = -1;
	}
	else
	    return 3;
    }
    vt_begin ("End");
    vt_end ();
    vt_close ();
    return 0;
}
