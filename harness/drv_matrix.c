/* Conformance driver for pixman's transform arithmetic (C11): executes a script of
 * pixman_transform_* / pixman_f_transform_* calls on the real library and logs inputs, return
 * value and outputs of every call.  It never judges.
 *
 * Script: one call per line, "<fn> <args...>"; fixed-point values are decimal int32, doubles are
 * the 16 hex digits of their IEEE-754 bit pattern.  "R <name>" starts a new execution.
 * Trace:  {"e":"Call","fn":...} per call; 32-bit words as [hi16,lo16]; doubles as four 16-bit
 * quarters [h3,h2,h1,h0] (most significant first).
 * A call that aborts (assertion, SIGFPE, SIGSEGV) is logged as {"e":"Crash","sig":..,"fn":..,"line":..}
 * and the driver continues with the next script line. */
#include "vcommon.h"
#include <pixman.h>
#include <signal.h>
#include <setjmp.h>
#include <unistd.h>

static sigjmp_buf jb;
static volatile int in_call;
static volatile int crash_sig;
static const char *cur_fn = "";
static int cur_line;
static char cur_text[4096];

static void
on_signal (int sig)
{
    if (!in_call)
    {
	char buf[96];
	int n = snprintf (buf, sizeof buf, "\n{\"e\":\"Crash\",\"sig\":%d,\"fn\":\"driver\"}\n", sig);
	if (vt_out) { fflush (vt_out); if (write (fileno (vt_out), buf, n) < 0) {} }
	_exit (0);
    }
    crash_sig = sig;
    siglongjmp (jb, 1);
}

static void
log_crash (int sig)
{
    char *p;
    for (p = cur_text; *p; p++)
	if (*p == '"' || *p == '\\' || *p == '\n' || *p == '\r') *p = ' ';
    vt_begin ("Crash");
    vt_int ("sig", sig);
    vt_str ("fn", cur_fn);
    vt_int ("line", cur_line);
    vt_str ("script", cur_text);
    vt_end ();
}

/* run statement S under the crash guard; evaluates to 1 when it completed */
#define GUARDED(S) (in_call = 1, sigsetjmp (jb, 1) == 0 ? ((S), in_call = 0, 1) : (in_call = 0, 0))

/* ---- logging helpers ---- */
static void
log_mat (const char *k, const pixman_transform_t *t)
{
    vt_w32s (k, (const uint32_t *) &t->matrix[0][0], 9);
}

static void
log_vec (const char *k, const pixman_vector_t *v)
{
    vt_w32s (k, (const uint32_t *) &v->vector[0], 3);
}

static void
put_dbl (double d)
{
    uint64_t u;
    memcpy (&u, &d, 8);
    fprintf (vt_out, "[%u,%u,%u,%u]", (unsigned) (u >> 48), (unsigned) ((u >> 32) & 0xffff),
	     (unsigned) ((u >> 16) & 0xffff), (unsigned) (u & 0xffff));
}

static void
log_dbls (const char *k, const double *d, int n)
{
    int i;
    vt_key (k);
    fputc ('[', vt_out);
    for (i = 0; i < n; i++)
    {
	if (i) fputc (',', vt_out);
	put_dbl (d[i]);
    }
    fputc (']', vt_out);
}

static void
log_dbl1 (const char *k, double d)
{
    vt_key (k);
    put_dbl (d);
}

static void
log_box (const char *k, const pixman_box16_t *b)
{
    int v[4];
    v[0] = b->x1; v[1] = b->y1; v[2] = b->x2; v[3] = b->y2;
    vt_ints (k, v, 4);
}

/* ---- script reading ---- */
static char *tokp;

static char *
next_tok (void)
{
    char *s;
    while (*tokp == ' ' || *tokp == '\t') tokp++;
    if (!*tokp || *tokp == '\n') return NULL;
    s = tokp;
    while (*tokp && *tokp != ' ' && *tokp != '\t' && *tokp != '\n') tokp++;
    if (*tokp) *tokp++ = 0;
    return s;
}

static int bad_script;

static long long
rd_int (void)
{
    char *t = next_tok ();
    if (!t) { bad_script = 1; return 0; }
    return strtoll (t, NULL, 10);
}

static double
rd_dbl (void)
{
    char *t = next_tok ();
    uint64_t u;
    double d;
    if (!t) { bad_script = 1; return 0; }
    u = strtoull (t, NULL, 16);
    memcpy (&d, &u, 8);
    return d;
}

static void
rd_mat (pixman_transform_t *t)
{
    int i;
    for (i = 0; i < 9; i++)
	t->matrix[i / 3][i % 3] = (pixman_fixed_t) rd_int ();
}

static void
rd_vec (pixman_vector_t *v)
{
    int i;
    for (i = 0; i < 3; i++)
	v->vector[i] = (pixman_fixed_t) rd_int ();
}

static void
rd_fmat (pixman_f_transform_t *t)
{
    int i;
    for (i = 0; i < 9; i++)
	t->m[i / 3][i % 3] = rd_dbl ();
}

static void
rd_box (pixman_box16_t *b)
{
    b->x1 = (int16_t) rd_int (); b->y1 = (int16_t) rd_int ();
    b->x2 = (int16_t) rd_int (); b->y2 = (int16_t) rd_int ();
}

static void
fill_mat (pixman_transform_t *t)
{
    int i;
    for (i = 0; i < 9; i++)
	t->matrix[i / 3][i % 3] = 0x55555555;
}

static void
fill_fmat (pixman_f_transform_t *t)
{
    int i;
    for (i = 0; i < 9; i++)
	t->m[i / 3][i % 3] = 12345.678;
}

int
main (int argc, char **argv)
{
    FILE *in;
    static char line[4096];

    if (argc < 3)
    {
	fprintf (stderr, "usage: drv_matrix script trace\n");
	return 3;
    }
    in = fopen (argv[1], "r");
    if (!in) { perror (argv[1]); return 3; }
    vt_open (argv[2]);
    signal (SIGABRT, on_signal);
    signal (SIGFPE, on_signal);
    signal (SIGSEGV, on_signal);
    signal (SIGBUS, on_signal);
    signal (SIGILL, on_signal);
    /* keep the library's assert message out of the way */
    if (!freopen ("/dev/null", "w", stderr)) {}

    while (fgets (line, sizeof line, in))
    {
	char *fn;
	cur_line++;
	strncpy (cur_text, line, sizeof cur_text - 1);
	tokp = line;
	fn = next_tok ();
	if (!fn || fn[0] == '#')
	    continue;
	cur_fn = fn;
	bad_script = 0;

	if (!strcmp (fn, "R"))
	{
	    char *name = next_tok ();
	    vt_reset (name ? name : "x");
	}
	else if (!strcmp (fn, "point") || !strcmp (fn, "point3d"))
	{
	    pixman_transform_t m;
	    pixman_vector_t v, o;
	    volatile int ret = 0;
	    int is3d = fn[5] == '3';
	    rd_mat (&m); rd_vec (&v);
	    if (bad_script) return 3;
	    o = v;
	    if (GUARDED (ret = is3d ? pixman_transform_point_3d (&m, &o) : pixman_transform_point (&m, &o)))
	    {
		vt_begin ("Call"); vt_str ("fn", fn);
		log_mat ("m", &m); log_vec ("v", &v); vt_bool ("ret", ret); log_vec ("o", &o);
		vt_end ();
	    }
	    else
		log_crash (crash_sig);
	}
	else if (!strcmp (fn, "multiply"))
	{
	    pixman_transform_t l, r, d, l0, r0;
	    pixman_transform_t *dst = &d;
	    volatile int ret = 0;
	    int alias;
	    rd_mat (&l); rd_mat (&r); alias = (int) rd_int ();
	    if (bad_script) return 3;
	    l0 = l; r0 = r;
	    fill_mat (&d);
	    if (alias == 1) dst = &l; else if (alias == 2) dst = &r;
	    if (GUARDED (ret = pixman_transform_multiply (dst, &l, &r)))
	    {
		vt_begin ("Call"); vt_str ("fn", fn);
		log_mat ("m", &l0); log_mat ("m2", &r0); vt_int ("alias", alias); vt_bool ("ret", ret); log_mat ("o", dst);
		vt_end ();
	    }
	    else
		log_crash (crash_sig);
	}
	else if (!strcmp (fn, "scale") || !strcmp (fn, "rotate") || !strcmp (fn, "translate"))
	{
	    pixman_transform_t f, r, f0, r0;
	    volatile int ret = 0;
	    int hf, hr;
	    pixman_fixed_t p, q;
	    hf = (int) rd_int (); hr = (int) rd_int (); rd_mat (&f); rd_mat (&r);
	    p = (pixman_fixed_t) rd_int (); q = (pixman_fixed_t) rd_int ();
	    if (bad_script) return 3;
	    f0 = f; r0 = r;
	    if (GUARDED (ret = fn[0] == 's' ? pixman_transform_scale (hf ? &f : NULL, hr ? &r : NULL, p, q) :
			       fn[0] == 'r' ? pixman_transform_rotate (hf ? &f : NULL, hr ? &r : NULL, p, q) :
					      pixman_transform_translate (hf ? &f : NULL, hr ? &r : NULL, p, q)))
	    {
		vt_begin ("Call"); vt_str ("fn", fn);
		vt_bool ("hf", hf); vt_bool ("hr", hr); vt_w32 ("p", (uint32_t) p); vt_w32 ("q", (uint32_t) q);
		log_mat ("fin", &f0); log_mat ("rin", &r0); vt_bool ("ret", ret);
		log_mat ("fout", &f); log_mat ("rout", &r);
		vt_end ();
	    }
	    else
		log_crash (crash_sig);
	}
	else if (!strcmp (fn, "init"))
	{
	    pixman_transform_t o;
	    char *kind = next_tok ();
	    pixman_fixed_t p, q;
	    p = (pixman_fixed_t) rd_int (); q = (pixman_fixed_t) rd_int ();
	    if (bad_script || !kind) return 3;
	    fill_mat (&o);
	    if (GUARDED ((!strcmp (kind, "identity") ? pixman_transform_init_identity (&o) :
			  !strcmp (kind, "scale") ? pixman_transform_init_scale (&o, p, q) :
			  !strcmp (kind, "rotate") ? pixman_transform_init_rotate (&o, p, q) :
			  pixman_transform_init_translate (&o, p, q), 0)))
	    {
		vt_begin ("Call"); vt_str ("fn", fn); vt_str ("kind", kind);
		vt_w32 ("p", (uint32_t) p); vt_w32 ("q", (uint32_t) q); log_mat ("o", &o);
		vt_end ();
	    }
	    else
		log_crash (crash_sig);
	}
	else if (!strcmp (fn, "bounds"))
	{
	    pixman_transform_t m;
	    pixman_box16_t b, b0;
	    pixman_vector_t pts[4];
	    volatile int pret[4] = { 0, 0, 0, 0 };
	    volatile int ret = 0, k;
	    int okall = 1;
	    rd_mat (&m); rd_box (&b);
	    if (bad_script) return 3;
	    b0 = b;
	    /* the four corners as pixman_transform_point maps them (observations, judged by TLC) */
	    for (k = 0; k < 4; k++)
	    {
		pts[k].vector[0] = pixman_int_to_fixed ((k == 1 || k == 2) ? b0.x2 : b0.x1);
		pts[k].vector[1] = pixman_int_to_fixed ((k >= 2) ? b0.y2 : b0.y1);
		pts[k].vector[2] = pixman_fixed_1;
		if (!GUARDED (pret[k] = pixman_transform_point (&m, &pts[k])))
		{
		    okall = 0;
		    break;
		}
	    }
	    if (okall && GUARDED (ret = pixman_transform_bounds (&m, &b)))
	    {
		int i;
		vt_begin ("Call"); vt_str ("fn", fn);
		log_mat ("m", &m); log_box ("bin", &b0); vt_bool ("ret", ret); log_box ("bout", &b);
		vt_key ("pts");
		fputc ('[', vt_out);
		for (i = 0; i < 4; i++)
		{
		    fprintf (vt_out, "%s{\"ret\":%s,\"o\":[", i ? "," : "", pret[i] ? "true" : "false");
		    fprintf (vt_out, "[%u,%u],[%u,%u],[%u,%u]]}",
			     (uint32_t) pts[i].vector[0] >> 16, (uint32_t) pts[i].vector[0] & 0xffff,
			     (uint32_t) pts[i].vector[1] >> 16, (uint32_t) pts[i].vector[1] & 0xffff,
			     (uint32_t) pts[i].vector[2] >> 16, (uint32_t) pts[i].vector[2] & 0xffff);
		}
		fputc (']', vt_out);
		vt_end ();
	    }
	    else
		log_crash (crash_sig);
	}
	else if (!strcmp (fn, "invert"))
	{
	    pixman_transform_t m, m0, d;
	    pixman_transform_t *dst = &d;
	    volatile int ret = 0;
	    int alias;
	    rd_mat (&m); alias = (int) rd_int ();
	    if (bad_script) return 3;
	    m0 = m;
	    fill_mat (&d);
	    if (alias) dst = &m;
	    if (GUARDED (ret = pixman_transform_invert (dst, &m)))
	    {
		vt_begin ("Call"); vt_str ("fn", fn);
		log_mat ("m", &m0); vt_int ("alias", alias); vt_bool ("ret", ret); log_mat ("o", dst);
		vt_end ();
	    }
	    else
		log_crash (crash_sig);
	}
	else if (!strcmp (fn, "from_f"))
	{
	    pixman_f_transform_t f;
	    pixman_transform_t o;
	    volatile int ret = 0;
	    rd_fmat (&f);
	    if (bad_script) return 3;
	    fill_mat (&o);
	    if (GUARDED (ret = pixman_transform_from_pixman_f_transform (&o, &f)))
	    {
		vt_begin ("Call"); vt_str ("fn", fn);
		log_dbls ("f", &f.m[0][0], 9); vt_bool ("ret", ret); log_mat ("o", &o);
		vt_end ();
	    }
	    else
		log_crash (crash_sig);
	}
	else if (!strcmp (fn, "to_f"))
	{
	    pixman_transform_t m;
	    pixman_f_transform_t o;
	    rd_mat (&m);
	    if (bad_script) return 3;
	    fill_fmat (&o);
	    if (GUARDED (pixman_f_transform_from_pixman_transform (&o, &m)))
	    {
		vt_begin ("Call"); vt_str ("fn", fn);
		log_mat ("m", &m); log_dbls ("fo", &o.m[0][0], 9);
		vt_end ();
	    }
	    else
		log_crash (crash_sig);
	}
	else if (!strcmp (fn, "is"))
	{
	    pixman_transform_t m, m2;
	    char *kind = next_tok ();
	    volatile int ret = 0;
	    rd_mat (&m);
	    if (bad_script || !kind) return 3;
	    memset (&m2, 0, sizeof m2);
	    if (!strcmp (kind, "inverse"))
		rd_mat (&m2);
	    if (bad_script) return 3;
	    if (GUARDED (ret = !strcmp (kind, "identity") ? pixman_transform_is_identity (&m) :
			       !strcmp (kind, "scale") ? pixman_transform_is_scale (&m) :
			       !strcmp (kind, "int_translate") ? pixman_transform_is_int_translate (&m) :
			       pixman_transform_is_inverse (&m, &m2)))
	    {
		vt_begin ("Call"); vt_str ("fn", fn); vt_str ("kind", kind);
		log_mat ("m", &m); log_mat ("m2", &m2); vt_bool ("ret", ret);
		vt_end ();
	    }
	    else
		log_crash (crash_sig);
	}
	else if (!strcmp (fn, "f_multiply"))
	{
	    pixman_f_transform_t a, b, a0, b0, d;
	    pixman_f_transform_t *dst = &d;
	    int alias;
	    rd_fmat (&a); rd_fmat (&b); alias = (int) rd_int ();
	    if (bad_script) return 3;
	    a0 = a; b0 = b;
	    fill_fmat (&d);
	    if (alias == 1) dst = &a; else if (alias == 2) dst = &b;
	    if (GUARDED (pixman_f_transform_multiply (dst, &a, &b)))
	    {
		vt_begin ("Call"); vt_str ("fn", fn);
		log_dbls ("f", &a0.m[0][0], 9); log_dbls ("f2", &b0.m[0][0], 9); log_dbls ("fo", &dst->m[0][0], 9);
		vt_end ();
	    }
	    else
		log_crash (crash_sig);
	}
	else if (!strcmp (fn, "f_point") || !strcmp (fn, "f_point3d"))
	{
	    pixman_f_transform_t a;
	    pixman_f_vector_t v, o;
	    volatile int ret = 1;
	    int is3d = fn[7] == '3';
	    int i;
	    rd_fmat (&a);
	    for (i = 0; i < 3; i++) v.v[i] = rd_dbl ();
	    if (bad_script) return 3;
	    o = v;
	    if (GUARDED (is3d ? (pixman_f_transform_point_3d (&a, &o), 0) : (ret = pixman_f_transform_point (&a, &o))))
	    {
		vt_begin ("Call"); vt_str ("fn", fn);
		log_dbls ("f", &a.m[0][0], 9); log_dbls ("fv", v.v, 3); vt_bool ("ret", ret); log_dbls ("fo", o.v, 3);
		vt_end ();
	    }
	    else
		log_crash (crash_sig);
	}
	else if (!strcmp (fn, "f_xform"))
	{
	    pixman_f_transform_t f, r, f0, r0;
	    char *kind = next_tok ();
	    volatile int ret = 0;
	    int hf, hr;
	    double p, q;
	    hf = (int) rd_int (); hr = (int) rd_int (); rd_fmat (&f); rd_fmat (&r); p = rd_dbl (); q = rd_dbl ();
	    if (bad_script || !kind) return 3;
	    f0 = f; r0 = r;
	    if (GUARDED (ret = kind[0] == 's' ? pixman_f_transform_scale (hf ? &f : NULL, hr ? &r : NULL, p, q) :
			       kind[0] == 'r' ? pixman_f_transform_rotate (hf ? &f : NULL, hr ? &r : NULL, p, q) :
						pixman_f_transform_translate (hf ? &f : NULL, hr ? &r : NULL, p, q)))
	    {
		vt_begin ("Call"); vt_str ("fn", fn); vt_str ("kind", kind);
		vt_bool ("hf", hf); vt_bool ("hr", hr); log_dbl1 ("p", p); log_dbl1 ("q", q);
		log_dbls ("fin", &f0.m[0][0], 9); log_dbls ("rin", &r0.m[0][0], 9); vt_bool ("ret", ret);
		log_dbls ("fout", &f.m[0][0], 9); log_dbls ("rout", &r.m[0][0], 9);
		vt_end ();
	    }
	    else
		log_crash (crash_sig);
	}
	else if (!strcmp (fn, "f_init"))
	{
	    pixman_f_transform_t o;
	    char *kind = next_tok ();
	    double p, q;
	    p = rd_dbl (); q = rd_dbl ();
	    if (bad_script || !kind) return 3;
	    fill_fmat (&o);
	    if (GUARDED ((!strcmp (kind, "identity") ? pixman_f_transform_init_identity (&o) :
			  !strcmp (kind, "scale") ? pixman_f_transform_init_scale (&o, p, q) :
			  !strcmp (kind, "rotate") ? pixman_f_transform_init_rotate (&o, p, q) :
			  pixman_f_transform_init_translate (&o, p, q), 0)))
	    {
		vt_begin ("Call"); vt_str ("fn", fn); vt_str ("kind", kind);
		log_dbl1 ("p", p); log_dbl1 ("q", q); log_dbls ("o", &o.m[0][0], 9);
		vt_end ();
	    }
	    else
		log_crash (crash_sig);
	}
	else if (!strcmp (fn, "f_invert"))
	{
	    pixman_f_transform_t a, a0, d;
	    pixman_f_transform_t *dst = &d;
	    volatile int ret = 0;
	    int alias;
	    rd_fmat (&a); alias = (int) rd_int ();
	    if (bad_script) return 3;
	    a0 = a;
	    fill_fmat (&d);
	    if (alias) dst = &a;
	    if (GUARDED (ret = pixman_f_transform_invert (dst, &a)))
	    {
		vt_begin ("Call"); vt_str ("fn", fn);
		log_dbls ("f", &a0.m[0][0], 9); vt_bool ("ret", ret); log_dbls ("fo", &dst->m[0][0], 9);
		vt_end ();
	    }
	    else
		log_crash (crash_sig);
	}
	else if (!strcmp (fn, "f_bounds"))
	{
	    pixman_f_transform_t a;
	    pixman_box16_t b, b0;
	    volatile int ret = 0;
	    rd_fmat (&a); rd_box (&b);
	    if (bad_script) return 3;
	    b0 = b;
	    if (GUARDED (ret = pixman_f_transform_bounds (&a, &b)))
	    {
		vt_begin ("Call"); vt_str ("fn", fn);
		log_dbls ("f", &a.m[0][0], 9); log_box ("bin", &b0); vt_bool ("ret", ret); log_box ("bout", &b);
		vt_end ();
	    }
	    else
		log_crash (crash_sig);
	}
	else
	{
	    fprintf (stdout, "drv_matrix: unknown call '%s' at line %d\n", fn, cur_line);
	    return 3;
	}
    }
    vt_close ();
    return 0;
}
