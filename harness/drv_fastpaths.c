/* Lists the fast path tables of the implementation chain of the library built from /repo, so that
 * checks/pixel.py can aim compositing cases (C01) at every specialised routine as well as at the
 * general path.  Input generation only: nothing is judged from this list, and when this file no
 * longer compiles against pixman's internal header the check falls back to a built-in list.
 *
 * output: level op src_format src_solid src_id src_scale_nearest mask_format mask_solid mask_ca dest_format
 */
#include <stdio.h>
#ifdef HAVE_CONFIG_H
#include <config.h>
#endif
#include "pixman-private.h"

pixman_implementation_t *_pixman_internal_only_get_implementation (void);

int
main (int argc, char **argv)
{
    pixman_implementation_t *imp = _pixman_internal_only_get_implementation ();
    int level = 0;
    if (argc > 1 && argv[1][0] != '-')
	return 3;
    for (; imp; imp = imp->fallback, level++)
    {
	const pixman_fast_path_t *fp = imp->fast_paths;
	for (; fp && fp->op != PIXMAN_OP_NONE; fp++)
	{
	    int nearest = (fp->src_flags & FAST_PATH_SCALE_TRANSFORM) && (fp->src_flags & FAST_PATH_NEAREST_FILTER);
	    printf ("%d %d %u %d %d %d %u %d %d %u\n", level, (int)fp->op,
		    (unsigned)fp->src_format, fp->src_format == PIXMAN_solid,
		    !!(fp->src_flags & FAST_PATH_ID_TRANSFORM), nearest,
		    (unsigned)fp->mask_format, fp->mask_format == PIXMAN_solid,
		    !!(fp->mask_flags & FAST_PATH_COMPONENT_ALPHA),
		    (unsigned)fp->dest_format);
	}
    }
    return 0;
}
