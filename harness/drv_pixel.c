/* Conformance driver for pixel formats (C10): executes OP_SRC composites between an image of a
 * format F and an image of a canonical format C (a8r8g8b8 or rgba_float), in both directions,
 * through several presentations (scanline reader, single-pixel reader, 1x1 repeating source,
 * directly addressed or through read/write accessor callbacks), and logs the raw buffers before
 * and after.  It never compares anything: the verdict is TLC's (spec/trace/FormatsTrace.tla).
 *
 *   drv_pixel --formats                 list the format codes of the header the library was built from
 *   drv_pixel script trace              execute a script (see checks/pixel.py for the line format)
 */
#include "vcommon.h"
#include <pixman.h>

/* ------------------------------------------------------------------------------------------ */
#define F(n) { #n, PIXMAN_ ## n }
static const struct { const char *name; pixman_format_code_t code; } formats[] = {
    F (rgba_float), F (rgb_float),
    F (a8r8g8b8), F (x8r8g8b8), F (a8b8g8r8), F (x8b8g8r8), F (b8g8r8a8), F (b8g8r8x8), F (r8g8b8a8), F (r8g8b8x8),
    F (x14r6g6b6), F (x2r10g10b10), F (a2r10g10b10), F (x2b10g10r10), F (a2b10g10r10), F (a8r8g8b8_sRGB),
    F (r8g8b8), F (b8g8r8), F (r5g6b5), F (b5g6r5), F (a1r5g5b5), F (x1r5g5b5), F (a1b5g5r5), F (x1b5g5r5),
    F (a4r4g4b4), F (x4r4g4b4), F (a4b4g4r4), F (x4b4g4r4), F (a8), F (r3g3b2), F (b2g3r3), F (a2r2g2b2), F (a2b2g2r2),
    F (c8), F (g8), F (x4a4), F (x4c4), F (x4g4), F (a4), F (r1g2b1), F (b1g2r1), F (a1r1g1b1), F (a1b1g1r1),
    F (c4), F (g4), F (a1), F (g1), F (yuy2), F (yv12)
};
#undef F

/* ------------------------------------------------------------------------------------------ */
/* accessor callbacks: plain memory accesses of the sizes pixman asks for */
static uint32_t
acc_read (const void *src, int size)
{
    switch (size)
    {
    case 1: return *(const uint8_t *)src;
    case 2: return *(const uint16_t *)src;
    case 4: return *(const uint32_t *)src;
    }
    abort ();
}

static void
acc_write (void *dst, uint32_t value, int size)
{
    switch (size)
    {
    case 1: *(uint8_t *)dst = value; return;
    case 2: *(uint16_t *)dst = value; return;
    case 4: *(uint32_t *)dst = value; return;
    }
    abort ();
}

/* ------------------------------------------------------------------------------------------ */
/* The palette family of spec/Formats.tla (PalParam, SlotColour, PalEnt): a closed formula.     */
static const int pal_m[4] = { 1, 3, 5, 7 }, pal_o[4] = { 0, 5, 9, 2 }, pal_minv[4] = { 1, 171, 205, 183 };

static uint32_t rep5 (uint32_t v) { return (v << 3) | (v >> 2); }

static void
make_palette (pixman_indexed_t *p, pixman_format_code_t code, int k)
{
    int bpp = PIXMAN_FORMAT_BPP (code), N = 1 << bpp, gray = PIXMAN_FORMAT_TYPE (code) == PIXMAN_TYPE_GRAY;
    int i, key;
    memset (p, 0, sizeof *p);
    p->color = !gray;
    for (i = 0; i < N; i++)
    {
	int j = (i * pal_m[k] + pal_o[k]) % N;
	uint32_t a, r, g, b;
	if (gray)
	{
	    a = 255;
	    r = g = b = (N == 256) ? j : (N == 16) ? j * 17 : j * 255;
	}
	else
	{
	    uint32_t r5 = (N == 256) ? j / 8 : j * 2;
	    uint32_t g5 = (N == 256) ? (j % 8) * 4 + 1 : 31 - j;
	    uint32_t b5 = (j * 7) % 32;
	    a = 255 - (j % 3) * 40;
	    r = rep5 (r5); g = rep5 (g5); b = rep5 (b5);
	}
	p->rgba[i] = (a << 24) | (r << 16) | (g << 8) | b;
    }
    for (key = 0; key < 32768; key++)
    {
	int j;
	if (gray)
	    j = (N == 256) ? key / 128 : (N == 16) ? (key / 2176) % 16 : key / 16384;
	else
	    j = (N == 256) ? (key / 1024) * 8 + ((key / 32) % 32) / 4 : (key / 1024) / 2;
	j %= N;
	p->ent[key] = (((j + N - pal_o[k] % N) % N) * (pal_minv[k] % N)) % N;
    }
}

/* ------------------------------------------------------------------------------------------ */
static int
hexval (int c)
{
    if (c >= '0' && c <= '9') return c - '0';
    if (c >= 'a' && c <= 'f') return c - 'a' + 10;
    return -1;
}

/* reads a hex token into a freshly allocated, 16-byte aligned buffer ("-" = empty) */
static uint8_t *
read_hex (FILE *in, int *len)
{
    static char tok[1 << 16];
    uint8_t *b;
    int n, i;
    if (fscanf (in, "%65535s", tok) != 1) exit (3);
    if (!strcmp (tok, "-")) { *len = 0; return NULL; }
    n = (int)strlen (tok) / 2;
    if (posix_memalign ((void **)&b, 16, n + 16)) exit (3);
    for (i = 0; i < n; i++)
	b[i] = (uint8_t)(hexval (tok[2 * i]) * 16 + hexval (tok[2 * i + 1]));
    *len = n;
    return b;
}

static uint8_t *
dup_buf (const uint8_t *b, int len)
{
    uint8_t *r;
    if (posix_memalign ((void **)&r, 16, len + 16)) exit (3);
    memcpy (r, b, len);
    return r;
}

static pixman_indexed_t palette;

static pixman_image_t *
make_image (pixman_format_code_t code, int w, int h, uint8_t *bits, int stride, int pal, int acc)
{
    pixman_image_t *img = pixman_image_create_bits (code, w, h, (uint32_t *)bits, stride);
    if (!img) { fprintf (stderr, "drv_pixel: cannot create image %x %dx%d stride %d\n", code, w, h, stride); exit (3); }
    if (PIXMAN_FORMAT_TYPE (code) == PIXMAN_TYPE_COLOR || PIXMAN_FORMAT_TYPE (code) == PIXMAN_TYPE_GRAY)
    {
	make_palette (&palette, code, pal);
	pixman_image_set_indexed (img, &palette);
    }
    if (acc)
	pixman_image_set_accessors (img, acc_read, acc_write);
    return img;
}

/* one OP_SRC composite of w x 1 pixels: source pixel (sx, sy) lands on destination pixel (dx, 0).
 * pres[0]: 'g' general affine matrix + component-alpha flag (see below), 's' scanline reader (no transform), 'p' single-pixel reader (integer translation
 * transform, nearest filter: the request is shifted back by the same amount);
 * pres[1]: 'd' direct, 'a' accessors on the image of format F (fa: on the source, da: on the destination) */
static void
run_src (pixman_format_code_t scode, int sw, int sh, uint8_t *sbits, int sstride, int spal, int sacc,
	 int rep, int pixel,
	 pixman_format_code_t dcode, int dw, uint8_t *dbits, int dstride, int dpal, int dacc,
	 int sx, int sy, int dx, int w)
{
    pixman_image_t *s = make_image (scode, sw, sh, sbits, sstride, spal, sacc);
    pixman_image_t *d = make_image (dcode, dw, 1, dbits, dstride, dpal, dacc);
    int rx = sx;
    if (rep)
	pixman_image_set_repeat (s, PIXMAN_REPEAT_NORMAL);
    if (pixel == 2)
    {
	/* 'g': a general affine matrix (one unit of shear: the same pixels of a one-row image are sampled) through the
	 * fetchers for arbitrary affine transforms, with the component-alpha flag set on the image (it has no meaning for a
	 * source and must not change what is read) */
	pixman_transform_t t;
	pixman_transform_init_identity (&t);
	t.matrix[0][1] = 1;
	pixman_image_set_transform (s, &t);
	pixman_image_set_filter (s, PIXMAN_FILTER_NEAREST, NULL, 0);
	pixman_image_set_component_alpha (s, 1);
    }
    else if (pixel)
    {
	pixman_transform_t t;
	pixman_transform_init_translate (&t, pixman_int_to_fixed (3), 0);
	pixman_image_set_transform (s, &t);
	pixman_image_set_filter (s, PIXMAN_FILTER_NEAREST, NULL, 0);
	rx = sx - 3;
    }
    pixman_image_composite32 (PIXMAN_OP_SRC, s, NULL, d, rx, sy, 0, 0, dx, 0, w, 1);
    pixman_image_unref (s);
    pixman_image_unref (d);
}

static void
log_code (const char *k, pixman_format_code_t c)
{
    vt_w32 (k, (uint32_t)c);
}

int
main (int argc, char **argv)
{
    FILE *in;
    char kind[8], name[128], pres[8];
    unsigned i;
    if (argc == 2 && !strcmp (argv[1], "--formats"))
    {
	for (i = 0; i < sizeof formats / sizeof formats[0]; i++)
	    printf ("%s %u %d %d\n", formats[i].name, (unsigned)formats[i].code,
		    pixman_format_supported_source (formats[i].code),
		    pixman_format_supported_destination (formats[i].code));
	return 0;
    }
    if (argc < 3)
    {
	fprintf (stderr, "usage: drv_pixel --formats | drv_pixel script trace\n");
	return 3;
    }
    in = fopen (argv[1], "r");
    if (!in) { perror (argv[1]); return 3; }
    vt_open (argv[2]);
    while (fscanf (in, "%7s", kind) == 1)
    {
	if (kind[0] == 'R')
	{
	    if (fscanf (in, "%127s", name) != 1) return 3;
	    vt_reset (name);
	}
	else if (kind[0] == 'F')
	{
	    /* F fcode ccode pal rep simgw simgh sstride sy sx dx dimgw w SRC DST npres p.. back bdx bimgw BDST nb q.. */
	    unsigned fcode, ccode;
	    int pal, rep, simgw, simgh, sstride, sy, sx, dx, dimgw, w, slen, dlen, npres, back, bdx, bimgw, blen, nb, k;
	    uint8_t *src, *dst, *bdst, *mid0 = NULL;
	    if (fscanf (in, "%u %u %d %d %d %d %d %d %d %d %d %d", &fcode, &ccode, &pal, &rep, &simgw, &simgh, &sstride,
			&sy, &sx, &dx, &dimgw, &w) != 12) return 3;
	    src = read_hex (in, &slen);
	    dst = read_hex (in, &dlen);
	    vt_begin ("Fetch");
	    log_code ("f", fcode); log_code ("c", ccode);
	    vt_int ("pal", pal); vt_int ("rep", rep); vt_int ("simgw", simgw); vt_int ("simgh", simgh);
	    vt_int ("sstride", sstride); vt_int ("sy", sy); vt_int ("sx", sx); vt_int ("dx", dx);
	    vt_int ("dimgw", dimgw); vt_int ("w", w);
	    vt_bytes ("src", src + (size_t)sy * sstride, sstride);
	    vt_bytes ("before", dst, dlen);
	    if (fscanf (in, "%d", &npres) != 1) return 3;
	    fputs (",\"mids\":[", vt_out);
	    for (k = 0; k < npres; k++)
	    {
		uint8_t *s2 = dup_buf (src, slen), *d2 = dup_buf (dst, dlen);
		if (fscanf (in, "%7s", pres) != 1) return 3;
		run_src (fcode, simgw, simgh, s2, sstride, pal, pres[1] == 'a', rep, pres[0] == 'g' ? 2 : pres[0] == 'p',
			 ccode, dimgw, d2, dlen, 0, 0, sx, sy, dx, w);
		fprintf (vt_out, "%s{\"p\":\"%s\"", k ? "," : "", pres);
		vt_bytes ("after", d2, dlen);
		vt_bytes ("srcafter", s2 + (size_t)sy * sstride, sstride);
		fputs ("}", vt_out);
		if (k == 0) mid0 = d2; else free (d2);
		free (s2);
	    }
	    fputs ("]", vt_out);
	    if (fscanf (in, "%d %d %d", &back, &bdx, &bimgw) != 3) return 3;
	    bdst = read_hex (in, &blen);
	    if (fscanf (in, "%d", &nb) != 1) return 3;
	    vt_int ("back", back); vt_int ("bdx", bdx); vt_int ("bimgw", bimgw);
	    vt_bytes ("bbefore", bdst, blen);
	    fputs (",\"backs\":[", vt_out);
	    for (k = 0; k < nb; k++)
	    {
		uint8_t *s2 = dup_buf (mid0, dlen), *d2 = dup_buf (bdst, blen);
		if (fscanf (in, "%7s", pres) != 1) return 3;
		run_src (ccode, dimgw, 1, s2, dlen, 0, 0, 0, 0,
			 fcode, bimgw, d2, blen, pal, pres[1] == 'a', dx, 0, bdx, w);
		fprintf (vt_out, "%s{\"p\":\"%s\"", k ? "," : "", pres);
		vt_bytes ("after", d2, blen);
		fputs ("}", vt_out);
		free (s2); free (d2);
	    }
	    fputs ("]", vt_out);
	    vt_end ();
	    free (src); free (dst); free (bdst); free (mid0);
	}
	else if (kind[0] == 'S')
	{
	    /* S ccode fcode pal simgw sx dx dimgw w SRC DST npres q.. */
	    unsigned fcode, ccode;
	    int pal, simgw, sx, dx, dimgw, w, slen, dlen, npres, k;
	    uint8_t *src, *dst;
	    if (fscanf (in, "%u %u %d %d %d %d %d %d", &ccode, &fcode, &pal, &simgw, &sx, &dx, &dimgw, &w) != 8) return 3;
	    src = read_hex (in, &slen);
	    dst = read_hex (in, &dlen);
	    vt_begin ("Store");
	    log_code ("c", ccode); log_code ("f", fcode);
	    vt_int ("pal", pal); vt_int ("simgw", simgw); vt_int ("sx", sx); vt_int ("dx", dx);
	    vt_int ("dimgw", dimgw); vt_int ("w", w);
	    vt_bytes ("src", src, slen);
	    vt_bytes ("before", dst, dlen);
	    if (fscanf (in, "%d", &npres) != 1) return 3;
	    fputs (",\"outs\":[", vt_out);
	    for (k = 0; k < npres; k++)
	    {
		uint8_t *s2 = dup_buf (src, slen), *d2 = dup_buf (dst, dlen);
		if (fscanf (in, "%7s", pres) != 1) return 3;
		run_src (ccode, simgw, 1, s2, slen, 0, 0, 0, pres[0] == 'p',
			 fcode, dimgw, d2, dlen, pal, pres[1] == 'a', sx, 0, dx, w);
		fprintf (vt_out, "%s{\"p\":\"%s\"", k ? "," : "", pres);
		vt_bytes ("after", d2, dlen);
		fputs ("}", vt_out);
		free (s2); free (d2);
	    }
	    fputs ("]", vt_out);
	    vt_end ();
	    free (src); free (dst);
	}
	else
	{
	    fprintf (stderr, "drv_pixel: bad script line kind %s\n", kind);
	    return 3;
	}
    }
    vt_close ();
    return 0;
}
