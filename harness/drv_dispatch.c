/* C02 / C16 / C09: executes a script of drawing requests under whatever implementation chain the
 * environment (PIXMAN_DISABLE) selects, optionally from several threads.  Logs
 *   Tables   the delegation chain and every fast path table of the running library (once)
 *   Lookup   (hook H3) one per _pixman_implementation_lookup_composite: cache address, hit index, key, result
 *   Dispatch (hook H2) op_in/op_out and flags per composite
 *   Res      per request: return value and the destination buffer (undefined bits of the format cleared)
 * It never judges.
 *
 * usage: drv_dispatch script trace [nthreads]
 *   with nthreads > 0 request i is executed by thread (i mod nthreads); each thread writes its own
 *   trace file <trace>.t<k>; the main trace holds Tables, Spawn/Join.
 */
#include <config.h>
#include "pixman-private.h"      /* defines PIXMAN_USE_INTERNAL_API and includes pixman.h */
#include "vcommon.h"
#include <pthread.h>

#define MAXREQ 60000
#define MAXF 40

typedef struct
{
    char kind;
    long long f[MAXF];
    int nf;
} req_t;

static req_t reqs[MAXREQ];
static int nreqs;

/* ---- per-thread trace sinks ---- */
static __thread FILE *tout;
static __thread int tid;
static __thread int seqno;

static void
flags_list (FILE *o, const char *k, uint32_t fl)
{
    int i, first = 1;
    fprintf (o, ",\"%s\":[", k);
    for (i = 0; i < 32; i++)
	if (fl & (1u << i))
	{
	    fprintf (o, first ? "%d" : ",%d", i);
	    first = 0;
	}
    fputc (']', o);
}

#define W2(x) (unsigned)((uint32_t)(x) >> 16), (unsigned)((uint32_t)(x) & 0xffff)
#define P3(p) (unsigned)(((uintptr_t)(p) >> 32) & 0xffff), (unsigned)(((uintptr_t)(p) >> 16) & 0xffff), (unsigned)((uintptr_t)(p) & 0xffff)

/* function pointers and implementations are reported as small ids assigned in the Tables dump */
#define MAXFUNCS 4096
static const void *func_ids[MAXFUNCS];
static int n_funcs;
static const void *imp_ids[16];
static int n_imps;

static int
func_id (const void *f)
{
    int i;
    for (i = 0; i < n_funcs; i++)
	if (func_ids[i] == f)
	    return i + 1;
    return 0;
}

static int
imp_id (const void *p)
{
    int i;
    for (i = 0; i < n_imps; i++)
	if (imp_ids[i] == p)
	    return i + 1;
    return 0;
}

/* sources shared by all threads: created and used once by the main thread before any worker starts */
#define NSHARED 5
static pixman_image_t *shared_img[NSHARED + 1];

static void
sink (const char *event, const void *data)
{
    FILE *o = tout ? tout : vt_out;
    if (!o)
	return;
    if (!strcmp (event, "Ref") || !strcmp (event, "Unref"))
    {
	/* reference-count changes are reported for the shared images only (each is a write to the image) */
	const pixman_verif_ref_t *e = data;
	int i;
	for (i = 1; i <= NSHARED; i++)
	    if (shared_img[i] && e->image == (const void *)shared_img[i])
		fprintf (o, "{\"e\":\"RefShared\",\"tid\":%d,\"seq\":%d,\"img\":[%u,%u,%u],\"what\":\"%s\"}\n",
			 tid, seqno++, P3 (e->image), event);
	return;
    }
    if (!strcmp (event, "Lookup"))
    {
	const pixman_verif_lookup_t *e = data;
	fprintf (o, "{\"e\":\"Lookup\",\"tid\":%d,\"seq\":%d,\"cache\":[%u,%u,%u],\"hit\":%d,\"imp\":%d,\"func\":%d,\"op\":%d,"
		 "\"sf\":[%u,%u],\"mf\":[%u,%u],\"df\":[%u,%u]",
		 tid, seqno++, P3 (e->cache), e->hit, imp_id (e->imp), func_id (e->func), e->op,
		 W2 (e->src_format), W2 (e->mask_format), W2 (e->dest_format));
	flags_list (o, "sfl", e->src_flags);
	flags_list (o, "mfl", e->mask_flags);
	flags_list (o, "dfl", e->dest_flags);
	fputs ("}\n", o);
    }
    else if (!strcmp (event, "Dispatch"))
    {
	const pixman_verif_dispatch_t *e = data;
	fprintf (o, "{\"e\":\"Dispatch\",\"tid\":%d,\"seq\":%d,\"op_in\":%d,\"op_out\":%d,\"sf\":[%u,%u],\"mf\":[%u,%u],\"df\":[%u,%u],"
		 "\"ext\":[%d,%d,%d,%d],\"imp\":%d,\"func\":%d",
		 tid, seqno++, e->op_in, e->op_out, W2 (e->src_format), W2 (e->mask_format), W2 (e->dest_format),
		 e->x1, e->y1, e->x2, e->y2, imp_id (e->imp), func_id (e->func));
	flags_list (o, "sfl", e->src_flags);
	flags_list (o, "mfl", e->mask_flags);
	flags_list (o, "dfl", e->dest_flags);
	fputs ("}\n", o);
    }
    else if (!strcmp (event, "Validate"))
    {
	const pixman_verif_validate_t *e = data;
	fprintf (o, "{\"e\":\"Validate\",\"tid\":%d,\"seq\":%d,\"img\":[%u,%u,%u],\"dirty\":%s}\n",
		 tid, seqno++, P3 (e->image), e->was_dirty ? "true" : "false");
    }
}

static void
dump_tables (void)
{
    pixman_implementation_t *top = _pixman_internal_only_get_implementation (), *imp;
    const char *dis = getenv ("PIXMAN_DISABLE");
    int first_imp = 1;
    /* "special": the pseudo format codes of pixman-private.h by name, so that the request generator can realise every
     * kind of table entry without a hand copy of the codes */
    fprintf (vt_out, "{\"e\":\"Tables\",\"disable\":\"%s\",\"any_op\":%d,\"any_fmt\":[%u,%u],"
	     "\"special\":{\"null\":[%u,%u],\"solid\":[%u,%u],\"pixbuf\":[%u,%u],\"rpixbuf\":[%u,%u],\"unknown\":[%u,%u],\"any\":[%u,%u]},"
	     "\"imps\":[",
	     dis ? dis : "", (int)PIXMAN_OP_any, W2 (PIXMAN_any),
	     W2 (PIXMAN_null), W2 (PIXMAN_solid), W2 (PIXMAN_pixbuf), W2 (PIXMAN_rpixbuf), W2 (PIXMAN_unknown), W2 (PIXMAN_any));
    for (imp = top; imp; imp = imp->fallback)
    {
	const pixman_fast_path_t *fp;
	int first = 1;
	imp_ids[n_imps++] = imp;
	fprintf (vt_out, "%s[", first_imp ? "" : ",");
	first_imp = 0;
	for (fp = imp->fast_paths; fp->op != PIXMAN_OP_NONE; fp++)
	{
	    int id = func_id ((const void *)fp->func);
	    if (!id && n_funcs < MAXFUNCS)
	    {
		func_ids[n_funcs++] = (const void *)fp->func;
		id = n_funcs;
	    }
	    fprintf (vt_out, "%s{\"op\":%d,\"sf\":[%u,%u],\"mf\":[%u,%u],\"df\":[%u,%u],\"func\":%d",
		     first ? "" : ",", (int)fp->op, W2 (fp->src_format), W2 (fp->mask_format), W2 (fp->dest_format), id);
	    flags_list (vt_out, "sfl", fp->src_flags);
	    flags_list (vt_out, "mfl", fp->mask_flags);
	    flags_list (vt_out, "dfl", fp->dest_flags);
	    fputc ('}', vt_out);
	    first = 0;
	}
	fputc (']', vt_out);
    }
    /* "comb" / "comb_ca": per implementation, the operators for which it has a combiner of its own (8-bit pipeline;
     * unified and component alpha) - the other table along which implementations differ */
    {
	int ca, op;
	for (ca = 0; ca < 2; ca++)
	{
	    fprintf (vt_out, "],\"%s\":[", ca ? "comb_ca" : "comb");
	    for (imp = top, first_imp = 1; imp; imp = imp->fallback, first_imp = 0)
	    {
		int first = 1;
		fprintf (vt_out, "%s[", first_imp ? "" : ",");
		for (op = 0; op < PIXMAN_N_OPERATORS; op++)
		    if (ca ? imp->combine_32_ca[op] != NULL : imp->combine_32[op] != NULL)
		    {
			fprintf (vt_out, first ? "%d" : ",%d", op);
			first = 0;
		    }
		fputc (']', vt_out);
	    }
	}
    }
    fprintf (vt_out, "],\"blt\":[");
    for (imp = top, first_imp = 1; imp; imp = imp->fallback, first_imp = 0)
	fprintf (vt_out, "%s%d", first_imp ? "" : ",", imp->blt ? 1 : 0);
    fprintf (vt_out, "]}\n");
    fflush (vt_out);
}

/* ---- image construction from request fields ---- */
static uint32_t
undefined_mask (pixman_format_code_t f)
{
    /* bits of a pixel that carry a channel */
    int bpp = PIXMAN_FORMAT_BPP (f), a = PIXMAN_FORMAT_A (f), r = PIXMAN_FORMAT_R (f), g = PIXMAN_FORMAT_G (f), b = PIXMAN_FORMAT_B (f);
    int used = a + r + g + b, type = PIXMAN_FORMAT_TYPE (f);
    uint32_t all = bpp >= 32 ? 0xffffffffu : ((1u << bpp) - 1);
    uint32_t m;
    if (used >= bpp || bpp > 32)
	return all;
    /* channels are packed at the low end except for BGRA/RGBA types, where they are at the high end */
    m = used >= 32 ? 0xffffffffu : ((1u << used) - 1);
    if (type == PIXMAN_TYPE_BGRA || type == PIXMAN_TYPE_RGBA)
	m <<= (bpp - used);
    return m;
}

typedef struct
{
    pixman_image_t *img;
    uint32_t *bits;
    int w, h, stride;      /* stride in bytes */
    pixman_format_code_t fmt;
} img_t;

/* Run-structured alpha levels laid over the (random) contents of an image: request field `pat` = block length L.
 * The row is cut into blocks of L pixels starting at a random phase; every block is one of: a constant level,
 * a per-pixel mix of two neighbouring levels, two halves of neighbouring levels, a ramp running into (or out of)
 * the extreme, or left random.  Levels come from the neighbourhood of fully transparent (0, 1, 2) and / or of fully
 * opaque (255, 254, 253): the values at which special-cased routines switch between "skip", "copy" and "blend",
 * per pixel or per vector of 2 / 4 / 8 / 16 pixels.  pfmt says where the alpha field is (for a source that is
 * also read through a mask image over the same bits it is the format of that mask); formats without an alpha
 * field get all-zero / all-one pixels for the levels 0 / 255. */
/* band selector 4 of `pat`: value runs.  Every row is cut into runs whose lengths are drawn from 1, 3, 4, 5, 8, 16 (so
 * that runs start at every alignment within a vector and are shorter than, equal to and longer than one vector of 4 /
 * 8 / 16 pixels); every run is one value class: fully transparent (whole pixel zero, or alpha zero with colour),
 * fully opaque, the neighbours 1 / 254, one partial level, or left random.  These are the inputs on which routines
 * with a "this block is transparent: skip it" / "opaque: copy it" shortcut take the shortcut for some blocks and the
 * ordinary path for the pixels that follow in the same row. */
static void
overlay_value_runs (img_t *im, pixman_format_code_t pfmt, vrng_t *rng)
{
    static const int lens[] = { 1, 3, 4, 5, 8, 16, 4, 8 };
    /* classes: 0 zero pixel, 1 alpha zero, 2 opaque, 3 level 1, 4 level 254, 5 partial, 6 random */
    static const int classes[] = { 0, 0, 0, 1, 2, 2, 2, 3, 4, 5, 5, 6 };
    int bpp = PIXMAN_FORMAT_BPP (pfmt), A = PIXMAN_FORMAT_A (pfmt), type = PIXMAN_FORMAT_TYPE (pfmt);
    int rgb = PIXMAN_FORMAT_R (pfmt) + PIXMAN_FORMAT_G (pfmt) + PIXMAN_FORMAT_B (pfmt);
    int ashift = (type == PIXMAN_TYPE_BGRA || type == PIXMAN_TYPE_RGBA) ? bpp - (A + rgb) : rgb;
    int x, y;
    for (y = 0; y < im->h; y++)
    {
	int left = 0, cls = 6, lev = 0;
	for (x = 0; x < im->w; x++)
	{
	    uint8_t *p = (uint8_t *)im->bits + y * im->stride + x * (bpp / 8);
	    uint32_t px = 0, all = bpp == 32 ? 0xffffffffu : ((1u << bpp) - 1);
	    if (left == 0)
	    {
		left = VRNG_PICK (rng, lens);
		cls = VRNG_PICK (rng, classes);
		lev = cls <= 1 ? 0 : cls == 2 ? 255 : cls == 3 ? 1 : cls == 4 ? 254 : 2 + (int)vrng_below (rng, 252);
	    }
	    left--;
	    if (cls == 6)
		continue;
	    memcpy (&px, p, bpp / 8);
	    if (cls == 0)
		px = 0;
	    else if (A > 0)
	    {
		uint32_t am = ((1u << A) - 1) << ashift;
		px = (px & ~am) | (((uint32_t)lev >> (8 - A)) << ashift);
	    }
	    else if (lev == 0)
		px = 0;
	    else if (lev == 255)
		px = all;
	    memcpy (p, &px, bpp / 8);
	}
    }
}

static void
overlay_runs (img_t *im, pixman_format_code_t pfmt, int pat, vrng_t *rng)
{
    int L = pat & 0xff, band_sel = pat >> 8;     /* band_sel 0: by the seed; 1 transparent, 2 opaque, 3 both; 4 value runs */
    static const int low[] = { 0, 0, 1, 1, 1, 2 }, high[] = { 255, 255, 254, 254, 254, 253 };
    int bpp = PIXMAN_FORMAT_BPP (pfmt), A = PIXMAN_FORMAT_A (pfmt), type = PIXMAN_FORMAT_TYPE (pfmt);
    int rgb = PIXMAN_FORMAT_R (pfmt) + PIXMAN_FORMAT_G (pfmt) + PIXMAN_FORMAT_B (pfmt);
    int ashift = (type == PIXMAN_TYPE_BGRA || type == PIXMAN_TYPE_RGBA) ? bpp - (A + rgb) : rgb;
    int band, phase, x, y;
    if (L <= 0 || !(bpp == 8 || bpp == 16 || bpp == 32) || A > 8)
	return;
    if (band_sel == 4)
    {
	overlay_value_runs (im, pfmt, rng);
	return;
    }
    band = (int)vrng_below (rng, 3);       /* 0 around transparent, 1 around opaque, 2 both */
    if (band_sel >= 1 && band_sel <= 3)
	band = band_sel - 1;
    phase = (int)vrng_below (rng, L);
    for (y = 0; y < im->h; y++)
    {
	int kind = 7, v = 0, start = 0;
	for (x = 0; x < im->w; x++)
	{
	    uint8_t *p = (uint8_t *)im->bits + y * im->stride + x * (bpp / 8);
	    uint32_t px = 0, all = bpp == 32 ? 0xffffffffu : ((1u << bpp) - 1);
	    int i, lev;
	    if (x == 0 || (x + phase) % L == 0)
	    {
		int hi = band == 1 || (band == 2 && vrng_below (rng, 2));
		kind = (int)vrng_below (rng, 8);
		v = hi ? VRNG_PICK (rng, high) : VRNG_PICK (rng, low);
		if (band == 2 && vrng_below (rng, 6) == 0)
		    v = 128;
		start = x;
	    }
	    i = x - start;
	    switch (kind)
	    {
	    case 0: case 1: case 2: lev = v; break;
	    case 3: case 4: lev = vrng_below (rng, 2) ? v : (v ^ 1); break;
	    case 5: lev = (i < L / 2) ? v : (v ^ 1); break;
	    case 6: /* ramp into / out of the extreme */
		lev = v >= 128 ? 255 - ((v & 1) ? (L - 1 - i) : i) : ((v & 1) ? (L - 1 - i) : i);
		if (lev < 0) lev = 0;
		if (lev > 255) lev = 255;
		break;
	    default: continue;
	    }
	    memcpy (&px, p, bpp / 8);
	    if (A > 0)
	    {
		uint32_t am = ((1u << A) - 1) << ashift;
		px = (px & ~am) | (((uint32_t)lev >> (8 - A)) << ashift);
	    }
	    else if (lev == 0)
		px = 0;
	    else if (lev == 255)
		px = all;
	    memcpy (p, &px, bpp / 8);
	}
    }
}

static void
make_bits_pat (img_t *im, pixman_format_code_t fmt, int w, int h, int pad_words, vrng_t *rng, int opaque,
	       int pat, pixman_format_code_t pfmt);

static void
make_bits (img_t *im, pixman_format_code_t fmt, int w, int h, int pad_words, vrng_t *rng, int opaque)
{
    make_bits_pat (im, fmt, w, h, pad_words, rng, opaque, 0, fmt);
}

static void
make_bits_pat (img_t *im, pixman_format_code_t fmt, int w, int h, int pad_words, vrng_t *rng, int opaque,
	       int pat, pixman_format_code_t pfmt)
{
    int bpp = PIXMAN_FORMAT_BPP (fmt);
    int stride = ((w * bpp + 31) / 32 + pad_words) * 4;
    int i, n = stride * h / 4;
    im->bits = malloc (n * 4 + 4);
    for (i = 0; i < n; i++)
    {
	uint32_t v = (uint32_t)vrng_next (rng);
	/* value classes that matter to special-cased pixels: zero, all ones, opaque, alpha 0 with colour
	 * (a non-premultiplied source), alpha 1 / 254, and plain random words */
	switch (vrng_below (rng, 10))
	{
	case 0: v = 0; break;
	case 1: v = 0xffffffff; break;
	case 2: v |= 0xff000000; break;
	case 3: v &= 0x00ffffff; break;
	case 4: v = (v & 0x00ffffff) | 0x01000000; break;
	case 5: v = (v & 0x00ffffff) | 0xfe000000; break;
	case 6: v &= 0xff000000; break;
	default: break;
	}
	if (opaque)
	    v |= 0xff000000;
	im->bits[i] = v;
    }
    im->w = w; im->h = h; im->stride = stride; im->fmt = fmt;
    if (pat > 0 && !opaque)
	overlay_runs (im, pfmt, pat, rng);
    im->img = pixman_image_create_bits (fmt, w, h, im->bits, stride);
}

/* a gradient (extended format code PIXMAN_unknown) over roughly w x h pixels: linear, radial or conical by the seed */
static pixman_image_t *
make_gradient (int w, int h, vrng_t *rng, int opaque)
{
    pixman_gradient_stop_t stops[4];
    int n = 2 + (int)vrng_below (rng, 3), i;
    pixman_point_fixed_t p1, p2;
    for (i = 0; i < n; i++)
    {
	stops[i].x = i == n - 1 ? 0x10000 : (pixman_fixed_t)(i * 0x10000 / (n - 1));
	stops[i].color.alpha = opaque ? 0xffff : (uint16_t)vrng_next (rng);
	stops[i].color.red = (uint16_t)vrng_next (rng) % (stops[i].color.alpha + 1);
	stops[i].color.green = (uint16_t)vrng_next (rng) % (stops[i].color.alpha + 1);
	stops[i].color.blue = (uint16_t)vrng_next (rng) % (stops[i].color.alpha + 1);
    }
    p1.x = pixman_int_to_fixed ((int)vrng_below (rng, w + 1)); p1.y = pixman_int_to_fixed ((int)vrng_below (rng, h + 1));
    p2.x = pixman_int_to_fixed ((int)vrng_below (rng, w + 1)) + 0x8000; p2.y = pixman_int_to_fixed ((int)vrng_below (rng, h + 1)) + 0x4000;
    switch (vrng_below (rng, 3))
    {
    case 0: return pixman_image_create_linear_gradient (&p1, &p2, stops, n);
    case 1: return pixman_image_create_radial_gradient (&p1, &p2, pixman_int_to_fixed (1), pixman_int_to_fixed (w / 2 + 2), stops, n);
    default: return pixman_image_create_conical_gradient (&p1, pixman_int_to_fixed ((int)vrng_below (rng, 360)), stops, n);
    }
}

static void
log_buffer (FILE *o, const img_t *d)
{
    /* destination buffer with the format's undefined bits cleared (inside and outside the affected area alike) */
    int bpp = PIXMAN_FORMAT_BPP (d->fmt);
    uint32_t um = undefined_mask (d->fmt);
    int x, y, i, n = d->stride * d->h;
    uint8_t *copy = malloc (n);
    memcpy (copy, d->bits, n);
    if (bpp == 32 || bpp == 16 || bpp == 8)
	for (y = 0; y < d->h; y++)
	    for (x = 0; x < d->w; x++)
	    {
		uint8_t *p = copy + y * d->stride + x * (bpp / 8);
		if (bpp == 32) { uint32_t v; memcpy (&v, p, 4); v &= um; memcpy (p, &v, 4); }
		else if (bpp == 16) { uint16_t v; memcpy (&v, p, 2); v &= (uint16_t)um; memcpy (p, &v, 2); }
		else *p &= (uint8_t)um;
	    }
    fputs (",\"bytes\":[", o);
    for (i = 0; i < n; i++)
	fprintf (o, i ? ",%d" : "%d", copy[i]);
    fputs ("]", o);
    free (copy);
}

static uint32_t shared_bits[16 * 8];
static uint32_t shared_bits4[32 * 8], shared_bits5[32 * 8];

static void
make_shared (int first_use)
{
    vrng_t rng;
    pixman_transform_t tr;
    pixman_color_t c = { 0x8000, 0x4000, 0x2000, 0xc000 };
    pixman_gradient_stop_t stops[2] = { { 0, { 0xffff, 0, 0, 0xffff } }, { 0x10000, { 0, 0, 0xffff, 0x8000 } } };
    pixman_point_fixed_t p1 = { 0, 0 }, p2 = { pixman_int_to_fixed (20), pixman_int_to_fixed (5) };
    int i;
    vrng_seed (&rng, 4242);
    for (i = 0; i < 16 * 8; i++)
	shared_bits[i] = (uint32_t)vrng_next (&rng);
    shared_img[1] = pixman_image_create_bits (PIXMAN_a8r8g8b8, 16, 8, shared_bits, 64);
    pixman_transform_init_scale (&tr, pixman_double_to_fixed (0.7), pixman_double_to_fixed (1.3));
    pixman_image_set_transform (shared_img[1], &tr);
    pixman_image_set_filter (shared_img[1], PIXMAN_FILTER_BILINEAR, NULL, 0);
    pixman_image_set_repeat (shared_img[1], PIXMAN_REPEAT_PAD);
    shared_img[2] = pixman_image_create_linear_gradient (&p1, &p2, stops, 2);
    pixman_image_set_repeat (shared_img[2], PIXMAN_REPEAT_REFLECT);
    shared_img[3] = pixman_image_create_solid_fill (&c);
    {
	/* 4, 5: bits sources with a client clip that is enabled for sources (two boxes; one box): computing the
	 * composite region reads their clip region, translated by the request's offsets */
	pixman_region32_t clip;
	pixman_box32_t boxes[2] = { { 2, 0, 13, 5 }, { 17, 2, 30, 8 } };
	for (i = 0; i < 32 * 8; i++)
	{
	    shared_bits4[i] = (uint32_t)vrng_next (&rng);
	    shared_bits5[i] = (uint32_t)vrng_next (&rng);
	}
	shared_img[4] = pixman_image_create_bits (PIXMAN_a8r8g8b8, 32, 8, shared_bits4, 128);
	pixman_region32_init_rects (&clip, boxes, 2);
	pixman_image_set_clip_region32 (shared_img[4], &clip);
	pixman_region32_fini (&clip);
	pixman_image_set_has_client_clip (shared_img[4], 1);
	pixman_image_set_source_clipping (shared_img[4], 1);
	shared_img[5] = pixman_image_create_bits (PIXMAN_x8r8g8b8, 32, 8, shared_bits5, 128);
	pixman_region32_init_rect (&clip, 1, 1, 27, 6);
	pixman_image_set_clip_region32 (shared_img[5], &clip);
	pixman_region32_fini (&clip);
	pixman_image_set_has_client_clip (shared_img[5], 1);
	pixman_image_set_source_clipping (shared_img[5], 1);
    }
    if (first_use)
    {
	/* first use: derived state is computed here, single-threaded */
	uint32_t scratch[8 * 2];
	pixman_image_t *d = pixman_image_create_bits (PIXMAN_a8r8g8b8, 8, 2, scratch, 32);
	memset (scratch, 0, sizeof scratch);
	for (i = 1; i <= NSHARED; i++)
	    pixman_image_composite32 (PIXMAN_OP_OVER, shared_img[i], NULL, d, 0, 0, 0, 0, 0, 0, 8, 2);
	pixman_image_unref (d);
    }
    fprintf (vt_out, "{\"e\":\"Shared\",\"imgs\":[");
    for (i = 1; i <= NSHARED; i++)
	fprintf (vt_out, "%s[%u,%u,%u]", i > 1 ? "," : "", P3 (shared_img[i]));
    fprintf (vt_out, "]}\n");
    fflush (vt_out);
}

static uint32_t
plain_read (const void *p, int size)
{
    switch (size)
    {
    case 1: return *(const uint8_t *)p;
    case 2: return *(const uint16_t *)p;
    default: return *(const uint32_t *)p;
    }
}

static void
plain_write (void *p, uint32_t v, int size)
{
    switch (size)
    {
    case 1: *(uint8_t *)p = (uint8_t)v; break;
    case 2: *(uint16_t *)p = (uint16_t)v; break;
    default: *(uint32_t *)p = v; break;
    }
}

/* ---- C16: the other drawing entry points of the public API on thread-private objects (kinds L, G, R) ---- */
#include <time.h>

/* a write accessor that takes its time (a short sleep every 16th store): a call that draws many boxes through it stays
 * inside the library for milliseconds, so that calls of different threads overlap in time whatever the scheduler does */
static __thread unsigned slow_count;
static void
slow_write (void *p, uint32_t v, int size)
{
    plain_write (p, v, size);
    if ((++slow_count & 15) == 0)
    {
	struct timespec ts = { 0, 20000 };
	nanosleep (&ts, NULL);
    }
}

/* bytes of an image's buffer, undefined bits of the format cleared, comma separated (no brackets) */
static void
log_masked (FILE *o, const img_t *d, int first)
{
    int bpp = PIXMAN_FORMAT_BPP (d->fmt);
    uint32_t um = undefined_mask (d->fmt);
    int x, y, i, n = d->stride * d->h;
    uint8_t *copy = malloc (n + 4);
    memcpy (copy, d->bits, n);
    if (bpp == 32 || bpp == 16 || bpp == 8)
	for (y = 0; y < d->h; y++)
	    for (x = 0; x < d->w; x++)
	    {
		uint8_t *p = copy + y * d->stride + x * (bpp / 8);
		if (bpp == 32) { uint32_t v; memcpy (&v, p, 4); v &= um; memcpy (p, &v, 4); }
		else if (bpp == 16) { uint16_t v; memcpy (&v, p, 2); v &= (uint16_t)um; memcpy (p, &v, 2); }
		else *p &= (uint8_t)um;
	    }
    for (i = 0; i < n; i++)
	fprintf (o, (first && i == 0) ? "%d" : ",%d", copy[i]);
    free (copy);
}

static void
stripe_clip (pixman_image_t *img, int dw, int dh, int phase)
{
    pixman_region32_t clip;
    pixman_box32_t bx[64];
    int nb = 0, x;
    for (x = phase; x < dw && nb < 62; x += 7)
    {
	bx[nb].x1 = x; bx[nb].x2 = x + 5 < dw ? x + 5 : dw; bx[nb].y1 = 0; bx[nb].y2 = dh > 2 ? dh - 1 : dh;
	nb++;
    }
    pixman_region32_init_rects (&clip, bx, nb);
    pixman_image_set_clip_region32 (img, &clip);
    pixman_region32_fini (&clip);
}

static void
random_color (pixman_color_t *c, vrng_t *rng, int opaque)
{
    c->alpha = opaque ? 0xffff : (uint16_t)(0x1000 + vrng_below (rng, 0xe000));
    c->red = (uint16_t)vrng_below (rng, (uint32_t)c->alpha + 1);
    c->green = (uint16_t)vrng_below (rng, (uint32_t)c->alpha + 1);
    c->blue = (uint16_t)vrng_below (rng, (uint32_t)c->alpha + 1);
}

static void
random_traps (pixman_trapezoid_t *tr, int n, int dw, int dh, vrng_t *rng)
{
    int i;
    for (i = 0; i < n; i++)
    {
	pixman_fixed_t x0 = (pixman_fixed_t)(vrng_below (rng, dw * 65536 + 1)), x1 = (pixman_fixed_t)(vrng_below (rng, dw * 65536 + 1));
	tr[i].top = (pixman_fixed_t)vrng_below (rng, 65536 * 2);
	tr[i].bottom = tr[i].top + 1 + (pixman_fixed_t)vrng_below (rng, dh * 65536);
	tr[i].left.p1.x = x0 < x1 ? x0 : x1; tr[i].left.p1.y = tr[i].top;
	tr[i].left.p2.x = tr[i].left.p1.x + (pixman_fixed_t)vrng_below (rng, 131072) - 65536; tr[i].left.p2.y = tr[i].bottom;
	tr[i].right.p1.x = (x0 < x1 ? x1 : x0) + 1; tr[i].right.p1.y = tr[i].top;
	tr[i].right.p2.x = tr[i].right.p1.x + (pixman_fixed_t)vrng_below (rng, 131072) - 65536; tr[i].right.p2.y = tr[i].bottom;
    }
}

/* every thread has its own glyph cache; the picture of glyph (font, id) is a function of (font, id) only, so that a
 * request's result does not depend on which requests the thread executed before it */
static __thread pixman_glyph_cache_t *gcache;
#define NGLYPH_IDS 24

static const void *
get_glyph (int font, int id)
{
    void *fk = (void *)(uintptr_t)(font + 1), *gk = (void *)(uintptr_t)(id + 1);
    const void *g = pixman_glyph_cache_lookup (gcache, fk, gk);
    if (!g)
    {
	img_t gi;
	vrng_t gr;
	vrng_seed (&gr, (uint64_t)(font * 1000 + id + 77));
	make_bits (&gi, font ? PIXMAN_a8r8g8b8 : PIXMAN_a8, 3 + id % 5, 2 + id % 3, 0, &gr, 0);
	if (font)
	    pixman_image_set_component_alpha (gi.img, 1);
	g = pixman_glyph_cache_insert (gcache, fk, gk, id % 3, id % 2, gi.img);
	pixman_image_unref (gi.img);
	free (gi.bits);
    }
    return g;
}

static void
run_api_request (int idx)
{
    req_t *r = &reqs[idx];
    FILE *o = tout ? tout : vt_out;
    vrng_t rng;
    long long *f = r->f;
    int i;

    if (r->kind == 'L')
    {
	/* L: api op dfmt dw dh nbox seed amap acc opaque dclip
	 * pixman_image_fill_boxes (api 0) / pixman_image_fill_rectangles (api 1) with nbox boxes inside a private
	 * destination; amap: the destination has a (private) a8 alpha map; acc: 1 plain, 2 slow accessors on the
	 * destination; dclip: client clip of several boxes on the destination */
	int api = (int)f[0], op = (int)f[1], dw = (int)f[3], dh = (int)f[4], nb = (int)f[5], amap = (int)f[7], acc = (int)f[8];
	int opaque = (int)f[9], dclip = (int)f[10], ret;
	pixman_format_code_t dfmt = (pixman_format_code_t)f[2];
	img_t d, am;
	pixman_color_t c;
	pixman_box32_t bx[256];
	pixman_rectangle16_t rc[256];
	vrng_seed (&rng, (uint64_t)f[6]);
	memset (&am, 0, sizeof am);
	make_bits (&d, dfmt, dw, dh, (int)vrng_below (&rng, 2), &rng, 0);
	if (amap)
	{
	    make_bits (&am, PIXMAN_a8, dw, dh, 0, &rng, 0);
	    pixman_image_set_alpha_map (d.img, am.img, 0, 0);
	}
	random_color (&c, &rng, opaque);
	if (nb > 256) nb = 256;
	for (i = 0; i < nb; i++)
	{
	    int x1 = (int)vrng_below (&rng, dw), y1 = (int)vrng_below (&rng, dh);
	    int mw = dw - x1 < 9 ? dw - x1 : 9, mh = dh - y1 < 3 ? dh - y1 : 3;
	    bx[i].x1 = x1; bx[i].y1 = y1;
	    bx[i].x2 = x1 + 1 + (int)vrng_below (&rng, mw); bx[i].y2 = y1 + 1 + (int)vrng_below (&rng, mh);
	    rc[i].x = (int16_t)x1; rc[i].y = (int16_t)y1;
	    rc[i].width = (uint16_t)(bx[i].x2 - x1); rc[i].height = (uint16_t)(bx[i].y2 - y1);
	}
	if (dclip)
	    stripe_clip (d.img, dw, dh, dclip & 1);
	if (acc == 1) pixman_image_set_accessors (d.img, plain_read, plain_write);
	else if (acc == 2) pixman_image_set_accessors (d.img, plain_read, slow_write);
	if (api)
	    ret = pixman_image_fill_rectangles ((pixman_op_t)op, d.img, &c, nb, rc);
	else
	    ret = pixman_image_fill_boxes ((pixman_op_t)op, d.img, &c, nb, bx);
	fprintf (o, "{\"e\":\"Res\",\"tid\":%d,\"seq\":%d,\"req\":%d,\"kind\":\"C\",\"ret\":%s,\"bytes\":[", tid, seqno++, idx,
		 ret ? "true" : "false");
	log_masked (o, &d, 1);
	if (amap)
	    log_masked (o, &am, 0);
	fputs ("]}\n", o);
	pixman_image_unref (d.img);
	if (am.img) pixman_image_unref (am.img);
	free (d.bits); free (am.bits);
    }
    else if (r->kind == 'G')
    {
	/* G: op dfmt dw dh nglyph seed maskfmt font opaque
	 * pixman_composite_glyphs (maskfmt != 0) / pixman_composite_glyphs_no_mask with the thread's own glyph cache */
	int op = (int)f[0], dw = (int)f[2], dh = (int)f[3], n = (int)f[4], font = (int)f[7] ? 1 : 0;
	pixman_format_code_t dfmt = (pixman_format_code_t)f[1], maskfmt = (pixman_format_code_t)f[6];
	img_t d;
	pixman_color_t c;
	pixman_image_t *sol;
	pixman_glyph_t gl[64];
	vrng_seed (&rng, (uint64_t)f[5]);
	make_bits (&d, dfmt, dw, dh, 0, &rng, 0);
	random_color (&c, &rng, (int)f[8]);
	sol = pixman_image_create_solid_fill (&c);
	if (!gcache)
	    gcache = pixman_glyph_cache_create ();
	if (n > 64) n = 64;
	pixman_glyph_cache_freeze (gcache);
	for (i = 0; i < n; i++)
	{
	    gl[i].x = (int)vrng_below (&rng, dw + 4) - 2;
	    gl[i].y = (int)vrng_below (&rng, dh + 2) - 1;
	    gl[i].glyph = get_glyph (font, (int)vrng_below (&rng, NGLYPH_IDS));
	}
	if (maskfmt)
	    pixman_composite_glyphs ((pixman_op_t)op, sol, d.img, maskfmt, 0, 0, 0, 0, 0, 0, dw, dh, gcache, n, gl);
	else
	    pixman_composite_glyphs_no_mask ((pixman_op_t)op, sol, d.img, 0, 0, 0, 0, gcache, n, gl);
	pixman_glyph_cache_thaw (gcache);
	fprintf (o, "{\"e\":\"Res\",\"tid\":%d,\"seq\":%d,\"req\":%d,\"kind\":\"C\",\"ret\":true,\"bytes\":[", tid, seqno++, idx);
	log_masked (o, &d, 1);
	fputs ("]}\n", o);
	pixman_image_unref (sol);
	pixman_image_unref (d.img);
	free (d.bits);
    }
    else if (r->kind == 'R')
    {
	/* R: kind dfmt dw dh n seed op
	 * 0 pixman_rasterize_trapezoid (n calls), 1 pixman_add_traps, 2 pixman_add_triangles (alpha-only destinations),
	 * 3 pixman_composite_trapezoids with operator op and an a1 / a8 mask format (by seed), 4 pixman_composite_triangles */
	int rk = (int)f[0], dw = (int)f[2], dh = (int)f[3], n = (int)f[4], op = (int)f[6];
	pixman_format_code_t dfmt = (pixman_format_code_t)f[1];
	img_t d;
	pixman_trapezoid_t tr[32];
	pixman_triangle_t tri[32];
	pixman_trap_t tp[32];
	vrng_seed (&rng, (uint64_t)f[5]);
	make_bits (&d, dfmt, dw, dh, 0, &rng, 0);
	if (n > 32) n = 32;
	random_traps (tr, n, dw, dh, &rng);
	for (i = 0; i < n; i++)
	{
	    pixman_fixed_t l = (pixman_fixed_t)vrng_below (&rng, dw * 65536), t = (pixman_fixed_t)vrng_below (&rng, dh * 65536);
	    tri[i].p1.x = (pixman_fixed_t)vrng_below (&rng, dw * 65536); tri[i].p1.y = (pixman_fixed_t)vrng_below (&rng, dh * 65536);
	    tri[i].p2.x = (pixman_fixed_t)vrng_below (&rng, dw * 65536); tri[i].p2.y = (pixman_fixed_t)vrng_below (&rng, dh * 65536);
	    tri[i].p3.x = (pixman_fixed_t)vrng_below (&rng, dw * 65536); tri[i].p3.y = (pixman_fixed_t)vrng_below (&rng, dh * 65536);
	    tp[i].top.l = l; tp[i].top.r = l + 1 + (pixman_fixed_t)vrng_below (&rng, 6 * 65536); tp[i].top.y = t;
	    tp[i].bot.l = l + (pixman_fixed_t)vrng_below (&rng, 131072) - 65536;
	    tp[i].bot.r = tp[i].bot.l + 1 + (pixman_fixed_t)vrng_below (&rng, 6 * 65536);
	    tp[i].bot.y = t + 1 + (pixman_fixed_t)vrng_below (&rng, 3 * 65536);
	}
	if (rk == 0)
	    for (i = 0; i < n; i++)
		pixman_rasterize_trapezoid (d.img, &tr[i], (int)vrng_below (&rng, 3) - 1, 0);
	else if (rk == 1)
	    pixman_add_traps (d.img, 1, 0, n, tp);
	else if (rk == 2)
	    pixman_add_triangles (d.img, 0, 0, n, tri);
	else
	{
	    pixman_color_t c;
	    pixman_image_t *sol;
	    pixman_format_code_t mf = vrng_below (&rng, 3) ? PIXMAN_a8 : PIXMAN_a1;
	    random_color (&c, &rng, 0);
	    sol = pixman_image_create_solid_fill (&c);
	    if (rk == 3)
		pixman_composite_trapezoids ((pixman_op_t)op, sol, d.img, mf, 0, 0, 0, 0, n, tr);
	    else
		pixman_composite_triangles ((pixman_op_t)op, sol, d.img, mf, 0, 0, 0, 0, n, tri);
	    pixman_image_unref (sol);
	}
	fprintf (o, "{\"e\":\"Res\",\"tid\":%d,\"seq\":%d,\"req\":%d,\"kind\":\"C\",\"ret\":true,\"bytes\":[", tid, seqno++, idx);
	log_masked (o, &d, 1);
	fputs ("]}\n", o);
	pixman_image_unref (d.img);
	free (d.bits);
    }
}

static void
run_request (int idx)
{
    req_t *r = &reqs[idx];
    FILE *o = tout ? tout : vt_out;
    vrng_t rng;
    long long *f = r->f;

    if (r->kind == 'L' || r->kind == 'G' || r->kind == 'R')
    {
	run_api_request (idx);
	return;
    }
    if (r->kind == 'C')
    {
	/* op sfmt sw sh srep sfilt t0..t5 mfmt mw mh mrep mca dfmt dw dh sx sy mx my dx dy w h seed sopaque */
	int op = (int)f[0], k = 1;
	img_t s, m, d;
	pixman_image_t *src, *mask = NULL;
	pixman_format_code_t sfmt = (pixman_format_code_t)f[k++];
	int sw = (int)f[k++], sh = (int)f[k++], srep = (int)f[k++], sfilt = (int)f[k++];
	pixman_fixed_t t[6];
	pixman_format_code_t mfmt, dfmt;
	int mw, mh, mrep, mca, dw, dh, sx, sy, mx, my, dx, dy, w, h, sopaque, i, shared, acc, dclip, samebits, pat;
	uint64_t seed;
	for (i = 0; i < 6; i++)
	    t[i] = (pixman_fixed_t)f[k++];
	mfmt = (pixman_format_code_t)f[k++]; mw = (int)f[k++]; mh = (int)f[k++]; mrep = (int)f[k++]; mca = (int)f[k++];
	dfmt = (pixman_format_code_t)f[k++]; dw = (int)f[k++]; dh = (int)f[k++];
	sx = (int)f[k++]; sy = (int)f[k++]; mx = (int)f[k++]; my = (int)f[k++]; dx = (int)f[k++]; dy = (int)f[k++];
	w = (int)f[k++]; h = (int)f[k++]; seed = (uint64_t)f[k++]; sopaque = (int)f[k++];
	shared = (r->nf > k) ? (int)f[k++] : 0;
	acc = (r->nf > k) ? (int)f[k++] : 0;
	dclip = (r->nf > k) ? (int)f[k++] : 0;
	/* samebits: the mask is a second image (format mfmt, repeat mrep) over the SOURCE's bits - with equal origins,
	 * equal repeats and an a8r8g8b8 / a8b8g8r8 mask over an x8r8g8b8 / x8b8g8r8 source this is the request the library
	 * calls "pixbuf" / "rpixbuf" (non-premultiplied data); pat: block length of the run-structured alpha levels */
	samebits = (r->nf > k) ? (int)f[k++] : 0;
	pat = (r->nf > k) ? (int)f[k++] : 0;
	vrng_seed (&rng, seed);
	memset (&s, 0, sizeof s); memset (&m, 0, sizeof m);
	if (shared >= 1 && shared <= NSHARED && shared_img[shared])
	{
	    src = shared_img[shared];      /* used read-only: not even its reference count is touched */
	}
	else if (sfmt == 1)
	{
	    pixman_color_t c;
	    c.alpha = sopaque ? 0xffff : (uint16_t)vrng_next (&rng);
	    c.red = (uint16_t)vrng_next (&rng) % (c.alpha + 1); c.green = (uint16_t)vrng_next (&rng) % (c.alpha + 1);
	    c.blue = (uint16_t)vrng_next (&rng) % (c.alpha + 1);
	    src = pixman_image_create_solid_fill (&c);
	}
	else if (sfmt == PIXMAN_unknown)
	{
	    src = make_gradient (sw, sh, &rng, sopaque);
	    pixman_image_set_repeat (src, (pixman_repeat_t)srep);
	}
	else
	{
	    if (samebits && (!mfmt || mfmt == 1 || PIXMAN_FORMAT_BPP (mfmt) != PIXMAN_FORMAT_BPP (sfmt)))
		samebits = 0;
	    make_bits_pat (&s, sfmt, sw, sh, (int)vrng_below (&rng, 2), &rng, sopaque, pat, samebits ? mfmt : sfmt);
	    src = s.img;
	    pixman_image_set_repeat (src, (pixman_repeat_t)srep);
	    pixman_image_set_filter (src, (pixman_filter_t)sfilt, NULL, 0);
	    if (!(t[0] == 65536 && t[1] == 0 && t[2] == 0 && t[3] == 65536 && t[4] == 0 && t[5] == 0))
	    {
		pixman_transform_t tr;
		pixman_transform_init_identity (&tr);
		tr.matrix[0][0] = t[0]; tr.matrix[0][1] = t[1]; tr.matrix[1][0] = t[2]; tr.matrix[1][1] = t[3];
		tr.matrix[0][2] = t[4]; tr.matrix[1][2] = t[5];
		pixman_image_set_transform (src, &tr);
	    }
	}
	if (mfmt == 1)
	{
	    pixman_color_t c;
	    c.alpha = (uint16_t)vrng_next (&rng); c.red = (uint16_t)vrng_next (&rng);
	    c.green = (uint16_t)vrng_next (&rng); c.blue = (uint16_t)vrng_next (&rng);
	    mask = pixman_image_create_solid_fill (&c);
	}
	else if (mfmt == PIXMAN_unknown)
	{
	    mask = make_gradient (mw, mh, &rng, 0);
	    pixman_image_set_repeat (mask, (pixman_repeat_t)mrep);
	}
	else if (mfmt && samebits && s.bits)
	{
	    mask = pixman_image_create_bits (mfmt, s.w, s.h, s.bits, s.stride);
	    pixman_image_set_repeat (mask, (pixman_repeat_t)mrep);
	}
	else if (mfmt)
	{
	    make_bits_pat (&m, mfmt, mw, mh, 0, &rng, 0, pat, mfmt);
	    mask = m.img;
	    pixman_image_set_repeat (mask, (pixman_repeat_t)mrep);
	}
	if (mask && mca)
	    pixman_image_set_component_alpha (mask, 1);
	make_bits_pat (&d, dfmt, dw, dh, (int)vrng_below (&rng, 2), &rng, 0, pat, dfmt);
	/* acc: plain read/write accessors on thread-private images (1 destination, 2 mask, 4 private source) */
	if (dclip)
	{
	    /* a destination clip of several boxes (vertical stripes 3 wide every 5 columns, two bands) */
	    pixman_region32_t clip;
	    pixman_box32_t bx[40];
	    int nb = 0, x;
	    for (x = (dclip & 1); x < dw && nb < 38; x += 5)
	    {
		bx[nb].x1 = x; bx[nb].x2 = x + 3 < dw ? x + 3 : dw; bx[nb].y1 = 0; bx[nb].y2 = dh > 1 ? 1 : dh; nb++;
		if (dh > 1) { bx[nb] = bx[nb - 1]; bx[nb].x1 = x + 1 < dw ? x + 1 : x; bx[nb].x2 = x + 4 < dw ? x + 4 : dw; bx[nb].y1 = 1; bx[nb].y2 = dh; if (bx[nb].x1 < bx[nb].x2) nb++; }
	    }
	    pixman_region32_init_rects (&clip, bx, nb);
	    pixman_image_set_clip_region32 (d.img, &clip);
	    pixman_region32_fini (&clip);
	}
	if (acc & 1) pixman_image_set_accessors (d.img, plain_read, plain_write);
	if ((acc & 2) && m.img) pixman_image_set_accessors (m.img, plain_read, plain_write);
	if ((acc & 4) && s.img) pixman_image_set_accessors (s.img, plain_read, plain_write);
	pixman_image_composite32 ((pixman_op_t)op, src, mask, d.img, sx, sy, mx, my, dx, dy, w, h);
	fprintf (o, "{\"e\":\"Res\",\"tid\":%d,\"seq\":%d,\"req\":%d,\"kind\":\"C\",\"ret\":true", tid, seqno++, idx);
	log_buffer (o, &d);
	fputs ("}\n", o);
	if (!(shared >= 1 && shared <= NSHARED && src == shared_img[shared]))
	    pixman_image_unref (src);
	if (mask) pixman_image_unref (mask);
	pixman_image_unref (d.img);
	free (s.bits); free (m.bits); free (d.bits);
    }
    else if (r->kind == 'T')
    {
	/* T: kind dfmt dw dh seed   -- trapezoids on a private destination (kind 0: add_trapezoids on a8,
	 * 1: composite_trapezoids OVER with a solid source, 2: composite_triangles ADD) */
	int tk = (int)f[0], dw = (int)f[2], dh = (int)f[3], i;
	pixman_format_code_t dfmt = (pixman_format_code_t)f[1];
	img_t d;
	pixman_trapezoid_t tr[3];
	pixman_triangle_t tri[2];
	vrng_seed (&rng, (uint64_t)f[4]);
	make_bits (&d, dfmt, dw, dh, 0, &rng, 0);
	for (i = 0; i < 3; i++)
	{
	    pixman_fixed_t x0 = (pixman_fixed_t)(vrng_below (&rng, dw * 65536 + 1)), x1 = (pixman_fixed_t)(vrng_below (&rng, dw * 65536 + 1));
	    tr[i].top = (pixman_fixed_t)vrng_below (&rng, 65536 * 2);
	    tr[i].bottom = tr[i].top + 1 + (pixman_fixed_t)vrng_below (&rng, dh * 65536);
	    tr[i].left.p1.x = x0 < x1 ? x0 : x1; tr[i].left.p1.y = tr[i].top;
	    tr[i].left.p2.x = tr[i].left.p1.x + (pixman_fixed_t)vrng_below (&rng, 131072) - 65536; tr[i].left.p2.y = tr[i].bottom;
	    tr[i].right.p1.x = (x0 < x1 ? x1 : x0) + 1; tr[i].right.p1.y = tr[i].top;
	    tr[i].right.p2.x = tr[i].right.p1.x + (pixman_fixed_t)vrng_below (&rng, 131072) - 65536; tr[i].right.p2.y = tr[i].bottom;
	}
	for (i = 0; i < 2; i++)
	{
	    tri[i].p1.x = (pixman_fixed_t)vrng_below (&rng, dw * 65536); tri[i].p1.y = (pixman_fixed_t)vrng_below (&rng, dh * 65536);
	    tri[i].p2.x = (pixman_fixed_t)vrng_below (&rng, dw * 65536); tri[i].p2.y = (pixman_fixed_t)vrng_below (&rng, dh * 65536);
	    tri[i].p3.x = (pixman_fixed_t)vrng_below (&rng, dw * 65536); tri[i].p3.y = (pixman_fixed_t)vrng_below (&rng, dh * 65536);
	}
	if (tk == 0)
	    pixman_add_trapezoids (d.img, 0, 0, 3, tr);
	else
	{
	    pixman_color_t c = { 0xc000, 0x4000, 0x8000, 0xd000 };
	    pixman_image_t *sol = pixman_image_create_solid_fill (&c);
	    if (tk == 1)
		pixman_composite_trapezoids (PIXMAN_OP_OVER, sol, d.img, PIXMAN_a8, 0, 0, 0, 0, 3, tr);
	    else
		pixman_composite_triangles (PIXMAN_OP_ADD, sol, d.img, PIXMAN_a8, 0, 0, 0, 0, 2, tri);
	    pixman_image_unref (sol);
	}
	fprintf (o, "{\"e\":\"Res\",\"tid\":%d,\"seq\":%d,\"req\":%d,\"kind\":\"C\",\"ret\":true", tid, seqno++, idx);
	log_buffer (o, &d);
	fputs ("}\n", o);
	pixman_image_unref (d.img);
	free (d.bits);
    }
    else if (r->kind == 'X')
    {
	/* X: seed n  -- region algebra on private regions; the result is logged as "bytes" (coordinates mod 256) */
	pixman_region32_t a, b, c;
	pixman_box32_t bx[12];
	int n = (int)f[1], i, nr;
	pixman_box32_t *rr;
	vrng_seed (&rng, (uint64_t)f[0]);
	if (n > 12) n = 12;
	for (i = 0; i < n; i++)
	{
	    bx[i].x1 = (int)vrng_below (&rng, 40); bx[i].y1 = (int)vrng_below (&rng, 20);
	    bx[i].x2 = bx[i].x1 + 1 + (int)vrng_below (&rng, 30); bx[i].y2 = bx[i].y1 + 1 + (int)vrng_below (&rng, 12);
	}
	pixman_region32_init_rects (&a, bx, n / 2);
	pixman_region32_init_rects (&b, bx + n / 2, n - n / 2);
	pixman_region32_init (&c);
	pixman_region32_union (&c, &a, &b);
	pixman_region32_subtract (&a, &c, &b);
	pixman_region32_intersect (&c, &c, &b);
	pixman_region32_union (&c, &c, &a);
	pixman_region32_translate (&c, 3, -2);
	rr = pixman_region32_rectangles (&c, &nr);
	fprintf (o, "{\"e\":\"Res\",\"tid\":%d,\"seq\":%d,\"req\":%d,\"kind\":\"C\",\"ret\":true,\"bytes\":[%d", tid, seqno++, idx, nr & 255);
	for (i = 0; i < nr; i++)
	    fprintf (o, ",%d,%d,%d,%d", rr[i].x1 & 255, rr[i].y1 & 255, rr[i].x2 & 255, rr[i].y2 & 255);
	fputs ("]}\n", o);
	pixman_region32_fini (&a); pixman_region32_fini (&b); pixman_region32_fini (&c);
    }
    else if (r->kind == 'F' || r->kind == 'B')
    {
	/* F: bpp stride_words rows x y w h value seed      B: bpp sstride dstride rows sx sy dx dy w h seed */
	int bpp = (int)f[0];
	if (r->kind == 'F')
	{
	    int stride = (int)f[1], rows = (int)f[2], n = stride * rows, i, ret;
	    uint32_t *bits = malloc (4 * n + 4);
	    vrng_seed (&rng, (uint64_t)f[8]);
	    for (i = 0; i < n; i++)
		bits[i] = (uint32_t)vrng_next (&rng);
	    fprintf (o, "{\"e\":\"Res\",\"tid\":%d,\"seq\":%d,\"req\":%d,\"kind\":\"F\",\"before\":[", tid, seqno++, idx);
	    for (i = 0; i < 4 * n; i++)
		fprintf (o, i ? ",%d" : "%d", ((uint8_t *)bits)[i]);
	    ret = pixman_fill (bits, stride, bpp, (int)f[3], (int)f[4], (int)f[5], (int)f[6], (uint32_t)f[7]);
	    fprintf (o, "],\"ret\":%s,\"bytes\":[", ret ? "true" : "false");
	    for (i = 0; i < 4 * n; i++)
		fprintf (o, i ? ",%d" : "%d", ((uint8_t *)bits)[i]);
	    fputs ("]}\n", o);
	    free (bits);
	}
	else
	{
	    int ss = (int)f[1], ds = (int)f[2], rows = (int)f[3], i, ret;
	    uint32_t *sb = malloc (4 * ss * rows + 4), *db = malloc (4 * ds * rows + 4);
	    vrng_seed (&rng, (uint64_t)f[10]);
	    for (i = 0; i < ss * rows; i++) sb[i] = (uint32_t)vrng_next (&rng);
	    for (i = 0; i < ds * rows; i++) db[i] = (uint32_t)vrng_next (&rng);
	    fprintf (o, "{\"e\":\"Res\",\"tid\":%d,\"seq\":%d,\"req\":%d,\"kind\":\"B\",\"before\":[", tid, seqno++, idx);
	    for (i = 0; i < 4 * ds * rows; i++)
		fprintf (o, i ? ",%d" : "%d", ((uint8_t *)db)[i]);
	    ret = pixman_blt (sb, db, ss, ds, bpp, bpp, (int)f[4], (int)f[5], (int)f[6], (int)f[7], (int)f[8], (int)f[9]);
	    fprintf (o, "],\"ret\":%s,\"bytes\":[", ret ? "true" : "false");
	    for (i = 0; i < 4 * ds * rows; i++)
		fprintf (o, i ? ",%d" : "%d", ((uint8_t *)db)[i]);
	    fputs ("]}\n", o);
	    free (sb); free (db);
	}
    }
}

static int nthreads;
static const char *trace_path;

static void *
thread_main (void *arg)
{
    int k = (int)(intptr_t)arg, i;
    char path[512];
    snprintf (path, sizeof path, "%s.t%d", trace_path, k);
    tout = fopen (path, "w");
    tid = k;
    seqno = 0;
    for (i = k - 1; i < nreqs; i += nthreads)
	run_request (i);
    if (gcache)
    {
	pixman_glyph_cache_destroy (gcache);
	gcache = NULL;
    }
    fclose (tout);
    tout = NULL;
    return NULL;
}

int
main (int argc, char **argv)
{
    FILE *in;
    char kind[4];
    int i;
    if (argc < 3)
	return 3;
    in = fopen (argv[1], "r");
    if (!in) { perror (argv[1]); return 3; }
    while (nreqs < MAXREQ && fscanf (in, "%3s", kind) == 1)
    {
	int n;
	req_t *r = &reqs[nreqs];
	r->kind = kind[0];
	if (fscanf (in, "%d", &n) != 1 || n > MAXF) return 3;
	r->nf = n;
	for (i = 0; i < n; i++)
	    if (fscanf (in, "%lld", &r->f[i]) != 1) return 3;
	nreqs++;
    }
    fclose (in);
    trace_path = argv[2];
    vt_open (argv[2]);
    nthreads = argc > 3 ? atoi (argv[3]) : 0;
    vt_reset (getenv ("PIXMAN_DISABLE") ? getenv ("PIXMAN_DISABLE") : "default");
    dump_tables ();
    /* argv[4] = "nofirstuse": negative scenario of C16 (shared sources first used concurrently) */
    make_shared (!(argc > 4 && !strcmp (argv[4], "nofirstuse")));
    _pixman_verif_sink = sink;
    if (nthreads <= 0)
    {
	tid = 0;
	for (i = 0; i < nreqs; i++)
	    run_request (i);
    }
    else
    {
	pthread_t th[64];
	for (i = 1; i <= nthreads; i++)
	{
	    fprintf (vt_out, "{\"e\":\"Spawn\",\"tid\":%d}\n", i);
	    fflush (vt_out);
	    pthread_create (&th[i], NULL, thread_main, (void *)(intptr_t)i);
	}
	for (i = 1; i <= nthreads; i++)
	{
	    pthread_join (th[i], NULL);
	    fprintf (vt_out, "{\"e\":\"Join\",\"tid\":%d}\n", i);
	}
    }
    _pixman_verif_sink = NULL;
    vt_close ();
    return 0;
}
