/* Conformance driver for pixman regions (C05, C06, C07, C15): executes a script of region calls on
 * the real library and logs, after every call, what the public API shows.  It never judges. */
#include "vcommon.h"
#include <pixman.h>
#include "vfault.h"

#define W 16
#define RPFX pixman_region
#define REGION_T pixman_region16_t
#define BOX_T pixman_box16_t
#include "drv_region_impl.h"
#undef W
#undef RPFX
#undef REGION_T
#undef BOX_T

#define W 32
#define RPFX pixman_region32
#define REGION_T pixman_region32_t
#define BOX_T pixman_box32_t
#include "drv_region_impl.h"

static void
log_all (void)
{
    fputs (",\"st\":[", vt_out);
    me16log_state ();
    me32log_state ();
    fputs ("]", vt_out);
}

#define MAXV 100000
static int vals[MAXV];

int
main (int argc, char **argv)
{
    FILE *in;
    char kind[8], op[32], name[128];
    int first = 1;
    if (argc < 3)
    {
	fprintf (stderr, "usage: drv_region script trace\n");
	return 3;
    }
    in = fopen (argv[1], "r");
    if (!in) { perror (argv[1]); return 3; }
    vt_open (argv[2]);
    while (fscanf (in, "%7s", kind) == 1)
    {
	if (kind[0] == 'R')
	{
	    if (fscanf (in, "%127s", name) != 1) return 3;
	    vf_disarm ();
	    vf_nalloc = 0;
	    me16reset (first);
	    me32reset (first);
	    first = 0;
	    vt_reset (name);
	}
	else if (kind[0] == 'F')
	{
	    int k, mode;
	    if (fscanf (in, "%d %d", &k, &mode) != 2) return 3;
	    vf_arm (k, mode);
	}
	else
	{
	    int w, d = 0, a, b, nv, i, ret;
	    if (kind[0] == 'O')
	    {
		if (fscanf (in, "%d %31s %d %d %d %d", &w, op, &d, &a, &b, &nv) != 6) return 3;
	    }
	    else
	    {
		if (fscanf (in, "%d %31s %d %d %d", &w, op, &a, &b, &nv) != 5) return 3;
	    }
	    if (nv > MAXV) return 3;
	    for (i = 0; i < nv; i++)
		if (fscanf (in, "%d", &vals[i]) != 1) return 3;
	    if (kind[0] == 'O')
	    {
		int f0 = vf_nfail;
		if (!strcmp (op, "conv") && w == 16)
		{
		    /* domain: only regions whose coordinates are representable in 16 bits can be converted */
		    pixman_box32_t *e = pixman_region32_extents (&me32pool[(a - 1) % 3]);
		    if (pixman_region32_not_empty (&me32pool[(a - 1) % 3]) &&
			(e->x1 < -32768 || e->y1 < -32768 || e->x2 > 32767 || e->y2 > 32767))
			continue;
		}
		vf_begin ();
		if (!strcmp (op, "conv"))
		{
		    /* d and a are in different pools */
		    if (w == 32)
			ret = pixman_region32_copy_from_region16 (&me32pool[(d - 1) % 3], &me16pool[(a - 1) % 3]);
		    else
			ret = pixman_region16_copy_from_region32 (&me16pool[(d - 1) % 3], &me32pool[(a - 1) % 3]);
		}
		else if (w == 16)
		    ret = me16op (op, d, a, b, vals, nv);
		else
		    ret = me32op (op, d, a, b, vals, nv);
		vf_end ();
		vt_begin ("Op");
		vt_int ("w", w); vt_str ("op", op); vt_int ("d", d); vt_int ("a", a); vt_int ("b", b);
		if (!strcmp (op, "translate")) { vt_int ("dx", vals[0]); vt_int ("dy", vals[1]); }
		else if (!strcmp (op, "init_rects"))
		{
		    fputs (",\"boxes\":[", vt_out);
		    for (i = 0; i + 3 < nv; i += 4)
			fprintf (vt_out, "%s[%d,%d,%d,%d]", i ? "," : "", vals[i], vals[i + 1], vals[i + 2], vals[i + 3]);
		    fputs ("]", vt_out);
		}
		else if (!strcmp (op, "from_image"))
		{
		    int x, y, iw = vals[0], ih = vals[1];
		    if (nv > 2 + iw * ih) vt_int ("pad", vals[2 + iw * ih]);
		    fputs (",\"rows\":[", vt_out);
		    for (y = 0; y < ih; y++)
		    {
			fputs (y ? ",[" : "[", vt_out);
			for (x = 0; x < iw; x++)
			    fprintf (vt_out, x ? ",%d" : "%d", vals[2 + y * iw + x]);
			fputs ("]", vt_out);
		    }
		    fputs ("]", vt_out);
		}
		else if (nv >= 4)
		    vt_ints ("box", vals, 4);
		vt_bool ("ret", ret);
		vt_int ("nfail", vf_nfail - f0);
		vt_int ("na", vf_nalloc);
		log_all ();
		vt_end ();
	    }
	    else
	    {
		vt_begin ("Q");
		vt_int ("w", w); vt_str ("q", op); vt_int ("a", a); vt_int ("b", b);
		if (w == 16)
		    me16query (op, a, b, vals, nv);
		else
		    me32query (op, a, b, vals, nv);
		vt_end ();
	    }
	}
    }
    vf_disarm ();
    me16reset (0);
    me32reset (0);
    vt_close ();
    return 0;
}
