/* Conformance driver for pixman_filter_create_separable_convolution (C18).
 * Executes a script on the real library and logs what the public API shows.  It never judges.
 *
 * script (blank separated tokens):
 *   R name                                          new execution
 *   C rx ry sx sy scale_x scale_y bits_x bits_y     create the parameter block (kernels by number)
 *   S fmt w h b3 b2 b1 b0                           constant source image of that format, every pixel the
 *                                                   32-bit word b3b2b1b0 (a8: byte b0); set_filter (block)
 *   D repeat dw dh m00 m01 m02 m10 m11 m12 m20 m21 m22
 *                                                   set repeat + transform, OP_SRC into an a8r8g8b8 dw x dh
 * events:
 *   CreateBegin  arguments (written before the call: a crash leaves it unanswered)
 *   Create       ok, n, hdr[4] (only when n >= 4)
 *   Rows         axis, first, rows[[..]..]   the n-4 values after the header, in order, cut into lines of
 *                the width the header announces (formatting only; never reads beyond n values)
 *   SetFilter    fmt, px, ret
 *   Render       repeat, affine, out[[a,r,g,b]..]
 *   End          the script was executed to its end
 */
#include "vcommon.h"
#include <pixman.h>
#include <unistd.h>

#define MAXCHUNK 6000

static const char *kname[] = { "IMPULSE", "BOX", "LINEAR", "CUBIC", "GAUSSIAN", "LANCZOS2", "LANCZOS3",
			       "LANCZOS3_STRETCHED" };
static const char *rname[] = { "NONE", "NORMAL", "PAD", "REFLECT" };

static pixman_fixed_t *params;
static int n_values;
static pixman_image_t *src;
static uint32_t *src_bits;

static void
drop (void)
{
    if (src) { pixman_image_unref (src); src = NULL; }
    free (src_bits); src_bits = NULL;
    free (params); params = NULL;
    n_values = 0;
}

/* log values [from, to) of the block as lines of length `width` (last one possibly shorter).
 * Values that could overflow a 32-bit sum are written as [hi16 (signed), lo16] pairs (event RowsW). */
static void
log_axis (const char *axis, int from, int to, int width)
{
    int pos = from, phase = 0;
    if (width < 1)
	width = to - from > 0 ? to - from : 1;
    while (pos < to)
    {
	int cnt = 0, first = phase, wide = width >= 2048, k, end = pos;
	/* decide the extent of this chunk first, then its number format */
	while (end < to && (cnt == 0 || cnt + width <= MAXCHUNK))
	{
	    int len = width < to - end ? width : to - end;
	    end += len;
	    cnt += len;
	}
	for (k = pos; k < end; k++)
	    if (params[k] >= (1 << 20) || params[k] <= -(1 << 20))
		wide = 1;
	vt_begin (wide ? "RowsW" : "Rows");
	vt_str ("axis", axis);
	vt_int ("first", first);
	vt_key ("rows");
	fputc ('[', vt_out);
	while (pos < end)
	{
	    int len = width < end - pos ? width : end - pos;
	    fputs (phase == first ? "[" : ",[", vt_out);
	    for (k = 0; k < len; k++)
	    {
		int v = (int)params[pos + k];
		if (wide)
		    fprintf (vt_out, k ? ",[%d,%d]" : "[%d,%d]", v >> 16, v & 0xffff);
		else
		    fprintf (vt_out, k ? ",%d" : "%d", v);
	    }
	    fputc (']', vt_out);
	    pos += len;
	    phase++;
	}
	fputc (']', vt_out);
	vt_end ();
    }
}

int
main (int argc, char **argv)
{
    FILE *in;
    char kind[8], name[128], fmt[32];
    if (argc < 3)
    {
	fprintf (stderr, "usage: drv_filter script trace\n");
	return 3;
    }
    in = fopen (argv[1], "r");
    if (!in) { perror (argv[1]); return 3; }
    vt_open (argv[2]);
    while (fscanf (in, "%7s", kind) == 1)
    {
	if (kind[0] == 'R')
	{
	    if (fscanf (in, "%127s", name) != 1) return 3;
	    drop ();
	    vt_reset (name);
	}
	else if (kind[0] == 'C')
	{
	    int rx, ry, sx, sy, scx, scy, bx, by;
	    if (fscanf (in, "%d %d %d %d %d %d %d %d", &rx, &ry, &sx, &sy, &scx, &scy, &bx, &by) != 8) return 3;
	    drop ();
	    vt_begin ("CreateBegin");
	    vt_str ("rx", kname[rx & 7]); vt_str ("ry", kname[ry & 7]);
	    vt_str ("sx", kname[sx & 7]); vt_str ("sy", kname[sy & 7]);
	    vt_w32 ("scale_x", (uint32_t)scx); vt_w32 ("scale_y", (uint32_t)scy);
	    vt_int ("bx", bx); vt_int ("by", by);
	    vt_end ();
	    alarm (300);
	    n_values = -1;
	    params = pixman_filter_create_separable_convolution (&n_values, scx, scy, rx, ry, sx, sy, bx, by);
	    alarm (0);
	    vt_begin ("Create");
	    vt_bool ("ok", params != NULL);
	    vt_int ("n", n_values);
	    if (params && n_values >= 4)
	    {
		int h[4], i;
		for (i = 0; i < 4; i++) h[i] = (int)params[i];
		vt_key ("hdr");
		fprintf (vt_out, "[[%d,%d],[%d,%d],[%d,%d],[%d,%d]]",
			 h[0] >> 16, h[0] & 0xffff, h[1] >> 16, h[1] & 0xffff,
			 h[2] >> 16, h[2] & 0xffff, h[3] >> 16, h[3] & 0xffff);
	    }
	    vt_end ();
	    if (params && n_values > 4)
	    {
		/* cut points taken from the header, clamped to the n values that exist */
		long long w = params[0] >> 16, pbx = params[2] >> 16;
		long long xend = 4;
		if (w >= 0 && pbx >= 0 && pbx < 30)
		    xend = 4 + (w << pbx);
		if (xend > n_values || xend < 4) xend = n_values;
		log_axis ("x", 4, (int)xend, (int)(w > 0 && w < n_values ? w : 0));
		log_axis ("y", (int)xend, n_values,
			  (int)((params[1] >> 16) > 0 && (params[1] >> 16) < n_values ? (params[1] >> 16) : 0));
	    }
	}
	else if (kind[0] == 'S')
	{
	    int w, h, b[4], i, ret;
	    pixman_format_code_t f;
	    uint32_t word;
	    if (fscanf (in, "%31s %d %d %d %d %d %d", fmt, &w, &h, &b[0], &b[1], &b[2], &b[3]) != 7) return 3;
	    if (!strcmp (fmt, "a8r8g8b8")) f = PIXMAN_a8r8g8b8;
	    else if (!strcmp (fmt, "x8r8g8b8")) f = PIXMAN_x8r8g8b8;
	    else if (!strcmp (fmt, "a8b8g8r8")) f = PIXMAN_a8b8g8r8;
	    else if (!strcmp (fmt, "b8g8r8a8")) f = PIXMAN_b8g8r8a8;
	    else if (!strcmp (fmt, "a8")) f = PIXMAN_a8;
	    else return 3;
	    if (src) { pixman_image_unref (src); src = NULL; }
	    free (src_bits);
	    word = ((uint32_t)b[0] << 24) | (b[1] << 16) | (b[2] << 8) | b[3];
	    if (f == PIXMAN_a8)
		word = (uint32_t)b[3] * 0x01010101u;
	    src_bits = malloc ((size_t)w * h * 4);
	    for (i = 0; i < w * h; i++) src_bits[i] = word;
	    /* a8 rows: stride w*4 bytes keeps every byte of the buffer equal to b0 */
	    src = pixman_image_create_bits (f, w, h, src_bits, w * 4);
	    ret = src && params ? pixman_image_set_filter (src, PIXMAN_FILTER_SEPARABLE_CONVOLUTION, params, n_values) : -1;
	    vt_begin ("SetFilter");
	    vt_str ("fmt", fmt);
	    vt_ints ("px", b, 4);
	    vt_int ("w", w); vt_int ("h", h);
	    vt_int ("ret", ret);
	    vt_end ();
	}
	else if (kind[0] == 'D')
	{
	    int rep, dw, dh, m[9], i;
	    pixman_transform_t t;
	    pixman_image_t *dst;
	    uint32_t *db;
	    if (fscanf (in, "%d %d %d", &rep, &dw, &dh) != 3) return 3;
	    for (i = 0; i < 9; i++)
		if (fscanf (in, "%d", &m[i]) != 1) return 3;
	    if (!src) return 3;
	    for (i = 0; i < 9; i++) t.matrix[i / 3][i % 3] = m[i];
	    pixman_image_set_repeat (src, (pixman_repeat_t)rep);
	    pixman_image_set_transform (src, &t);
	    db = malloc ((size_t)dw * dh * 4);
	    for (i = 0; i < dw * dh; i++) db[i] = 0x12345678u;
	    dst = pixman_image_create_bits (PIXMAN_a8r8g8b8, dw, dh, db, dw * 4);
	    vt_begin ("RenderBegin");
	    vt_str ("repeat", rname[rep & 3]);
	    vt_ints ("m", m, 9);
	    vt_end ();
	    alarm (300);
	    pixman_image_composite32 (PIXMAN_OP_SRC, src, NULL, dst, 0, 0, 0, 0, 0, 0, dw, dh);
	    alarm (0);
	    vt_begin ("Render");
	    vt_str ("repeat", rname[rep & 3]);
	    vt_bool ("affine", m[6] == 0 && m[7] == 0 && m[8] == 65536);
	    vt_int ("dw", dw); vt_int ("dh", dh);
	    vt_key ("out");
	    fputc ('[', vt_out);
	    for (i = 0; i < dw * dh; i++)
		fprintf (vt_out, "%s[%u,%u,%u,%u]", i ? "," : "", db[i] >> 24, (db[i] >> 16) & 255,
			 (db[i] >> 8) & 255, db[i] & 255);
	    fputc (']', vt_out);
	    vt_end ();
	    pixman_image_unref (dst);
	    free (db);
	}
	else
	    return 3;
    }
    drop ();
    vt_begin ("End");
    vt_end ();
    vt_close ();
    return 0;
}
