/* Conformance driver for pixman_filter_create_separable_convolution (C18).
 * Executes a script on the real library and logs what the public API shows.  It never judges.
 *
 * script (blank separated tokens):
 *   R name                                          new execution
 *   C rx ry sx sy scale_x scale_y bits_x bits_y     create the parameter block (kernels by number)
 *   S fmt w h b3 b2 b1 b0                           constant source image of that format, every pixel the
 *                                                   32-bit word b3b2b1b0 (a8: byte b0); set_filter (block)
 *   D repeat dw dh m00 m01 m02 m10 m11 m12 m20 m21 m22
 *                                                   set repeat + transform, OP_SRC into an a8r8g8b8 dw x dh
 *   W rk_lo rk_hi sk_lo sk_hi s_lo s_hi step off bits_lo bits_hi ctl_every ctl_off
 *        wide scan WITH SELECTION: creates the filter for every (reconstruct, sample, bits, scale) of the ranges
 *        (scale = s_lo + off, + step, ... <= s_hi) on one axis (the other axis is a one-tap filter; the axes
 *        alternate).  Only SELECTED tables are logged, each as its own execution (Reset/CreateBegin/Create/
 *        Rows, exactly the events of C): those a cheap structural pre-screen finds unusual (NULL, n or header
 *        not as announced, a phase not summing to 65536, |coefficient| >= 16.0) plus a deterministic control
 *        sample (every ctl_every-th creation).  The pre-screen only chooses what is shown to the trace
 *        specification; a table it does not select is not judged.  Ends with ScanDone scanned/selected/control.
 * events:
 *   CreateBegin  arguments (written before the call: a crash leaves it unanswered)
 *   Create       ok, n, hdr[4] (only when n >= 4)
 *   Rows         axis, first, rows[[..]..]   the n-4 values after the header, in order, cut into lines of
 *                the width the header announces (formatting only; never reads beyond n values)
 *   SetFilter    fmt, px, ret
 *   Render       repeat, affine, out[[a,r,g,b]..]
 *   Skip         an S or D step that was not executed because the create call returned no block
 *   End          the script was executed to its end
 */
#include "vcommon.h"
#include <pixman.h>
#include <unistd.h>
#include <signal.h>

#define MAXCHUNK 6000

static const char *kname[] = { "IMPULSE", "BOX", "LINEAR", "CUBIC", "GAUSSIAN", "LANCZOS2", "LANCZOS3",
			       "LANCZOS3_STRETCHED" };
static const char *rname[] = { "NONE", "NORMAL", "PAD", "REFLECT" };

static pixman_fixed_t *params;
static int n_values;
static pixman_image_t *src;
static uint32_t *src_bits;

static void
drop (void)
{
    if (src) { pixman_image_unref (src); src = NULL; }
    free (src_bits); src_bits = NULL;
    free (params); params = NULL;
    n_values = 0;
}

/* log values [from, to) of the block as lines of length `width` (last one possibly shorter).
 * Values that could overflow a 32-bit sum are written as [hi16 (signed), lo16] pairs (event RowsW). */
static void
log_axis (const char *axis, int from, int to, int width)
{
    int pos = from, phase = 0;
    if (width < 1)
	width = to - from > 0 ? to - from : 1;
    while (pos < to)
    {
	int cnt = 0, first = phase, wide = width >= 2048, k, end = pos;
	/* decide the extent of this chunk first, then its number format */
	while (end < to && (cnt == 0 || cnt + width <= MAXCHUNK))
	{
	    int len = width < to - end ? width : to - end;
	    end += len;
	    cnt += len;
	}
	for (k = pos; k < end; k++)
	    if (params[k] >= (1 << 20) || params[k] <= -(1 << 20))
		wide = 1;
	vt_begin (wide ? "RowsW" : "Rows");
	vt_str ("axis", axis);
	vt_int ("first", first);
	vt_key ("rows");
	fputc ('[', vt_out);
	while (pos < end)
	{
	    int len = width < end - pos ? width : end - pos;
	    fputs (phase == first ? "[" : ",[", vt_out);
	    for (k = 0; k < len; k++)
	    {
		int v = (int)params[pos + k];
		if (wide)
		    fprintf (vt_out, k ? ",[%d,%d]" : "[%d,%d]", v >> 16, v & 0xffff);
		else
		    fprintf (vt_out, k ? ",%d" : "%d", v);
	    }
	    fputc (']', vt_out);
	    pos += len;
	    phase++;
	}
	fputc (']', vt_out);
	vt_end ();
    }
}

static void
log_begin (int rx, int ry, int sx, int sy, int scx, int scy, int bx, int by)
{
    vt_begin ("CreateBegin");
    vt_str ("rx", kname[rx & 7]); vt_str ("ry", kname[ry & 7]);
    vt_str ("sx", kname[sx & 7]); vt_str ("sy", kname[sy & 7]);
    vt_w32 ("scale_x", (uint32_t)scx); vt_w32 ("scale_y", (uint32_t)scy);
    vt_int ("bx", bx); vt_int ("by", by);
    vt_end ();
}

/* what the call returned: n, header, then the n - 4 values after the header */
static void
log_created (void)
{
    vt_begin ("Create");
    vt_bool ("ok", params != NULL);
    vt_int ("n", n_values);
    if (params && n_values >= 4)
    {
	int h[4], i;
	for (i = 0; i < 4; i++) h[i] = (int)params[i];
	vt_key ("hdr");
	fprintf (vt_out, "[[%d,%d],[%d,%d],[%d,%d],[%d,%d]]",
		 h[0] >> 16, h[0] & 0xffff, h[1] >> 16, h[1] & 0xffff,
		 h[2] >> 16, h[2] & 0xffff, h[3] >> 16, h[3] & 0xffff);
    }
    vt_end ();
    if (params && n_values > 4)
    {
	/* cut points taken from the header, clamped to the n values that exist */
	long long w = params[0] >> 16, pbx = params[2] >> 16;
	long long xend = 4;
	if (w >= 0 && pbx >= 0 && pbx < 30)
	    xend = 4 + (w << pbx);
	if (xend > n_values || xend < 4) xend = n_values;
	log_axis ("x", 4, (int)xend, (int)(w > 0 && w < n_values ? w : 0));
	log_axis ("y", (int)xend, n_values,
		  (int)((params[1] >> 16) > 0 && (params[1] >> 16) < n_values ? (params[1] >> 16) : 0));
    }
}

/* ---- wide scan with selection ------------------------------------------------------------------------ */
static volatile int cur[8];		/* arguments of the creation in progress (for the crash handler) */
static volatile int cur_valid;

static void
scan_crash (int sig)
{
    char buf[400];
    int n;
    if (vt_out) fflush (vt_out);
    n = snprintf (buf, sizeof buf,
		  "\n{\"e\":\"Reset\",\"scenario\":\"scan-crash\"}\n"
		  "{\"e\":\"CreateBegin\",\"rx\":\"%s\",\"ry\":\"%s\",\"sx\":\"%s\",\"sy\":\"%s\","
		  "\"scale_x\":[%u,%u],\"scale_y\":[%u,%u],\"bx\":%d,\"by\":%d}\n{\"e\":\"Crash\",\"sig\":%d}\n",
		  kname[cur[0] & 7], kname[cur[1] & 7], kname[cur[2] & 7], kname[cur[3] & 7],
		  (unsigned)cur[4] >> 16, cur[4] & 0xffff, (unsigned)cur[5] >> 16, cur[5] & 0xffff, cur[6], cur[7], sig);
    if (!cur_valid)
	n = snprintf (buf, sizeof buf, "\n{\"e\":\"Crash\",\"sig\":%d}\n", sig);
    if (vt_out && write (fileno (vt_out), buf, n) < 0) {}
    _exit (0);
}

/* structural pre-screen: 0 = nothing unusual.  It only SELECTS tables for logging. */
static int
unusual (int bx, int by)
{
    long long w, h, k, p, pos;
    if (!params) return 1;
    if (n_values < 4) return 2;
    for (k = 0; k < 4; k++)
	if (params[k] & 0xffff) return 3;
    w = params[0] >> 16; h = params[1] >> 16;
    if (w < 1 || h < 1) return 4;
    if ((params[2] >> 16) != bx || (params[3] >> 16) != by) return 5;
    if (n_values != 4 + (w << bx) + (h << by)) return 6;
    pos = 4;
    for (p = 0; p < (1 << bx) + (1 << by); p++)
    {
	long long len = p < (1 << bx) ? w : h, sum = 0;
	for (k = 0; k < len; k++)
	{
	    long long v = params[pos + k];
	    if (v >= (1 << 20) || v <= -(1 << 20)) return 8;
	    sum += v;
	}
	if (sum != 65536) return 7;
	pos += len;
    }
    return 0;
}

static void
scan (const int *a)
{
    long long scanned = 0, selected = 0, control = 0, structural = 0, huge = 0;
    int rk, sk, bits, sc;
    char name[96];
    signal (SIGSEGV, scan_crash); signal (SIGBUS, scan_crash); signal (SIGABRT, scan_crash);
    signal (SIGFPE, scan_crash); signal (SIGILL, scan_crash); signal (SIGALRM, scan_crash);
    for (rk = a[0]; rk <= a[1]; rk++)
	for (sk = a[2]; sk <= a[3]; sk++)
	    for (bits = a[8]; bits <= a[9]; bits++)
		for (sc = a[4] + a[7]; sc <= a[5] && sc > 0; sc += a[6])
		{
		    /* the scanned axis alternates; the other axis gets a one-tap filter */
		    int onx = !(scanned & 1), why, ctl;
		    int rx = onx ? rk : 0, ry = onx ? 0 : rk, sx = onx ? sk : 1, sy = onx ? 1 : sk;
		    int scx = onx ? sc : 65536, scy = onx ? 65536 : sc, bx = onx ? bits : 0, by = onx ? 0 : bits;
		    cur[0] = rx; cur[1] = ry; cur[2] = sx; cur[3] = sy; cur[4] = scx; cur[5] = scy; cur[6] = bx; cur[7] = by;
		    cur_valid = 1;
		    alarm (300);
		    n_values = -1;
		    params = pixman_filter_create_separable_convolution (&n_values, scx, scy, rx, ry, sx, sy, bx, by);
		    alarm (0);
		    cur_valid = 0;
		    why = unusual (bx, by);
		    /* tables with very large coefficients are selected too, but a change that makes (nearly) every table such a
		     * table must not flood the trace: up to 1.5 million logged coefficients of them per scan (more than the
		     * unchanged library produces) are evidence enough, the rest count as not judged */
		    if (why == 8 && (huge += n_values) > 1500000)
			why = 0;
		    ctl = a[10] > 0 && (scanned % a[10]) == a[11] % a[10];
		    if (why || ctl)
		    {
			snprintf (name, sizeof name, "scan-%s-%d-%d-%d-%d-%c", why ? "selected" : "control", rk, sk, sc, bits,
				  onx ? 'x' : 'y');
			vt_reset (name);
			log_begin (rx, ry, sx, sy, scx, scy, bx, by);
			log_created ();
			if (why) selected++; else control++;
			/* a few dozen structurally unusual tables are evidence enough: do not flood the trace when
			 * nearly every table is selected (the trace specification judges each logged table) */
			if (why && why != 8 && ++structural >= 40)
			{
			    free (params);
			    params = NULL;
			    scanned++;
			    goto done;
			}
		    }
		    scanned++;
		    free (params);
		    params = NULL;
		}
done:
    vt_begin ("ScanDone");
    vt_int ("scanned", scanned);
    vt_int ("selected", selected);
    vt_int ("control", control);
    vt_end ();
}

int
main (int argc, char **argv)
{
    FILE *in;
    char kind[8], name[128], fmt[32];
    if (argc < 3)
    {
	fprintf (stderr, "usage: drv_filter script trace\n");
	return 3;
    }
    in = fopen (argv[1], "r");
    if (!in) { perror (argv[1]); return 3; }
    vt_open (argv[2]);
    while (fscanf (in, "%7s", kind) == 1)
    {
	if (kind[0] == 'R')
	{
	    if (fscanf (in, "%127s", name) != 1) return 3;
	    drop ();
	    vt_reset (name);
	}
	else if (kind[0] == 'C')
	{
	    int rx, ry, sx, sy, scx, scy, bx, by;
	    if (fscanf (in, "%d %d %d %d %d %d %d %d", &rx, &ry, &sx, &sy, &scx, &scy, &bx, &by) != 8) return 3;
	    drop ();
	    log_begin (rx, ry, sx, sy, scx, scy, bx, by);
	    alarm (300);
	    n_values = -1;
	    params = pixman_filter_create_separable_convolution (&n_values, scx, scy, rx, ry, sx, sy, bx, by);
	    alarm (0);
	    log_created ();
	}
	else if (kind[0] == 'W')
	{
	    int a[12], i;
	    for (i = 0; i < 12; i++)
		if (fscanf (in, "%d", &a[i]) != 1) return 3;
	    drop ();
	    scan (a);
	}
	else if (kind[0] == 'S')
	{
	    int w, h, b[4], i, ret;
	    pixman_format_code_t f;
	    uint32_t word;
	    if (fscanf (in, "%31s %d %d %d %d %d %d", fmt, &w, &h, &b[0], &b[1], &b[2], &b[3]) != 7) return 3;
	    if (!params) { vt_begin ("Skip"); vt_str ("what", "S"); vt_end (); continue; }
	    if (!strcmp (fmt, "a8r8g8b8")) f = PIXMAN_a8r8g8b8;
	    else if (!strcmp (fmt, "x8r8g8b8")) f = PIXMAN_x8r8g8b8;
	    else if (!strcmp (fmt, "a8b8g8r8")) f = PIXMAN_a8b8g8r8;
	    else if (!strcmp (fmt, "b8g8r8a8")) f = PIXMAN_b8g8r8a8;
	    else if (!strcmp (fmt, "a8")) f = PIXMAN_a8;
	    else return 3;
	    if (src) { pixman_image_unref (src); src = NULL; }
	    free (src_bits);
	    word = ((uint32_t)b[0] << 24) | (b[1] << 16) | (b[2] << 8) | b[3];
	    if (f == PIXMAN_a8)
		word = (uint32_t)b[3] * 0x01010101u;
	    src_bits = malloc ((size_t)w * h * 4);
	    for (i = 0; i < w * h; i++) src_bits[i] = word;
	    /* a8 rows: stride w*4 bytes keeps every byte of the buffer equal to b0 */
	    src = pixman_image_create_bits (f, w, h, src_bits, w * 4);
	    ret = src && params ? pixman_image_set_filter (src, PIXMAN_FILTER_SEPARABLE_CONVOLUTION, params, n_values) : -1;
	    vt_begin ("SetFilter");
	    vt_str ("fmt", fmt);
	    vt_ints ("px", b, 4);
	    vt_int ("w", w); vt_int ("h", h);
	    vt_int ("ret", ret);
	    vt_end ();
	}
	else if (kind[0] == 'D')
	{
	    int rep, dw, dh, m[9], i;
	    pixman_transform_t t;
	    pixman_image_t *dst;
	    uint32_t *db;
	    if (fscanf (in, "%d %d %d", &rep, &dw, &dh) != 3) return 3;
	    for (i = 0; i < 9; i++)
		if (fscanf (in, "%d", &m[i]) != 1) return 3;
	    if (!params) { vt_begin ("Skip"); vt_str ("what", "D"); vt_end (); continue; }
	    if (!src) return 3;
	    for (i = 0; i < 9; i++) t.matrix[i / 3][i % 3] = m[i];
	    pixman_image_set_repeat (src, (pixman_repeat_t)rep);
	    pixman_image_set_transform (src, &t);
	    db = malloc ((size_t)dw * dh * 4);
	    for (i = 0; i < dw * dh; i++) db[i] = 0x12345678u;
	    dst = pixman_image_create_bits (PIXMAN_a8r8g8b8, dw, dh, db, dw * 4);
	    vt_begin ("RenderBegin");
	    vt_str ("repeat", rname[rep & 3]);
	    vt_ints ("m", m, 9);
	    vt_end ();
	    alarm (300);
	    pixman_image_composite32 (PIXMAN_OP_SRC, src, NULL, dst, 0, 0, 0, 0, 0, 0, dw, dh);
	    alarm (0);
	    vt_begin ("Render");
	    vt_str ("repeat", rname[rep & 3]);
	    vt_bool ("affine", m[6] == 0 && m[7] == 0 && m[8] == 65536);
	    vt_int ("dw", dw); vt_int ("dh", dh);
	    vt_key ("out");
	    fputc ('[', vt_out);
	    for (i = 0; i < dw * dh; i++)
		fprintf (vt_out, "%s[%u,%u,%u,%u]", i ? "," : "", db[i] >> 24, (db[i] >> 16) & 255,
			 (db[i] >> 8) & 255, db[i] & 255);
	    fputc (']', vt_out);
	    vt_end ();
	    pixman_image_unref (dst);
	    free (db);
	}
	else
	    return 3;
    }
    drop ();
    vt_begin ("End");
    vt_end ();
    vt_close ();
    return 0;
}
