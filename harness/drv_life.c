/* Conformance driver for image lifetime (C20).  Executes a script of API calls over a pool of image
 * slots and one glyph cache on the real library and logs, for every call, its arguments, its return
 * value and the sub-events that happened inside it, in program order:
 *    M id size / F id      allocation made / released by pixman     (harness/life_alloc.c, --wrap)
 *    R img rc / U img rc f pixman_image_ref / pixman_image_unref reported by the hook (count after, freed)
 *    D img data            the destroy callback ran
 * Glyph cache: gcreate (create + freeze), ginsert / gbad (an insert whose private copy cannot be made), glookup,
 * gcomp (composite_glyphs / _no_mask with every present glyph), gremove, gthaw (thaw + freeze), gdestroy.
 * gcreate v picks the concrete keys (choose_keys); every call logs the table pressure before it ("press").
 * img is the pool slot of the image (0: an image that is not in the pool, e.g. a glyph-cache copy).
 * The driver never judges; the script comes from the specification, which knows which slots are alive.
 *
 * script lines:   reset <name> | end | <op> <i> <j> <v> <cv>
 *    op, i, j, v are the fields of the specification's call record, cv picks the concrete arguments. */
#include "vcommon.h"
#include "life_alloc.h"
#include <config.h>
#include "pixman-private.h"

#define NSLOT 8
#define NKEY 15			/* glyph keys 1..NKEY */
int _pixman_verif_glyph_dump (pixman_glyph_cache_t *cache, int max, int *kind, const void **font_keys,
			      const void **glyph_keys, int *counters, int *mru, int *n_mru);
unsigned int _pixman_verif_glyph_hash (const void *font_key, const void *glyph_key);
static intptr_t gkey[NKEY + 1];	/* concrete glyph key of the specification's key k */
static pixman_image_t *img[NSLOT + 1];
static uint32_t ext_buf[NSLOT + 1][64];		/* caller-owned pixel buffers ("bitsx") */
static pixman_glyph_cache_t *cache;
static pixman_image_t *scratch, *solid;
static volatile uint32_t sink_word;

static int
slot_of (const void *p)
{
    int i;
    for (i = 1; i <= NSLOT; i++)
	if (img[i] && (const void *)img[i] == p)
	    return i;
    return 0;
}

static void
sink (const char *event, const void *data)
{
    if (!la_on)
	return;
    if (!strcmp (event, "Ref"))
    {
	const pixman_verif_ref_t *r = data;
	la_push ('R', slot_of (r->image), r->ref_count, 0);
    }
    else if (!strcmp (event, "Unref"))
    {
	const pixman_verif_ref_t *r = data;
	int s = slot_of (r->image);
	la_push ('U', s, r->ref_count, r->freed);
	if (r->freed && s)
	    img[s] = NULL;	/* the library reports that this object is gone */
    }
}

static void
on_destroy (pixman_image_t *image, void *data)
{
    /* what a client typically does here: look at the image it is told about */
    sink_word += (uint32_t)pixman_image_get_width (image) + (uint32_t)pixman_image_get_format (image);
    if (pixman_image_get_data (image))
	sink_word += pixman_image_get_data (image)[0];
    la_push ('D', slot_of (image), (int)(intptr_t)data, 0);
}

static const struct { pixman_format_code_t f; int w, h; } bits_variants[] = {
    { PIXMAN_a8r8g8b8, 4, 3 }, { PIXMAN_a8, 5, 2 }, { PIXMAN_r5g6b5, 3, 3 }, { PIXMAN_a1, 9, 2 },
    { PIXMAN_x8r8g8b8, 2, 2 }, { PIXMAN_a8r8g8b8, 1, 1 }, { PIXMAN_a4, 3, 2 }, { PIXMAN_a2r10g10b10, 2, 2 },
};
#define NBITS ((int)(sizeof bits_variants / sizeof bits_variants[0]))

static pixman_image_t *
do_create (int i, int kind, int cv)
{
    static const pixman_gradient_stop_t stops[3] = {
	{ 0, { 0xffff, 0, 0, 0xffff } }, { 0x8000, { 0, 0xffff, 0, 0x8000 } }, { 0x10000, { 0, 0, 0xffff, 0xffff } } };
    pixman_point_fixed_t p1 = { 0, 0 }, p2 = { pixman_int_to_fixed (4), pixman_int_to_fixed (2) };
    pixman_color_t col = { 0x1234, 0x8000, 0xffff, (uint16_t)(cv & 1 ? 0xffff : 0x7000) };
    int ns = 2 + (cv & 1);
    int b = ((cv % NBITS) + NBITS) % NBITS;
    switch (kind)
    {
    case 1:
	return pixman_image_create_bits (bits_variants[b].f, bits_variants[b].w, bits_variants[b].h, NULL, 0);
    case 2:
    {
	int stride = ((bits_variants[b].w * PIXMAN_FORMAT_BPP (bits_variants[b].f) + 31) / 32) * 4;
	return pixman_image_create_bits (bits_variants[b].f, bits_variants[b].w, bits_variants[b].h, ext_buf[i], stride);
    }
    case 3:
	return pixman_image_create_solid_fill (&col);
    case 4:
	return pixman_image_create_linear_gradient (&p1, &p2, stops, ns);
    case 5:
	return pixman_image_create_radial_gradient (&p1, &p2, pixman_int_to_fixed (1), pixman_int_to_fixed (3), stops, ns);
    default:
	return pixman_image_create_conical_gradient (&p2, pixman_int_to_fixed (30), stops, ns);
    }
}

static pixman_bool_t
do_transform (pixman_image_t *im, int v, int cv)
{
    pixman_transform_t t;
    pixman_transform_init_identity (&t);
    if (v == 0)
	return pixman_image_set_transform (im, (cv & 1) ? &t : NULL);
    switch (cv % 3)
    {
    case 0: pixman_transform_init_translate (&t, pixman_int_to_fixed (1), pixman_fixed_1 / 2); break;
    case 1: pixman_transform_init_scale (&t, pixman_fixed_1 * 2, pixman_fixed_1 / 2); break;
    default: t.matrix[2][0] = 0x100; t.matrix[0][1] = 0x2000; break;
    }
    return pixman_image_set_transform (im, &t);
}

static pixman_bool_t
do_filter (pixman_image_t *im, int v, int cv)
{
    static const pixman_fixed_t c1[3] = { pixman_fixed_1, pixman_fixed_1, pixman_fixed_1 };
    static const pixman_fixed_t c3[11] = { 3 * pixman_fixed_1, 3 * pixman_fixed_1,
	0x1000, 0x2000, 0x1000, 0x2000, 0x4000, 0x2000, 0x1000, 0x2000, 0x1000 };
    static const pixman_fixed_t sep[6] = { pixman_fixed_1, pixman_fixed_1, 0, 0, pixman_fixed_1, pixman_fixed_1 };
    if (v == 0)
	return pixman_image_set_filter (im, (cv & 1) ? PIXMAN_FILTER_BILINEAR : PIXMAN_FILTER_NEAREST, NULL, 0);
    switch (cv % 4)
    {
    case 3: return pixman_image_set_filter (im, PIXMAN_FILTER_GOOD, c1, 0);   /* parameters given, none of them: a block of size 0 is owned */
    case 0: return pixman_image_set_filter (im, PIXMAN_FILTER_CONVOLUTION, c1, 3);
    case 1: return pixman_image_set_filter (im, PIXMAN_FILTER_CONVOLUTION, c3, 11);
    default: return pixman_image_set_filter (im, PIXMAN_FILTER_SEPARABLE_CONVOLUTION, sep, 6);
    }
}

/* the region argument is built and released by the driver outside the recorded window */
static pixman_bool_t
do_clip (pixman_image_t *im, int v, int cv)
{
    static const pixman_box32_t b32[3] = { { 0, 0, 2, 1 }, { 1, 2, 3, 3 }, { 0, 4, 1, 5 } };
    static const pixman_box16_t b16[3] = { { 0, 0, 2, 1 }, { 1, 2, 3, 3 }, { 0, 4, 1, 5 } };
    int use16 = (cv >> 1) & 1, n;
    pixman_bool_t r;
    if (v == 0)
    {
	la_on = 1;
	r = use16 ? pixman_image_set_clip_region (im, NULL) : pixman_image_set_clip_region32 (im, NULL);
	la_on = 0;
	return r;
    }
    n = v == 1 ? (cv & 1 ? 0 : 1) : (cv & 1 ? 3 : 2);
    if (use16)
    {
	pixman_region16_t reg;
	pixman_region_init_rects (&reg, b16, n);
	la_on = 1;
	r = pixman_image_set_clip_region (im, &reg);
	la_on = 0;
	pixman_region_fini (&reg);
    }
    else
    {
	pixman_region32_t reg;
	pixman_region32_init_rects (&reg, b32, n);
	la_on = 1;
	r = pixman_image_set_clip_region32 (im, &reg);
	la_on = 0;
	pixman_region32_fini (&reg);
    }
    return r;
}

/* the concrete keys of a new cache.  layout 0: key k is glyph key k (the library's hash decides where it lives);
 * layout 1: key k is the first glyph key whose home slot is k mod HASH_SIZE, so that no two keys collide and
 * the specification's generator (LifeGen, pressure mode) knows which removals leave a tombstone */
static void
choose_keys (int layout)
{
    int k, hsize = _pixman_verif_glyph_dump (cache, 0, NULL, NULL, NULL, NULL, NULL, NULL);
    intptr_t g = 1;
    for (k = 1; k <= NKEY; k++)
    {
	if (!layout)
	{
	    gkey[k] = k;
	    continue;
	}
	while ((int)_pixman_verif_glyph_hash ((void *)0x100, (void *)g) != k % hsize)
	    g++;
	gkey[k] = g++;
    }
}

static void
log_op (const char *op, int i, int j, int v, int cv, int ret, const int *press)
{
    int n;
    vt_begin ("Op");
    vt_str ("op", op); vt_int ("i", i); vt_int ("j", j); vt_int ("v", v); vt_int ("cv", cv);
    vt_bool ("ret", ret);
    vt_bool ("ovf", la_overflow);
    /* the glyph table before the call: live glyphs, tombstones, high- and low-water mark (hook H1) */
    fprintf (vt_out, ",\"press\":[%d,%d,%d,%d]", press[0], press[1], press[3], press[4]);
    fputs (",\"sub\":[", vt_out);
    for (n = 0; n < la_nsub; n++)
	fprintf (vt_out, "%s{\"k\":\"%c\",\"a\":%d,\"b\":%d,\"c\":%d}", n ? "," : "",
		 la_sub[n].k, la_sub[n].a, la_sub[n].b, la_sub[n].c);
    fputs ("]", vt_out);
    vt_end ();
}

static void
warm_up (void)
{
    /* everything pixman allocates once per process (implementations, ...) happens here, unrecorded */
    int k;
    pixman_color_t white = { 0xffff, 0xffff, 0xffff, 0xffff };
    scratch = pixman_image_create_bits (PIXMAN_a8r8g8b8, 2, 2, NULL, 0);
    solid = pixman_image_create_solid_fill (&white);
    for (k = 1; k <= 6; k++)
    {
	pixman_image_t *s = do_create (1, k, 0);
	pixman_image_composite32 (PIXMAN_OP_OVER, s, NULL, scratch, 0, 0, 0, 0, 0, 0, 2, 2);
	pixman_image_unref (s);
    }
    cache = pixman_glyph_cache_create ();
    pixman_glyph_cache_freeze (cache);
    {
	pixman_image_t *s = do_create (1, 1, 0);
	pixman_glyph_t g1;
	g1.x = 0; g1.y = 0;
	g1.glyph = pixman_glyph_cache_insert (cache, (void *)0x100, (void *)1, 0, 0, s);
	pixman_composite_glyphs (PIXMAN_OP_OVER, solid, scratch, PIXMAN_a8, 0, 0, 0, 0, 0, 0, 2, 2, cache, 1, &g1);
	pixman_composite_glyphs_no_mask (PIXMAN_OP_OVER, solid, scratch, 0, 0, 0, 0, cache, 1, &g1);
	pixman_glyph_cache_remove (cache, (void *)0x100, (void *)1);
	pixman_image_unref (s);
    }
    pixman_glyph_cache_thaw (cache);
    pixman_glyph_cache_destroy (cache);
    cache = NULL;
}

int
main (int argc, char **argv)
{
    FILE *in;
    char op[32], name[128];
    if (argc < 3)
    {
	fprintf (stderr, "usage: drv_life script trace\n");
	return 3;
    }
    in = fopen (argv[1], "r");
    if (!in) { perror (argv[1]); return 3; }
    vt_open (argv[2]);
    la_on = 0;
    warm_up ();
    _pixman_verif_sink = sink;
    while (fscanf (in, "%31s", op) == 1)
    {
	int i, j, v, cv, ret = 1;
	int press[5] = { 0, 0, 0, 0, 0 };
	if (!strcmp (op, "reset"))
	{
	    if (fscanf (in, "%127s", name) != 1) return 3;
	    memset (img, 0, sizeof img);
	    la_reset ();
	    cache = NULL;	/* the script creates and destroys the glyph cache (gcreate / gdestroy) */
	    vt_reset (name);
	    continue;
	}
	if (!strcmp (op, "end"))
	{
	    vt_begin ("End");
	    vt_int ("pending", la_nsub);	/* sub-events recorded outside any call: there are none */
	    vt_end ();
	    continue;
	}
	if (fscanf (in, "%d %d %d %d", &i, &j, &v, &cv) != 4) return 3;
	if (i < 0 || i > NSLOT || j < 0 || j > (op[0] == 'g' ? NKEY : NSLOT)) return 3;
	if (cache)
	    _pixman_verif_glyph_dump (cache, 0, NULL, NULL, NULL, press, NULL, NULL);
	la_clear ();
	if (!strcmp (op, "create"))
	{
	    memset (ext_buf[i], 0x5a, sizeof ext_buf[i]);
	    la_on = 1;
	    img[i] = do_create (i, v, cv);
	    la_on = 0;
	    ret = img[i] != NULL;
	}
	else if (!strcmp (op, "ref"))
	{
	    la_on = 1;
	    pixman_image_ref (img[i]);
	    la_on = 0;
	}
	else if (!strcmp (op, "unref"))
	{
	    pixman_image_t *p = img[i];
	    la_on = 1;
	    ret = pixman_image_unref (p);
	    la_on = 0;
	}
	else if (!strcmp (op, "alpha"))
	{
	    la_on = 1;
	    pixman_image_set_alpha_map (img[i], j ? img[j] : NULL, (int16_t)(cv & 1), (int16_t)-(cv & 1));
	    la_on = 0;
	}
	else if (!strcmp (op, "transform"))
	{
	    la_on = 1;
	    ret = do_transform (img[i], v, cv);
	    la_on = 0;
	}
	else if (!strcmp (op, "filter"))
	{
	    la_on = 1;
	    ret = do_filter (img[i], v, cv);
	    la_on = 0;
	}
	else if (!strcmp (op, "clip"))
	    ret = do_clip (img[i], v, cv);
	else if (!strcmp (op, "destroyfn"))
	{
	    la_on = 1;
	    pixman_image_set_destroy_function (img[i], v ? on_destroy : NULL, (void *)(intptr_t)v);
	    la_on = 0;
	}
	else if (!strcmp (op, "use"))
	{
	    la_on = 1;
	    pixman_image_composite32 (PIXMAN_OP_OVER, img[i], NULL, scratch, 0, 0, 0, 0, 0, 0, 2, 2);
	    la_on = 0;
	}
	else if (!strcmp (op, "ginsert"))
	{
	    /* cv = 1: a zero-size image is inserted instead of the pool image (the copy has no pixel buffer) */
	    pixman_image_t *arg = cv == 1 ? pixman_image_create_bits (PIXMAN_a8, 0, 0, NULL, 0) : img[i];
	    la_on = 1;
	    ret = pixman_glyph_cache_insert (cache, (void *)0x100, (void *)gkey[j], 1, 1, arg) != NULL;
	    la_on = 0;
	    if (cv == 1)
		pixman_image_unref (arg);
	}
	else if (!strcmp (op, "gbad"))
	{
	    /* an image the cache cannot copy: width * bpp overflows, so creating the private copy fails */
	    static uint32_t one_pixel[4];
	    pixman_image_t *wide = pixman_image_create_bits (PIXMAN_a8r8g8b8, 1 << 26, 1, one_pixel, 4);
	    if (!wide) return 3;
	    la_on = 1;
	    ret = pixman_glyph_cache_insert (cache, (void *)0x100, (void *)gkey[j], 0, 0, wide) != NULL;
	    la_on = 0;
	    pixman_image_unref (wide);
	}
	else if (!strcmp (op, "gcreate"))
	{
	    la_on = 1;
	    cache = pixman_glyph_cache_create ();
	    if (cache)
		pixman_glyph_cache_freeze (cache);
	    la_on = 0;
	    ret = cache != NULL;
	    if (cache)
		choose_keys (v);
	}
	else if (!strcmp (op, "gdestroy"))
	{
	    la_on = 1;
	    pixman_glyph_cache_thaw (cache);
	    pixman_glyph_cache_destroy (cache);
	    la_on = 0;
	    cache = NULL;
	}
	else if (!strcmp (op, "gthaw"))
	{
	    la_on = 1;
	    pixman_glyph_cache_thaw (cache);	/* may evict */
	    pixman_glyph_cache_freeze (cache);
	    la_on = 0;
	}
	else if (!strcmp (op, "glookup"))
	{
	    la_on = 1;
	    ret = pixman_glyph_cache_lookup (cache, (void *)0x100, (void *)gkey[j]) != NULL;
	    la_on = 0;
	}
	else if (!strcmp (op, "gcomp"))
	{
	    /* draw every glyph the cache reports for the keys 1..NKEY (v = 0: through a mask, 1: directly) */
	    pixman_glyph_t gl[NKEY];
	    int k, n = 0;
	    for (k = 1; k <= NKEY; k++)
	    {
		const void *g = pixman_glyph_cache_lookup (cache, (void *)0x100, (void *)gkey[k]);
		if (g)
		{
		    gl[n].x = 1 + n;
		    gl[n].y = 1;
		    gl[n].glyph = g;
		    n++;
		}
	    }
	    la_on = 1;
	    if (v == 0)
		pixman_composite_glyphs (PIXMAN_OP_OVER, solid, scratch, PIXMAN_a8, 0, 0, 0, 0, 0, 0, 2, 2, cache, n, gl);
	    else
		pixman_composite_glyphs_no_mask (PIXMAN_OP_OVER, solid, scratch, 0, 0, 0, 0, cache, n, gl);
	    la_on = 0;
	}
	else if (!strcmp (op, "gremove"))
	{
	    la_on = 1;
	    pixman_glyph_cache_remove (cache, (void *)0x100, (void *)gkey[j]);
	    la_on = 0;
	}
	else
	    return 3;
	log_op (op, i, j, v, cv, ret, press);
	la_clear ();
    }
    vt_close ();
    return 0;
}
