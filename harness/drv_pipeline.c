/* Pipeline conformance driver (root specification spec/Pixman.tla): regions are built by region calls, attached to
 * images as clips (destination clip, or source clip with source clipping enabled) and consumed by
 * pixman_image_composite32 on a8r8g8b8 images.  Logs what the API shows after every call; never judges.
 *
 * script lines:
 *   R name                         new execution
 *   r init v n x1 y1 x2 y2 ...     region v := rectangles
 *   r union|intersect|subtract d a b
 *   r translate v dx dy
 *   I id w h seed fmt              (re)create image id with pixels from seed (fmt 0 a8r8g8b8, 1 x8r8g8b8, 2 a8)
 *   F id a r g b                   (re)create image id as a solid fill (16-bit channels)
 *   K id v                         set clip of image id to region v          (v = 0: remove the clip)
 *   S id on                        pixman_image_set_source_clipping + has_client_clip as the library requires
 *   P id rep                       pixman_image_set_repeat
 *   T id tx ty                     pixman_image_set_transform (integer translation)
 *   A id on                        pixman_image_set_component_alpha
 *   M id a ax ay                   pixman_image_set_alpha_map (a = 0: detach)
 *   G id / U id                    pixman_image_ref / pixman_image_unref (the return value is logged)
 *   C op s m d sx sy mx my dx dy w h        (m = 0: no mask)
 *   B op d a r g b n x1 y1 x2 y2 ...        pixman_image_fill_boxes
 */
#include "vcommon.h"
#include <pixman.h>

#define NIMG 8
static pixman_region32_t regs[4];
static pixman_image_t *imgs[NIMG];
static uint32_t *bits[NIMG];
static int iw[NIMG], ih[NIMG], ifmt[NIMG], istride[NIMG];
static const char *fmt_names[] = { "a8r8g8b8", "x8r8g8b8", "a8" };

static void
log_pixels (const char *k, int id)
{
    int x, y, first = 1;
    fprintf (vt_out, ",\"%s\":[", k);
    for (y = 0; y < ih[id]; y++)
	for (x = 0; x < iw[id]; x++)
	{
	    if (ifmt[id] == 2)
		fprintf (vt_out, "%s[%u,0,0,0]", first ? "" : ",", ((uint8_t *)bits[id])[y * istride[id] + x]);
	    else
	    {
		uint32_t p = bits[id][y * (istride[id] / 4) + x];
		fprintf (vt_out, "%s[%u,%u,%u,%u]", first ? "" : ",", p >> 24, (p >> 16) & 0xff, (p >> 8) & 0xff, p & 0xff);
	    }
	    first = 0;
	}
    fputc (']', vt_out);
}

static void
log_region (int v)
{
    int n, j;
    pixman_box32_t *b = pixman_region32_rectangles (&regs[v], &n);
    fprintf (vt_out, ",\"rects\":[");
    for (j = 0; j < n; j++)
	fprintf (vt_out, "%s[%d,%d,%d,%d]", j ? "," : "", b[j].x1, b[j].y1, b[j].x2, b[j].y2);
    fputc (']', vt_out);
}

int
main (int argc, char **argv)
{
    FILE *in;
    char kind[8], op[32];
    int i, first = 1;
    if (argc < 3)
	return 3;
    in = fopen (argv[1], "r");
    if (!in) { perror (argv[1]); return 3; }
    vt_open (argv[2]);
    while (fscanf (in, "%7s", kind) == 1)
    {
	if (kind[0] == 'R')
	{
	    char name[128];
	    if (fscanf (in, "%127s", name) != 1) return 3;
	    for (i = 0; i < 4; i++)
	    {
		if (!first) pixman_region32_fini (&regs[i]);
		pixman_region32_init (&regs[i]);
	    }
	    for (i = 0; i < NIMG; i++)
	    {
		if (imgs[i]) pixman_image_unref (imgs[i]);
		free (bits[i]);
		imgs[i] = NULL; bits[i] = NULL;
	    }
	    first = 0;
	    vt_reset (name);
	}
	else if (kind[0] == 'r')
	{
	    int v = 0;
	    if (fscanf (in, "%31s", op) != 1) return 3;
	    if (!strcmp (op, "init"))
	    {
		int n, j;
		pixman_box32_t b[64];
		if (fscanf (in, "%d %d", &v, &n) != 2 || n > 64) return 3;
		for (j = 0; j < n; j++)
		    if (fscanf (in, "%d %d %d %d", &b[j].x1, &b[j].y1, &b[j].x2, &b[j].y2) != 4) return 3;
		pixman_region32_fini (&regs[v]);
		pixman_region32_init_rects (&regs[v], b, n);
	    }
	    else if (!strcmp (op, "translate"))
	    {
		int dx, dy;
		if (fscanf (in, "%d %d %d", &v, &dx, &dy) != 3) return 3;
		pixman_region32_translate (&regs[v], dx, dy);
	    }
	    else
	    {
		int a, b;
		if (fscanf (in, "%d %d %d", &v, &a, &b) != 3) return 3;
		if (!strcmp (op, "union")) pixman_region32_union (&regs[v], &regs[a], &regs[b]);
		else if (!strcmp (op, "intersect")) pixman_region32_intersect (&regs[v], &regs[a], &regs[b]);
		else pixman_region32_subtract (&regs[v], &regs[a], &regs[b]);
	    }
	    vt_begin ("RegOp"); vt_str ("op", op); vt_int ("v", v); log_region (v); vt_end ();
	}
	else if (kind[0] == 'I')
	{
	    int id, w, h, fmt, nw;
	    long long seed;
	    vrng_t rng;
	    if (fscanf (in, "%d %d %d %lld %d", &id, &w, &h, &seed, &fmt) != 5) return 3;
	    if (imgs[id]) pixman_image_unref (imgs[id]);
	    free (bits[id]);
	    ifmt[id] = fmt;
	    istride[id] = fmt == 2 ? ((w + 3) & ~3) : 4 * w;
	    nw = istride[id] / 4 * h;
	    bits[id] = malloc (4 * nw);
	    vrng_seed (&rng, (uint64_t)seed);
	    for (i = 0; i < nw; i++)
	    {
		uint32_t v = (uint32_t)vrng_next (&rng);
		switch (vrng_below (&rng, 8))
		{
		case 0: v = 0; break;
		case 1: v = 0xffffffff; break;
		case 2: v |= 0xff000000; break;
		case 3: v &= 0x00ffffff; break;
		default: break;
		}
		bits[id][i] = v;
	    }
	    iw[id] = w; ih[id] = h;
	    imgs[id] = pixman_image_create_bits (fmt == 0 ? PIXMAN_a8r8g8b8 : fmt == 1 ? PIXMAN_x8r8g8b8 : PIXMAN_a8,
						 w, h, bits[id], istride[id]);
	    vt_begin ("Img"); vt_int ("id", id); vt_int ("w", w); vt_int ("h", h); vt_str ("fmt", fmt_names[fmt]);
	    log_pixels ("px", id); vt_end ();
	}
	else if (kind[0] == 'F')
	{
	    int id, a, r, g, b;
	    pixman_color_t c;
	    if (fscanf (in, "%d %d %d %d %d", &id, &a, &r, &g, &b) != 5) return 3;
	    if (imgs[id]) pixman_image_unref (imgs[id]);
	    free (bits[id]); bits[id] = NULL;
	    c.alpha = a; c.red = r; c.green = g; c.blue = b;
	    imgs[id] = pixman_image_create_solid_fill (&c);
	    vt_begin ("Solid"); vt_int ("id", id);
	    fprintf (vt_out, ",\"col\":[%d,%d,%d,%d]", a, r, g, b);
	    vt_end ();
	}
	else if (kind[0] == 'P')
	{
	    int id, rep;
	    if (fscanf (in, "%d %d", &id, &rep) != 2) return 3;
	    pixman_image_set_repeat (imgs[id], (pixman_repeat_t)rep);
	    vt_begin ("SetRepeat"); vt_int ("id", id); vt_int ("rep", rep); vt_end ();
	}
	else if (kind[0] == 'T')
	{
	    int id, tx, ty;
	    pixman_transform_t t;
	    if (fscanf (in, "%d %d %d", &id, &tx, &ty) != 3) return 3;
	    pixman_transform_init_translate (&t, pixman_int_to_fixed (tx), pixman_int_to_fixed (ty));
	    pixman_image_set_transform (imgs[id], &t);
	    vt_begin ("SetTranslation"); vt_int ("id", id); vt_int ("tx", tx); vt_int ("ty", ty); vt_end ();
	}
	else if (kind[0] == 'A')
	{
	    int id, on;
	    if (fscanf (in, "%d %d", &id, &on) != 2) return 3;
	    pixman_image_set_component_alpha (imgs[id], on);
	    vt_begin ("SetCA"); vt_int ("id", id); vt_bool ("on", on); vt_end ();
	}
	else if (kind[0] == 'M')
	{
	    int id, a, ax, ay;
	    if (fscanf (in, "%d %d %d %d", &id, &a, &ax, &ay) != 4) return 3;
	    pixman_image_set_alpha_map (imgs[id], a ? imgs[a] : NULL, (int16_t)ax, (int16_t)ay);
	    vt_begin ("SetAlphaMap"); vt_int ("id", id); vt_int ("a", a); vt_int ("ax", ax); vt_int ("ay", ay); vt_end ();
	}
	else if (kind[0] == 'G')
	{
	    int id;
	    if (fscanf (in, "%d", &id) != 1) return 3;
	    pixman_image_ref (imgs[id]);
	    vt_begin ("Ref"); vt_int ("id", id); vt_end ();
	}
	else if (kind[0] == 'U')
	{
	    int id, gone;
	    if (fscanf (in, "%d", &id) != 1) return 3;
	    gone = pixman_image_unref (imgs[id]);
	    if (gone) imgs[id] = NULL;       /* the pixels stay allocated until the next execution */
	    vt_begin ("Unref"); vt_int ("id", id); vt_bool ("gone", gone); vt_end ();
	}
	else if (kind[0] == 'B')
	{
	    int o, d, a, r, g, b, n, j;
	    pixman_color_t c;
	    pixman_box32_t bx[16];
	    if (fscanf (in, "%d %d %d %d %d %d %d", &o, &d, &a, &r, &g, &b, &n) != 7 || n > 16) return 3;
	    for (j = 0; j < n; j++)
		if (fscanf (in, "%d %d %d %d", &bx[j].x1, &bx[j].y1, &bx[j].x2, &bx[j].y2) != 4) return 3;
	    c.alpha = a; c.red = r; c.green = g; c.blue = b;
	    pixman_image_fill_boxes ((pixman_op_t)o, imgs[d], &c, n, bx);
	    vt_begin ("Fill"); vt_int ("op", o); vt_int ("d", d);
	    fprintf (vt_out, ",\"col\":[%d,%d,%d,%d],\"boxes\":[", a, r, g, b);
	    for (j = 0; j < n; j++)
		fprintf (vt_out, "%s[%d,%d,%d,%d]", j ? "," : "", bx[j].x1, bx[j].y1, bx[j].x2, bx[j].y2);
	    fputc (']', vt_out);
	    log_pixels ("after", d);
	    vt_end ();
	}
	else if (kind[0] == 'K')
	{
	    int id, v;
	    if (fscanf (in, "%d %d", &id, &v) != 2) return 3;
	    pixman_image_set_clip_region32 (imgs[id], v ? &regs[v] : NULL);
	    vt_begin ("SetClip"); vt_int ("id", id); vt_int ("v", v); vt_end ();
	}
	else if (kind[0] == 'S')
	{
	    int id, on;
	    if (fscanf (in, "%d %d", &id, &on) != 2) return 3;
	    pixman_image_set_source_clipping (imgs[id], on);
	    pixman_image_set_has_client_clip (imgs[id], on);
	    vt_begin ("SrcClip"); vt_int ("id", id); vt_bool ("on", on); vt_end ();
	}
	else if (kind[0] == 'C')
	{
	    int o, s, m, d, sx, sy, mx, my, dx, dy, w, h;
	    if (fscanf (in, "%d %d %d %d %d %d %d %d %d %d %d %d", &o, &s, &m, &d, &sx, &sy, &mx, &my, &dx, &dy, &w, &h) != 12)
		return 3;
	    pixman_image_composite32 ((pixman_op_t)o, imgs[s], m ? imgs[m] : NULL, imgs[d], sx, sy, mx, my, dx, dy, w, h);
	    vt_begin ("Comp");
	    vt_int ("op", o); vt_int ("s", s); vt_int ("m", m); vt_int ("d", d); vt_int ("sx", sx); vt_int ("sy", sy);
	    vt_int ("mx", mx); vt_int ("my", my);
	    vt_int ("dx", dx); vt_int ("dy", dy); vt_int ("w", w); vt_int ("h", h);
	    log_pixels ("after", d);
	    vt_end ();
	}
    }
    vt_close ();
    return 0;
}
