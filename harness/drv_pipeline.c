/* Pipeline conformance driver (root specification spec/Pixman.tla): regions are built by region calls, attached to
 * images as clips (destination clip, or source clip with source clipping enabled) and consumed by
 * pixman_image_composite32 on a8r8g8b8 images.  Logs what the API shows after every call; never judges.
 *
 * script lines:
 *   R name                         new execution
 *   r init v n x1 y1 x2 y2 ...     region v := rectangles
 *   r union|intersect|subtract d a b
 *   r translate v dx dy
 *   I id w h seed                  (re)create image id with pixels from seed
 *   K id v                         set clip of image id to region v          (v = 0: remove the clip)
 *   S id on                        pixman_image_set_source_clipping + has_client_clip as the library requires
 *   C op s d sx sy dx dy w h
 */
#include "vcommon.h"
#include <pixman.h>

#define NIMG 4
static pixman_region32_t regs[4];
static pixman_image_t *imgs[NIMG];
static uint32_t *bits[NIMG];
static int iw[NIMG], ih[NIMG];

static void
log_pixels (const char *k, int id)
{
    int i, n = iw[id] * ih[id];
    fprintf (vt_out, ",\"%s\":[", k);
    for (i = 0; i < n; i++)
    {
	uint32_t p = bits[id][i];
	fprintf (vt_out, "%s[%u,%u,%u,%u]", i ? "," : "", p >> 24, (p >> 16) & 0xff, (p >> 8) & 0xff, p & 0xff);
    }
    fputc (']', vt_out);
}

static void
log_region (int v)
{
    int n, j;
    pixman_box32_t *b = pixman_region32_rectangles (&regs[v], &n);
    fprintf (vt_out, ",\"rects\":[");
    for (j = 0; j < n; j++)
	fprintf (vt_out, "%s[%d,%d,%d,%d]", j ? "," : "", b[j].x1, b[j].y1, b[j].x2, b[j].y2);
    fputc (']', vt_out);
}

int
main (int argc, char **argv)
{
    FILE *in;
    char kind[8], op[32];
    int i, first = 1;
    if (argc < 3)
	return 3;
    in = fopen (argv[1], "r");
    if (!in) { perror (argv[1]); return 3; }
    vt_open (argv[2]);
    while (fscanf (in, "%7s", kind) == 1)
    {
	if (kind[0] == 'R')
	{
	    char name[128];
	    if (fscanf (in, "%127s", name) != 1) return 3;
	    for (i = 0; i < 4; i++)
	    {
		if (!first) pixman_region32_fini (&regs[i]);
		pixman_region32_init (&regs[i]);
	    }
	    for (i = 0; i < NIMG; i++)
	    {
		if (imgs[i]) pixman_image_unref (imgs[i]);
		free (bits[i]);
		imgs[i] = NULL; bits[i] = NULL;
	    }
	    first = 0;
	    vt_reset (name);
	}
	else if (kind[0] == 'r')
	{
	    int v = 0;
	    if (fscanf (in, "%31s", op) != 1) return 3;
	    if (!strcmp (op, "init"))
	    {
		int n, j;
		pixman_box32_t b[64];
		if (fscanf (in, "%d %d", &v, &n) != 2 || n > 64) return 3;
		for (j = 0; j < n; j++)
		    if (fscanf (in, "%d %d %d %d", &b[j].x1, &b[j].y1, &b[j].x2, &b[j].y2) != 4) return 3;
		pixman_region32_fini (&regs[v]);
		pixman_region32_init_rects (&regs[v], b, n);
	    }
	    else if (!strcmp (op, "translate"))
	    {
		int dx, dy;
		if (fscanf (in, "%d %d %d", &v, &dx, &dy) != 3) return 3;
		pixman_region32_translate (&regs[v], dx, dy);
	    }
	    else
	    {
		int a, b;
		if (fscanf (in, "%d %d %d", &v, &a, &b) != 3) return 3;
		if (!strcmp (op, "union")) pixman_region32_union (&regs[v], &regs[a], &regs[b]);
		else if (!strcmp (op, "intersect")) pixman_region32_intersect (&regs[v], &regs[a], &regs[b]);
		else pixman_region32_subtract (&regs[v], &regs[a], &regs[b]);
	    }
	    vt_begin ("RegOp"); vt_str ("op", op); vt_int ("v", v); log_region (v); vt_end ();
	}
	else if (kind[0] == 'I')
	{
	    int id, w, h;
	    long long seed;
	    vrng_t rng;
	    if (fscanf (in, "%d %d %d %lld", &id, &w, &h, &seed) != 4) return 3;
	    if (imgs[id]) pixman_image_unref (imgs[id]);
	    free (bits[id]);
	    bits[id] = malloc (4 * w * h);
	    vrng_seed (&rng, (uint64_t)seed);
	    for (i = 0; i < w * h; i++)
	    {
		uint32_t v = (uint32_t)vrng_next (&rng);
		switch (vrng_below (&rng, 8))
		{
		case 0: v = 0; break;
		case 1: v = 0xffffffff; break;
		case 2: v |= 0xff000000; break;
		case 3: v &= 0x00ffffff; break;
		default: break;
		}
		bits[id][i] = v;
	    }
	    iw[id] = w; ih[id] = h;
	    imgs[id] = pixman_image_create_bits (PIXMAN_a8r8g8b8, w, h, bits[id], w * 4);
	    vt_begin ("Img"); vt_int ("id", id); vt_int ("w", w); vt_int ("h", h); log_pixels ("px", id); vt_end ();
	}
	else if (kind[0] == 'K')
	{
	    int id, v;
	    if (fscanf (in, "%d %d", &id, &v) != 2) return 3;
	    pixman_image_set_clip_region32 (imgs[id], v ? &regs[v] : NULL);
	    vt_begin ("SetClip"); vt_int ("id", id); vt_int ("v", v); vt_end ();
	}
	else if (kind[0] == 'S')
	{
	    int id, on;
	    if (fscanf (in, "%d %d", &id, &on) != 2) return 3;
	    pixman_image_set_source_clipping (imgs[id], on);
	    pixman_image_set_has_client_clip (imgs[id], on);
	    vt_begin ("SrcClip"); vt_int ("id", id); vt_bool ("on", on); vt_end ();
	}
	else if (kind[0] == 'C')
	{
	    int o, s, d, sx, sy, dx, dy, w, h;
	    if (fscanf (in, "%d %d %d %d %d %d %d %d %d", &o, &s, &d, &sx, &sy, &dx, &dy, &w, &h) != 9) return 3;
	    pixman_image_composite32 ((pixman_op_t)o, imgs[s], NULL, imgs[d], sx, sy, 0, 0, dx, dy, w, h);
	    vt_begin ("Comp");
	    vt_int ("op", o); vt_int ("s", s); vt_int ("d", d); vt_int ("sx", sx); vt_int ("sy", sy);
	    vt_int ("dx", dx); vt_int ("dy", dy); vt_int ("w", w); vt_int ("h", h);
	    log_pixels ("after", d);
	    vt_end ();
	}
    }
    vt_close ();
    return 0;
}
