/* See life_alloc.h. */
#include <stddef.h>
#include <stdint.h>
#include <string.h>
#include "life_alloc.h"

void *__real_malloc (size_t);
void *__real_calloc (size_t, size_t);
void *__real_realloc (void *, size_t);
void __real_free (void *);

la_ev_t la_sub[LA_MAXSUB];
int la_nsub, la_overflow, la_on;

#define LA_TAB 4096
static struct { void *p; int id; } tab[LA_TAB];
static int ntab, next_id = 1;

void
la_push (char k, int a, int b, int c)
{
    if (la_nsub >= LA_MAXSUB)
    {
	la_overflow = 1;
	return;
    }
    la_sub[la_nsub].k = k;
    la_sub[la_nsub].a = a;
    la_sub[la_nsub].b = b;
    la_sub[la_nsub].c = c;
    la_nsub++;
}

void la_clear (void) { la_nsub = 0; la_overflow = 0; }
void la_reset (void) { la_clear (); ntab = 0; next_id = 1; }

static void
note_malloc (void *p, size_t size)
{
    int i;
    if (!p)
	return;
    for (i = 0; i < ntab; i++)
	if (tab[i].p == p)
	    break;
    if (i == ntab)
    {
	if (ntab == LA_TAB)
	{
	    la_overflow = 1;
	    return;
	}
	ntab++;
    }
    tab[i].p = p;
    tab[i].id = next_id++;
    la_push ('M', tab[i].id, size > 0x7fffffff ? 0x7fffffff : (int)size, 0);
}

static void
note_free (void *p)
{
    int i, id = 0;
    if (!p)
	return;			/* free (NULL) is not an event */
    for (i = 0; i < ntab; i++)
    {
	if (tab[i].p == p)
	{
	    id = tab[i].id;
	    tab[i] = tab[--ntab];
	    break;
	}
    }
    la_push ('F', id, 0, 0);
}

void *
__wrap_malloc (size_t n)
{
    void *p = __real_malloc (n);
    if (la_on)
	note_malloc (p, n);
    return p;
}

void *
__wrap_calloc (size_t a, size_t b)
{
    void *p = __real_calloc (a, b);
    if (la_on)
	note_malloc (p, a * b);
    return p;
}

void *
__wrap_realloc (void *old, size_t n)
{
    void *p;
    if (la_on && old && n)
	note_free (old);	/* recorded as free + malloc */
    p = __real_realloc (old, n);
    if (la_on)
    {
	if (old && !n)
	    note_free (old);
	else if (p)
	    note_malloc (p, n);
	else if (old)
	    note_malloc (old, 0);	/* failed: the old block is still live */
    }
    return p;
}

void
__wrap_free (void *p)
{
    if (la_on)
	note_free (p);
    __real_free (p);
}
