/* Shared by drv_fill.c (C19) and drv_frame.c (C03): images placed inside logged guard buffers,
 * clip / alpha-map set-up, the Setup event, pixman_image_fill_boxes / _rectangles.
 * Executor + logger only: nothing here compares an expected with an actual value. */
#ifndef FRAME_COMMON_H
#define FRAME_COMMON_H
#include "vcommon.h"
#include <pixman.h>

typedef struct { const char *name; pixman_format_code_t code; } fc_fmt_t;
static const fc_fmt_t fc_fmts[] = {
    { "a8r8g8b8", PIXMAN_a8r8g8b8 }, { "x8r8g8b8", PIXMAN_x8r8g8b8 }, { "a8b8g8r8", PIXMAN_a8b8g8r8 },
    { "x8b8g8r8", PIXMAN_x8b8g8r8 }, { "b8g8r8a8", PIXMAN_b8g8r8a8 }, { "b8g8r8x8", PIXMAN_b8g8r8x8 },
    { "r8g8b8a8", PIXMAN_r8g8b8a8 }, { "r8g8b8x8", PIXMAN_r8g8b8x8 }, { "x14r6g6b6", PIXMAN_x14r6g6b6 },
    { "a2r10g10b10", PIXMAN_a2r10g10b10 }, { "x2r10g10b10", PIXMAN_x2r10g10b10 },
    { "a2b10g10r10", PIXMAN_a2b10g10r10 }, { "x2b10g10r10", PIXMAN_x2b10g10r10 },
    { "r8g8b8", PIXMAN_r8g8b8 }, { "b8g8r8", PIXMAN_b8g8r8 }, { "r5g6b5", PIXMAN_r5g6b5 }, { "b5g6r5", PIXMAN_b5g6r5 },
    { "a1r5g5b5", PIXMAN_a1r5g5b5 }, { "x1r5g5b5", PIXMAN_x1r5g5b5 }, { "a4r4g4b4", PIXMAN_a4r4g4b4 },
    { "x4b4g4r4", PIXMAN_x4b4g4r4 }, { "a8", PIXMAN_a8 }, { "r3g3b2", PIXMAN_r3g3b2 }, { "a2r2g2b2", PIXMAN_a2r2g2b2 },
    { "x4a4", PIXMAN_x4a4 }, { "a4", PIXMAN_a4 }, { "r1g2b1", PIXMAN_r1g2b1 }, { "a1r1g1b1", PIXMAN_a1r1g1b1 },
    { "a1", PIXMAN_a1 }, { "rgba_float", PIXMAN_rgba_float }, { "rgb_float", PIXMAN_rgb_float },
    /* the rest of pixman.h's list (x4c4 / x4g4 have the codes of c8 / g8; yuy2 / yv12 are not destinations) */
    { "a8r8g8b8_sRGB", PIXMAN_a8r8g8b8_sRGB }, { "a1b5g5r5", PIXMAN_a1b5g5r5 }, { "x1b5g5r5", PIXMAN_x1b5g5r5 },
    { "x4r4g4b4", PIXMAN_x4r4g4b4 }, { "a4b4g4r4", PIXMAN_a4b4g4r4 }, { "b2g3r3", PIXMAN_b2g3r3 },
    { "a2b2g2r2", PIXMAN_a2b2g2r2 }, { "b1g2r1", PIXMAN_b1g2r1 }, { "a1b1g1r1", PIXMAN_a1b1g1r1 },
    { "c8", PIXMAN_c8 }, { "g8", PIXMAN_g8 }, { "c4", PIXMAN_c4 }, { "g4", PIXMAN_g4 }, { "g1", PIXMAN_g1 },
};

/* a palette for the indexed / gray formats: any fixed total mapping will do (the drivers compare two routes of the
 * same library, TLC the bits) */
static const pixman_indexed_t *
fc_palette (pixman_format_code_t code)
{
    static pixman_indexed_t color, gray[9];
    static int have_color, have_gray[9];
    int bpp = PIXMAN_FORMAT_BPP (code), i;
    if (PIXMAN_FORMAT_TYPE (code) == PIXMAN_TYPE_COLOR)
    {
	if (!have_color)
	{
	    color.color = 1;
	    for (i = 0; i < 256; i++)
		color.rgba[i] = 0xff000000u | ((uint32_t)i * 0x9e3779u & 0xffffff);
	    for (i = 0; i < 32768; i++)
		color.ent[i] = (uint8_t)(((uint32_t)i * 2654435761u) >> 20);
	    have_color = 1;
	}
	return &color;
    }
    if (!have_gray[bpp])
    {
	pixman_indexed_t *g = &gray[bpp];
	int n = 1 << bpp;
	g->color = 0;
	for (i = 0; i < 256; i++)
	{
	    uint32_t l = (uint32_t)(i % n) * 255 / (n - 1);
	    g->rgba[i] = 0xff000000u | l << 16 | l << 8 | l;
	}
	for (i = 0; i < 32768; i++)
	    g->ent[i] = (uint8_t)(i >> (15 - bpp));
	have_gray[bpp] = 1;
    }
    return &gray[bpp];
}

static pixman_format_code_t
fc_format (const char *name)
{
    size_t i;
    for (i = 0; i < sizeof fc_fmts / sizeof fc_fmts[0]; i++)
	if (!strcmp (fc_fmts[i].name, name))
	    return fc_fmts[i].code;
    fprintf (stderr, "unknown format %s\n", name);
    exit (3);
}

static const char *fc_opnames[] = {
    "CLEAR", "SRC", "DST", "OVER", "OVER_REVERSE", "IN", "IN_REVERSE", "OUT", "OUT_REVERSE", "ATOP", "ATOP_REVERSE",
    "XOR", "ADD", "SATURATE", NULL, NULL,
    "DISJOINT_CLEAR", "DISJOINT_SRC", "DISJOINT_DST", "DISJOINT_OVER", "DISJOINT_OVER_REVERSE", "DISJOINT_IN",
    "DISJOINT_IN_REVERSE", "DISJOINT_OUT", "DISJOINT_OUT_REVERSE", "DISJOINT_ATOP", "DISJOINT_ATOP_REVERSE",
    "DISJOINT_XOR", NULL, NULL, NULL, NULL,
    "CONJOINT_CLEAR", "CONJOINT_SRC", "CONJOINT_DST", "CONJOINT_OVER", "CONJOINT_OVER_REVERSE", "CONJOINT_IN",
    "CONJOINT_IN_REVERSE", "CONJOINT_OUT", "CONJOINT_OUT_REVERSE", "CONJOINT_ATOP", "CONJOINT_ATOP_REVERSE",
    "CONJOINT_XOR", NULL, NULL, NULL, NULL,
    "MULTIPLY", "SCREEN", "OVERLAY", "DARKEN", "LIGHTEN", "COLOR_DODGE", "COLOR_BURN", "HARD_LIGHT", "SOFT_LIGHT",
    "DIFFERENCE", "EXCLUSION", "HSL_HUE", "HSL_SATURATION", "HSL_COLOR", "HSL_LUMINOSITY",
};

static pixman_op_t
fc_op (const char *name)
{
    size_t i;
    for (i = 0; i < sizeof fc_opnames / sizeof fc_opnames[0]; i++)
	if (fc_opnames[i] && !strcmp (fc_opnames[i], name))
	    return (pixman_op_t)i;
    fprintf (stderr, "unknown operator %s\n", name);
    exit (3);
}

/* an allocation that is logged whole: [guard before | rows ... | guard after] */
typedef struct
{
    uint8_t *mem;       /* 64-byte aligned */
    int      len;
    int      off;       /* byte offset of row 0 */
    int      stride;    /* bytes */
    int      w, h;
    char     fmt[24];
    pixman_image_t *img;
} fc_store_t;

static void
fc_pattern (uint8_t *p, int n, unsigned seed)
{
    vrng_t r;
    int i;
    vrng_seed (&r, seed);
    for (i = 0; i < n; i++)
	p[i] = (uint8_t)vrng_next (&r);
}

static void
fc_store_free (fc_store_t *s)
{
    if (s->img)
	pixman_image_unref (s->img);
    free (s->mem);
    memset (s, 0, sizeof *s);
}

static void
fc_store_alloc (fc_store_t *s, int len, unsigned seed)
{
    void *p;
    if (posix_memalign (&p, 64, (size_t)(len > 0 ? len : 1) + 64))
	exit (3);
    s->mem = p;
    s->len = len;
    fc_pattern (s->mem, len, seed);
}

/* image of w x h pixels whose row 0 starts gb bytes into a fresh allocation */
static void
fc_store_image (fc_store_t *s, const char *fmt, int w, int h, int stride, int gb, int ga, unsigned seed)
{
    int rows = h > 0 ? h : 0;
    memset (s, 0, sizeof *s);
    fc_store_alloc (s, gb + rows * stride + ga, seed);
    s->off = gb;
    s->stride = stride;
    s->w = w;
    s->h = h;
    snprintf (s->fmt, sizeof s->fmt, "%s", fmt);
    s->img = pixman_image_create_bits_no_clear (fc_format (fmt), w, h, (uint32_t *)(s->mem + gb), stride);
    if (!s->img)
    {
	fprintf (stderr, "create_bits failed (%s %dx%d stride %d)\n", fmt, w, h, stride);
	exit (3);
    }
    if (PIXMAN_FORMAT_TYPE (fc_format (fmt)) == PIXMAN_TYPE_COLOR || PIXMAN_FORMAT_TYPE (fc_format (fmt)) == PIXMAN_TYPE_GRAY)
	pixman_image_set_indexed (s->img, fc_palette (fc_format (fmt)));
}

/* the clip state given to an image, remembered for the Setup event */
typedef struct
{
    int present;         /* 0 none, 1 solid, 2 bits */
    int hc, cs, cc;
    int nclip;
    int clip[4 * 64];
} fc_clipstate_t;

static void
fc_set_clip (pixman_image_t *img, fc_clipstate_t *cs, int n, const int *v)
{
    if (n < 0)
    {
	pixman_image_set_clip_region32 (img, NULL);
	cs->hc = 0;
	cs->nclip = 0;
    }
    else
    {
	pixman_region32_t r;
	pixman_box32_t *b = malloc (sizeof (pixman_box32_t) * (n ? n : 1));
	int i;
	for (i = 0; i < n; i++)
	{
	    b[i].x1 = v[4 * i]; b[i].y1 = v[4 * i + 1]; b[i].x2 = v[4 * i + 2]; b[i].y2 = v[4 * i + 3];
	}
	pixman_region32_init_rects (&r, b, n);
	pixman_image_set_clip_region32 (img, &r);
	pixman_region32_fini (&r);
	free (b);
	cs->hc = 1;
	cs->nclip = n;
	memcpy (cs->clip, v, sizeof (int) * 4 * n);
    }
}

/* the same through the 16-bit setter pixman_image_set_clip_region (coordinates must fit int16) */
static void
fc_set_clip16 (pixman_image_t *img, fc_clipstate_t *cs, int n, const int *v)
{
    if (n < 0)
    {
	pixman_image_set_clip_region (img, NULL);
	cs->hc = 0;
	cs->nclip = 0;
    }
    else
    {
	pixman_region16_t r;
	pixman_box16_t *b = malloc (sizeof (pixman_box16_t) * (n ? n : 1));
	int i;
	for (i = 0; i < n; i++)
	{
	    b[i].x1 = (int16_t)v[4 * i]; b[i].y1 = (int16_t)v[4 * i + 1];
	    b[i].x2 = (int16_t)v[4 * i + 2]; b[i].y2 = (int16_t)v[4 * i + 3];
	}
	pixman_region_init_rects (&r, b, n);
	pixman_image_set_clip_region (img, &r);
	pixman_region_fini (&r);
	free (b);
	cs->hc = 1;
	cs->nclip = n;
	memcpy (cs->clip, v, sizeof (int) * 4 * n);
    }
}

static void
fc_log_clipstate (const char *key, const fc_clipstate_t *cs)
{
    int i;
    fprintf (vt_out, ",\"%s\":{\"p\":%s,\"hc\":%s,\"cs\":%s,\"cc\":%s,\"clip\":[", key,
	     cs->present ? "true" : "false", cs->hc ? "true" : "false", cs->cs ? "true" : "false",
	     cs->cc ? "true" : "false");
    for (i = 0; i < cs->nclip; i++)
	fprintf (vt_out, "%s[%d,%d,%d,%d]", i ? "," : "", cs->clip[4 * i], cs->clip[4 * i + 1], cs->clip[4 * i + 2],
		 cs->clip[4 * i + 3]);
    fputs ("]}", vt_out);
}

static void
fc_log_store (const char *key, const fc_store_t *s)
{
    if (s->mem)
	vt_bytes (key, s->mem, s->len);
    else
	fprintf (vt_out, ",\"%s\":[]", key);
}

/* clip state of the alpha maps of the source (1) and the mask (2), set by the driver before fc_log_setup; logged as
 * "srcam" / "maskam": {p,hc,cs,cc,clip,ox,oy} */
static const fc_clipstate_t *fc_am_clip[3];
static int fc_am_ox[3], fc_am_oy[3];

static void
fc_log_amclip (const char *key, int r)
{
    static const fc_clipstate_t none;
    const fc_clipstate_t *cs = fc_am_clip[r] ? fc_am_clip[r] : &none;
    int i;
    fprintf (vt_out, ",\"%s\":{\"p\":%s,\"hc\":%s,\"cs\":%s,\"cc\":%s,\"ox\":%d,\"oy\":%d,\"clip\":[", key,
	     cs->present ? "true" : "false", cs->hc ? "true" : "false", cs->cs ? "true" : "false",
	     cs->cc ? "true" : "false", fc_am_ox[r], fc_am_oy[r]);
    for (i = 0; i < cs->nclip; i++)
	fprintf (vt_out, "%s[%d,%d,%d,%d]", i ? "," : "", cs->clip[4 * i], cs->clip[4 * i + 1], cs->clip[4 * i + 2],
		 cs->clip[4 * i + 3]);
    fputs ("]}", vt_out);
}

/* {"e":"Setup","dst":{fmt,w,h,stride,off,hc,clip,am:[{fmt,w,h,ox,oy,stride,off}]},"src":{..},"mask":{..},
 *  "dbuf":[..],"abuf":[..],"sbuf":[..]} */
static void
fc_log_setup (const fc_store_t *dst, const fc_clipstate_t *dc, const fc_store_t *am, int ox, int oy,
	      const fc_clipstate_t *sc, const fc_clipstate_t *mc, const fc_store_t *sbuf)
{
    int i;
    vt_begin ("Setup");
    fprintf (vt_out, ",\"dst\":{\"fmt\":\"%s\",\"w\":%d,\"h\":%d,\"stride\":%d,\"off\":%d,\"hc\":%s,\"clip\":[",
	     dst->fmt, dst->w, dst->h, dst->stride, dst->off, dc->hc ? "true" : "false");
    for (i = 0; i < dc->nclip; i++)
	fprintf (vt_out, "%s[%d,%d,%d,%d]", i ? "," : "", dc->clip[4 * i], dc->clip[4 * i + 1], dc->clip[4 * i + 2],
		 dc->clip[4 * i + 3]);
    fputs ("],\"am\":[", vt_out);
    if (am && am->img)
	fprintf (vt_out, "{\"fmt\":\"%s\",\"w\":%d,\"h\":%d,\"ox\":%d,\"oy\":%d,\"stride\":%d,\"off\":%d}",
		 am->fmt, am->w, am->h, ox, oy, am->stride, am->off);
    fputs ("]}", vt_out);
    fc_log_clipstate ("src", sc);
    fc_log_clipstate ("mask", mc);
    fc_log_amclip ("srcam", 1);
    fc_log_amclip ("maskam", 2);
    fc_log_store ("dbuf", dst);
    if (am && am->img)
	fc_log_store ("abuf", am);
    else
	fprintf (vt_out, ",\"abuf\":[]");
    if (sbuf && sbuf->mem)
	fc_log_store ("sbuf", sbuf);
    else
	fprintf (vt_out, ",\"sbuf\":[]");
    vt_end ();
}

static void
fc_read_ints (FILE *in, int *v, int n)
{
    int i;
    for (i = 0; i < n; i++)
	if (fscanf (in, "%d", &v[i]) != 1)
	{
	    fprintf (stderr, "script: integer expected\n");
	    exit (3);
	}
}

static void
fc_log_quads (const char *key, const int *v, int n, int per)
{
    int i, j;
    fprintf (vt_out, ",\"%s\":[", key);
    for (i = 0; i < n; i++)
    {
	fputs (i ? ",[" : "[", vt_out);
	for (j = 0; j < per; j++)
	    fprintf (vt_out, j ? ",%d" : "%d", v[per * i + j]);
	fputc (']', vt_out);
    }
    fputc (']', vt_out);
}

/* pixman_image_fill_boxes (api 0) / pixman_image_fill_rectangles (api 1); v holds n quadruples */
static int
fc_fill_call (int api, pixman_op_t op, pixman_image_t *dest, const pixman_color_t *c, int n, const int *v)
{
    int i, ret;
    if (api == 0)
    {
	pixman_box32_t *b = malloc (sizeof (pixman_box32_t) * (n ? n : 1));
	for (i = 0; i < n; i++)
	{
	    b[i].x1 = v[4 * i]; b[i].y1 = v[4 * i + 1]; b[i].x2 = v[4 * i + 2]; b[i].y2 = v[4 * i + 3];
	}
	ret = pixman_image_fill_boxes (op, dest, c, n, b);
	free (b);
    }
    else
    {
	pixman_rectangle16_t *r = malloc (sizeof (pixman_rectangle16_t) * (n ? n : 1));
	for (i = 0; i < n; i++)
	{
	    r[i].x = (int16_t)v[4 * i]; r[i].y = (int16_t)v[4 * i + 1];
	    r[i].width = (uint16_t)v[4 * i + 2]; r[i].height = (uint16_t)v[4 * i + 3];
	}
	ret = pixman_image_fill_rectangles (op, dest, c, n, r);
	free (r);
    }
    return ret;
}
#endif
