# C10 (pixel formats) and C01 (compositing equations).
#   C10  spec/Formats.tla   MC spec/mc/FormatsMC   GEN spec/gen/FormatsGen   TV spec/trace/FormatsTrace   drv_pixel
#   C01  spec/Combine.tla   MC spec/mc/CombineMC   GEN spec/gen/CombineGen   TV spec/trace/CombineTrace   drv_composite
# Python generates inputs, orchestrates and counts; every verdict is TLC's.
import hashlib
import json
import os
import random
import zlib
import re
import shutil
import struct

import vf

PROPS = {"C10": "C10", "C01": "C01"}

CLAIMS = {
    "C01": dict(
        technique="TLA+ Combine spec (exact Porter-Duff rule + real-valued Render/PDF equations in outward-rounded interval "
                  "arithmetic): lemmas and algebraic sanity model-checked by TLC; case classes enumerated by TLC, executed "
                  "by pixman_image_composite32 and validated by TLC (trace validation)",
        text="spec/Combine.tla states per operator the Porter-Duff factor pair or PDF blend function. Exact class (CLEAR..ADD, "
             "all formats <= 8 bits per channel): MulUn8 rounding, saturating sums, replication/truncation -- equality "
             "demanded on the defined bits. Tolerance class (SATURATE, DISJOINT_*, CONJOINT_*, blend modes, >8-bit "
             "formats): the real-valued equation evaluated by spec/lib/RealIv.tla (sound interval arithmetic, MC-checked), "
             "result must lie within one quantisation step of the destination format (8-bit integer blend modes: either "
             "that, or within 1 step (MULTIPLY 2) of the equation on MulUn8-premultiplied operands, truncated). TLC "
             "model-checks the MulUn8 lemma on all 65,536 pairs, interval soundness lemmas, the algebraic sanity of the "
             "exact rule on B8 and its consistency with the real equation (three negative configurations). TLC enumerates "
             "all 53 operators x {no mask, unified, component alpha} x six edge families (rows of 1..19 pixels); each row "
             "is mapped on format triples and source presentations (plain, integer translation, 2x scale, PAD repeat, "
             "1+1/65536 scale -- so transformed-source fetchers meet masks in both pipelines), run under the default "
             "chain and with PIXMAN_DISABLE (general only); TLC judges every destination pixel, the frame, and that "
             "source and mask are not written. Outside the domain: HSL x component alpha, sRGB/float formats, dithering; "
             "tolerance class judged on premultiplied inputs only. " + 'Sources and masks are also presented under a general affine matrix that samples the same pixels (the arbitrary-affine fetchers, incl. alpha-less component-alpha masks).' + "",
        ref="5 C01"),
    "C10": dict(
        technique="TLA+ Formats spec (format = bit fields decoded from the PIXMAN_FORMAT code): codec laws model-checked "
                  "exhaustively by TLC; OP_SRC conversions executed on the real library through every reader/writer "
                  "presentation and validated by TLC (trace validation)",
        text="spec/Formats.tla decodes a format code into bit fields and defines widening (bit replication, absent alpha 1, "
             "absent colour 0, n/(2^b-1) in float) and narrowing (most significant bits, floor(f*2^b) saturating), palette "
             "lookup for indexed formats and the frame condition of a store on a byte buffer. TLC checks the codec laws "
             "(read-write identity on defined bits, 0->0, max->max, monotone, the float route, frame) for every raw value "
             "of every format up to 16 bpp and per-channel boundary values for 24/32 bpp, with three negative "
             "configurations. Every format pixman_format_supported_source/destination accepts is then exercised on the "
             "library built from /repo: F->a8r8g8b8, F->rgba_float, back to F, and arbitrary canonical values ->F, all "
             "2^bpp values for bpp<=8 and boundary+seeded values otherwise, at every x offset within a 32-bit word, by the "
             "scanline and single-pixel readers, a 1x1 repeating source, directly and through accessor callbacks, under "
             "the default implementation chain and with PIXMAN_DISABLE (general only); TLC validates every logged buffer. "
             "Accessor equivalence of every drawing entry point (trapezoid / triangle rasterisation on a1, a4, a8 with "
             "slanted bands of every width 1..8 at every x offset, composite_trapezoids / triangles, composite32 over an "
             "operator x format x mask sample, fill_boxes / fill_rectangles, composite_glyphs(_no_mask)): the request is "
             "executed on directly addressed images and on accessor-wrapped twins (destination, source, mask, all) and TLC "
             "demands ViaAccessors(req) = Direct(req) on the whole buffer, row padding included. "
             "sRGB colour channels: end points, monotonicity and round trip only; YUV: alpha and reader agreement only. " + 'Stores of rows that cross the sizes of the internal scratch buffers (257 .. 2600 pixels) are included for every destination format.' + "",
        ref="5 C10"),
}

# ------------------------------------------------------------------------------------------
# formats (input generation only: the judgement decodes the logged format codes in TLA+)

TYPE_A, TYPE_ARGB, TYPE_ABGR, TYPE_COLOR, TYPE_GRAY, TYPE_YUY2, TYPE_YV12, TYPE_BGRA, TYPE_RGBA, TYPE_SRGB, TYPE_FLOAT = \
    1, 2, 3, 4, 5, 6, 7, 8, 9, 10, 11


class Fmt:
    def __init__(self, name, code, src_ok=True, dst_ok=True):
        self.name, self.code, self.src_ok, self.dst_ok = name, code, src_ok, dst_ok
        sh = (code >> 22) & 3
        self.bpp = (code >> 24) << sh
        self.type = (code >> 16) & 0x3f
        self.a = ((code >> 12) & 15) << sh
        self.r = ((code >> 8) & 15) << sh
        self.g = ((code >> 4) & 15) << sh
        self.b = (code & 15) << sh
        self.packed = self.type in (TYPE_A, TYPE_ARGB, TYPE_ABGR, TYPE_BGRA, TYPE_RGBA, TYPE_SRGB)
        self.indexed = self.type in (TYPE_COLOR, TYPE_GRAY)
        self.yuv = self.type in (TYPE_YUY2, TYPE_YV12)
        self.float = self.type == TYPE_FLOAT
        self.wide = max(self.a, self.r, self.g, self.b) > 8 or self.type == TYPE_SRGB

    def bits(self):
        return {"a": self.a, "r": self.r, "g": self.g, "b": self.b}

    def shifts(self):
        a, r, g, b, bpp, t = self.a, self.r, self.g, self.b, self.bpp, self.type
        if t == TYPE_A:
            return {"a": 0, "r": 0, "g": 0, "b": 0}
        if t in (TYPE_ARGB, TYPE_SRGB):
            return {"b": 0, "g": b, "r": b + g, "a": b + g + r}
        if t == TYPE_ABGR:
            return {"r": 0, "g": r, "b": r + g, "a": r + g + b}
        if t == TYPE_BGRA:
            return {"b": bpp - b, "g": bpp - b - g, "r": bpp - b - g - r, "a": bpp - b - g - r - a}
        if t == TYPE_RGBA:
            return {"r": bpp - r, "g": bpp - r - g, "b": bpp - r - g - b, "a": bpp - r - g - b - a}
        raise ValueError(self.name)

    def defined_mask(self):
        if not self.packed:
            return (1 << self.bpp) - 1
        m, sh, bt = 0, self.shifts(), self.bits()
        for c in "argb":
            m |= ((1 << bt[c]) - 1) << sh[c]
        return m

    def word(self, vals):
        """raw word with native channel values vals = {a,r,g,b}"""
        w, sh, bt = 0, self.shifts(), self.bits()
        for c in "argb":
            if bt[c]:
                w |= (vals[c] & ((1 << bt[c]) - 1)) << sh[c]
        return w

    def from8(self, a, r, g, b):
        """raw word holding the 8-bit values truncated to the format (input generation for C01)"""
        v8 = {"a": a, "r": r, "g": g, "b": b}
        bt = self.bits()
        vals = {}
        for c in "argb":
            n = bt[c]
            vals[c] = (v8[c] >> (8 - n)) if n <= 8 else ((v8[c] << (n - 8)) | (v8[c] >> (16 - n)))
        return self.word(vals)


_formats_cache = {}


def library_formats(exe):
    if exe in _formats_cache:
        return _formats_cache[exe]
    p = vf.sh([exe, "--formats"])
    res = {}
    for line in p.stdout.splitlines():
        t = line.split()
        if len(t) == 4:
            res[t[0]] = Fmt(t[0], int(t[1]), t[2] == "1", t[3] == "1")
    if "a8r8g8b8" not in res:
        raise vf.Infra("drv_pixel --formats gave no table:\n" + p.stdout[-500:])
    _formats_cache[exe] = res
    return res


def pack_pixels(bpp, pixels, x0, npx, rng, pad_words=1, valid_float=False):
    """bytes of a row of npx pixels of bpp bits (little-endian host), pixels[] placed at x0.., the rest and
       pad_words extra 32-bit words filled with seeded noise; length is a multiple of 4"""
    nbits = npx * bpp
    nbytes = ((nbits + 31) // 32) * 4 + 4 * pad_words
    if bpp == 128:
        nbytes = ((nbytes + 15) // 16) * 16         # pixman demands 16-byte strides for 128 bpp
    if valid_float:
        # noise must be valid floats in [0,1] (a float image holding NaN/Inf is outside the domain)
        buf = bytearray()
        while len(buf) < nbytes:
            buf += struct.pack("<f", rng.choice([0.0, 0.25, 0.5, 0.75, 1.0, 0.125, 0.9375]))
        buf = buf[:nbytes]
    else:
        buf = bytearray(rng.getrandbits(8) for _ in range(nbytes))
    acc = int.from_bytes(buf, "little")
    for i, p in enumerate(pixels):
        sh = (x0 + i) * bpp
        acc &= ~(((1 << bpp) - 1) << sh)
        acc |= (p & ((1 << bpp) - 1)) << sh
    return acc.to_bytes(nbytes, "little")


def hx(b):
    return bytes(b).hex() if b else "-"


def f32(x):
    return struct.unpack("<I", struct.pack("<f", x))[0]


def chunks(seq, n):
    for i in range(0, len(seq), n):
        yield seq[i:i + n]


# ------------------------------------------------------------------------------------------
# C10: case generation

ROW = 9


def gen_boundary_words(exe_formats, tier):
    """TLC enumerates, from the spec's field layout, the raw words whose channels take boundary values
       (spec/gen/FormatsGen.tla); returns {code: [word, ...]}"""
    path = os.path.join(vf.SPEC, "gen", "FormatsGen.tla")
    r = vf.run_tlc(path, workers=1, timeout=600, tag="fgen")
    words = {}
    # TLC pretty-prints long tuples over several lines: parse the raw output
    for m in re.finditer(r'<<\s*"VF:words",\s*<<(\d+), (\d+)>>,\s*("(?:[^"\\\\]|\\\\.)*")\s*>>', r.out):
        hi, lo, js = int(m.group(1)), int(m.group(2)), m.group(3)
        lst = json.loads(json.loads(js))
        words[(hi << 16) | lo] = [(w[0] << 16) | w[1] for w in lst]
    if not words:
        raise vf.Infra("FormatsGen produced nothing:\n" + r.out[-2000:])
    return words, r


def offsets_for(bpp):
    if bpp == 24:
        return [0, 1, 2, 3]
    return list(range(max(1, 32 // bpp)))


def canonical_values_8(rng, n):
    B8 = [0, 1, 2, 127, 128, 129, 254, 255]
    out = []
    for _ in range(n):
        if rng.random() < 0.7:
            out.append(tuple(rng.choice(B8) for _c in range(4)))
        else:
            out.append(tuple(rng.getrandbits(8) for _c in range(4)))
    return out


def float_values(bits_list, rng, n):
    """float bit patterns interesting for narrowing to the given channel widths"""
    pats = [f32(0.0), f32(-0.0), f32(1.0), f32(0.5), f32(-1.0), f32(1.5), f32(3.0e38), f32(1e-10), f32(-3e-5),
            f32(0.99999994), f32(1.0000001), 0x7f800000, 0x00000001, 0x007fffff]
    for b in set(bits_list):
        if not b or b > 16:
            continue
        ks = {0, 1, 2, (1 << b) // 2 - 1, (1 << b) // 2, (1 << b) // 2 + 1, (1 << b) - 2, (1 << b) - 1, (1 << b)}
        for k in ks:
            p = f32(k / float(1 << b))            # exact: k / 2^b is representable
            pats += [p, p + 1, max(p - 1, 0)]
        m = (1 << b) - 1
        for nn in {0, 1, m // 2, m - 1, m}:
            p = f32(nn / float(m))
            pats += [p, p + 1, max(p - 1, 0)]
    pats = [p for p in pats if not ((p >> 23) & 0xff) == 0xff or (p & 0x7fffff) == 0]      # no NaN
    out = []
    for _ in range(n):
        out.append(tuple(rng.choice(pats) if rng.random() < 0.85 else f32(rng.random()) for _c in range(4)))
    return out


def yv12_case(F, C, rng, name_prefix):
    """a small planar image; the composite reads row sy"""
    w, h, stride = 12, 2, 16                  # bytes; chroma stride 8
    words_stride = stride // 4
    off0 = words_stride * h
    off1 = off0 + (off0 >> 2)
    total_words = off1 + (words_stride >> 1) * ((h + 1) >> 1) + 4
    buf = bytes(rng.getrandbits(8) for _ in range(total_words * 4))
    return w, h, stride, buf


def gen_c10_cases(fmts, bwords, rng, tier):
    """returns list of script lines (one per case), with bookkeeping tuples (kind, fname, cname)"""
    quick = tier == "quick"
    A8 = fmts["a8r8g8b8"]
    RF = fmts["rgba_float"]
    cases = []

    def dest_c(C, dx, w):
        npx = dx + w + 1
        if C.float:
            return npx, pack_pixels(C.bpp, [], 0, npx, rng, pad_words=1, valid_float=True)
        return npx, pack_pixels(C.bpp, [], 0, npx, rng)

    for F in fmts.values():
        if not F.src_ok or F.float:
            continue
        if F.name in ("x4c4", "x4g4"):          # same codes as c8 / g8
            continue
        offs = offsets_for(F.bpp)
        npal = 4 if F.indexed else 1
        # ---- the raw values of F to present
        if F.type == TYPE_YV12:
            vals = None
        elif F.bpp <= 8:
            vals = list(range(1 << F.bpp))
            if F.bpp == 1:
                vals = [rng.getrandbits(1) for _ in range(ROW * 3)] + [0] * ROW + [1] * ROW
        else:
            bw = list(bwords.get(F.code, []))
            rng.shuffle(bw)
            nb = (300 if F.bpp == 16 else 420) if quick else 2500
            vals = bw[:nb] + [rng.getrandbits(F.bpp) for _ in range(120 if quick else 1200)]
            all16 = (not quick) and F.bpp == 16 and F.packed       # thorough: every 16-bit value as well
        if F.bpp <= 8 or F.type == TYPE_YV12 or quick or not (F.bpp == 16 and F.packed):
            all16 = False
        for C in (A8, RF):
            if F.type == TYPE_YV12:
                for k in range(4 if quick else 16):
                    w_, h_, stride_, buf = yv12_case(F, C, rng, "")
                    sy, sx, w = rng.randint(0, 1), rng.randint(0, 2), ROW
                    dx = rng.randint(0, 1)
                    dimgw, dst = dest_c(C, dx, w)
                    cases.append(("F", F, C, "F %d %d 0 0 %d %d %d %d %d %d %d %d %s %s 4 sd sa pd pa 0 0 1 - 0"
                                  % (F.code, C.code, w_, h_, stride_, sy, sx, dx, dimgw, w, hx(buf), hx(dst))))
                continue
            rows = list(chunks(vals, ROW))
            if all16:        # all 65536 values, half of them through each canonical format
                allv = list(range(65536))
                rng.shuffle(allv)
                half = allv[:32768] if C is A8 else allv[32768:]
                rows += list(chunks(half, ROW))
            k = 0
            for row in rows:
                # every value at every offset for bpp <= 8; otherwise the offsets cycle over the rows
                for sx in (offs if F.bpp <= 8 else [offs[k % len(offs)]]):
                    k += 1
                    w = len(row)
                    pal = k % npal
                    simgw = sx + w + 1
                    src = pack_pixels(F.bpp, row, sx, simgw, rng)
                    dx = k % 2
                    dimgw, dst = dest_c(C, dx, w)
                    back = 0 if F.yuv or not F.dst_ok else 1
                    bdx = offs[(k // 2) % len(offs)]
                    bimgw = bdx + w + 1
                    bdst = pack_pixels(F.bpp, [], 0, bimgw, rng) if back else b""
                    cases.append(("F", F, C, "F %d %d %d 0 %d 1 %d 0 %d %d %d %d %s %s 5 sd sa pd pa gd %d %d %d %s %s"
                                  % (F.code, C.code, pal, simgw, len(src), sx, dx, dimgw, w, hx(src), hx(dst),
                                     back, bdx, bimgw, hx(bdst), "2 sd sa" if back else "0")))
            # ---- 1x1 repeating source (single-pixel reader of the solid path)
            if F.type != TYPE_YUY2:
                pick = vals if F.bpp <= 4 else rng.sample(vals, min(len(vals), 10 if quick else 60))
                for v in pick:
                    k += 1
                    w = ROW
                    src = pack_pixels(F.bpp, [v], 0, 1, rng, pad_words=0)
                    dx = k % 2
                    dimgw, dst = dest_c(C, dx, w)
                    back = 1 if F.dst_ok else 0
                    bdx = offs[k % len(offs)]
                    bimgw = bdx + w + 1
                    bdst = pack_pixels(F.bpp, [], 0, bimgw, rng)
                    cases.append(("F", F, C, "F %d %d %d 1 1 1 %d 0 0 %d %d %d %s %s 2 sd sa %d %d %d %s 2 sd sa"
                                  % (F.code, C.code, k % npal, len(src), dx, dimgw, w, hx(src), hx(dst),
                                     back, bdx, bimgw, hx(bdst))))
            # ---- arbitrary canonical values -> F
            if F.dst_ok:
                n = (8 if quick else 40) * ROW
                if C is A8:
                    cv = [(a << 24) | (r << 16) | (g << 8) | b for (a, r, g, b) in canonical_values_8(rng, n)]
                    rowsC = [[v] for v in []]
                    rowsC = list(chunks(cv, ROW))
                    for row in rowsC:
                        k += 1
                        sx = k % 2
                        simgw = sx + len(row) + 1
                        src = pack_pixels(32, row, sx, simgw, rng)
                        dx = offs[k % len(offs)]
                        dimgw = dx + len(row) + 1
                        dst = pack_pixels(F.bpp, [], 0, dimgw, rng)
                        cases.append(("S", F, C, "S %d %d %d %d %d %d %d %d %s %s 3 sd sa pd"
                                      % (C.code, F.code, k % npal, simgw, sx, dx, dimgw, len(row), hx(src), hx(dst))))
                else:
                    fv = float_values([F.a, F.r, F.g, F.b, 8], rng, n)
                    for row in chunks(fv, ROW):
                        k += 1
                        sx = k % 2
                        simgw = sx + len(row) + 1
                        px = [(r) | (g << 32) | (b << 64) | (a << 96) for (a, r, g, b) in row]
                        src = pack_pixels(128, px, sx, simgw, rng, valid_float=True)
                        dx = offs[k % len(offs)]
                        dimgw = dx + len(row) + 1
                        dst = pack_pixels(F.bpp, [], 0, dimgw, rng)
                        cases.append(("S", F, C, "S %d %d %d %d %d %d %d %d %s %s 3 sd sa pd"
                                      % (C.code, F.code, k % npal, simgw, sx, dx, dimgw, len(row), hx(src), hx(dst))))
            # ---- long rows: the store / fetch loops work through scratch buffers of fixed size (a scanline buffer on the
            # stack up to 8192 bytes per row - 512 float or 2048 8-bit pixels -, then a heap one; chunked conversion
            # loops), so rows that cross those sizes are cases of their own
            if F.dst_ok and not F.yuv:
                lens = ([257, 523] if C is RF else [2051]) if quick else ([255, 256, 257, 300, 511, 512, 513, 777] if C is RF else [2047, 2048, 2049, 2600])
                if quick and (zlib.crc32(F.name.encode()) + len(cases)) % 3 != 0 and F.name not in ("a8r8g8b8", "r5g6b5", "a8", "a1"):
                    lens = lens[:1] if C is RF else []
                for n in lens:
                    k += 1
                    sx = k % 2
                    simgw = sx + n + 1
                    dx = offs[k % len(offs)]
                    dimgw = dx + n + 1
                    dst = pack_pixels(F.bpp, [], 0, dimgw, rng)
                    if C is A8:
                        row = [(a << 24) | (r << 16) | (g << 8) | b for (a, r, g, b) in canonical_values_8(rng, n)]
                        src = pack_pixels(32, row, sx, simgw, rng)
                    else:
                        row = float_values([F.a, F.r, F.g, F.b, 8], rng, n)
                        px = [(r) | (g << 32) | (b << 64) | (a << 96) for (a, r, g, b) in row]
                        src = pack_pixels(128, px, sx, simgw, rng, valid_float=True)
                    cases.append(("S", F, C, "S %d %d %d %d %d %d %d %d %s %s 3 sd sa pd"
                                  % (C.code, F.code, k % npal, simgw, sx, dx, dimgw, n, hx(src), hx(dst))))
    return cases


# ------------------------------------------------------------------------------------------

# ------------------------------------------------------------------------------------------
# C10, last sentence: every drawing entry point on accessor-wrapped twins = on directly addressed images

def fx(v):
    return int(round(v * 65536.0))


def equiv_img(tag, F, w, h, rng, flag=None, fill="noise", extra_pad=True):
    """script tokens of one image: random (or zero / opaque) bytes, stride with padding bytes where possible"""
    if F is None:
        return "%s 0 0 0 0 -%s" % (tag, "" if flag is None else " 0")
    stride = ((w * F.bpp + 31) // 32) * 4
    if extra_pad and F.bpp != 128:
        stride += 4
    n = stride * h
    if fill == "zero":
        b = bytes(n)
    elif fill == "ones":
        b = bytes([255]) * n
    else:
        b = bytes(rng.getrandbits(8) for _ in range(n))
    return "%s %d %d %d %d %s%s" % (tag, F.code, w, h, stride, b.hex(), "" if flag is None else " %d" % flag)


def band_trapezoid(x0, width, slant, top=1, bottom=5):
    if slant < 0:
        x0 -= (bottom - top) * slant
    dx = (bottom - top) * slant
    return [fx(top), fx(bottom), fx(x0), fx(top), fx(x0 + dx), fx(bottom), fx(x0 + width), fx(top), fx(x0 + width + dx), fx(bottom)]


def band_trap(x0, width, slant, top=1, bottom=5):
    t = band_trapezoid(x0, width, slant, top, bottom)
    return [t[2], t[6], t[0], t[4], t[8], t[1]]            # top.l top.r top.y bot.l bot.r bot.y


def band_triangles(x0, width, slant, top=1, bottom=5):
    t = band_trapezoid(x0, width, slant, top, bottom)
    tl, tr, bl, br = (t[2], t[0]), (t[6], t[0]), (t[4], t[1]), (t[8], t[1])
    return [list(tl + tr + bl), list(tr + br + bl)]


def gen_equiv_cases(fmts, rng, tier):
    """requests for harness/drv_accequiv.c; returns [(entry, destination format name, script line)]"""
    quick = tier == "quick"
    A8, A4, A1, A8888 = fmts["a8"], fmts["a4"], fmts["a1"], fmts["a8r8g8b8"]
    out = []
    none_s, none_m = equiv_img("S", None, 0, 0, rng, 0), equiv_img("M", None, 0, 0, rng, 0)
    W, H = 37, 6

    def add(entry, variants, D, S, M, params, dname):
        out.append((entry, dname, "E %s %d %s %s %s %s P %d %s" % (
            entry, len(variants), " ".join(map(str, variants)), D, S, M, len(params), " ".join(map(str, params)))))

    # ---- slanted bands of every small width at every x offset, shallow and steep
    slants = [0.05, 0.25, 1.0, 2.5, 3.5, -1.5, -3.25, 5.5]
    bands = [(x0 + frac, width, sl) for width in range(1, 9) for x0 in range(8) for frac in (0.0, 0.5) for sl in slants]
    if not quick:
        bands += [(x0 + rng.random(), width + rng.random() - 0.5, rng.uniform(-4, 4)) for width in range(1, 9)
                  for x0 in range(8) for _ in range(6)]
    k = 0
    for (x0, width, sl) in bands:
        k += 1
        for F, every in ((A8, 1), (A4, 4 if quick else 1), (A1, 4 if quick else 1)):
            if k % every:
                continue
            fill = "zero" if k % 3 == 0 else "noise"
            D = equiv_img("D", F, W, H, rng, fill=fill)
            entry = ("rast_trap", "add_trapezoids", "add_traps", "add_triangles")[(k // every) % 4]
            xo, yo = (0, 0) if k % 5 else (rng.randint(-1, 1), rng.randint(0, 1))
            if entry == "rast_trap":
                add(entry, [1], D, none_s, none_m, [xo, yo] + band_trapezoid(x0, width, sl), F.name)
            elif entry == "add_trapezoids":
                add(entry, [1], D, none_s, none_m, [xo, yo, 1] + band_trapezoid(x0, width, sl), F.name)
            elif entry == "add_traps":
                add(entry, [1], D, none_s, none_m, [xo, yo, 1] + band_trap(x0, width, sl), F.name)
            else:
                t1, t2 = band_triangles(x0, width, sl)
                add(entry, [1], D, none_s, none_m, [xo, yo, 2] + t1 + t2, F.name)
        # ---- composite_trapezoids / triangles: into an a8 destination directly (ADD of opaque white), and through a mask
        if k % (6 if quick else 2) == 0:
            j = k // 6
            if j % 2 == 0:
                D = equiv_img("D", A8, W, H, rng, fill="noise" if j % 4 else "zero")
                S = equiv_img("S", A8888, 1, 1, rng, 1, fill="ones", extra_pad=False)
                op, mf, dname = 12, A8.code, "a8"
            else:
                DF = [A8888, fmts["r5g6b5"], fmts["x8r8g8b8"], A8][j % 4]
                D = equiv_img("D", DF, W, H, rng)
                S = equiv_img("S", A8888, W, H, rng, 0)
                op, mf, dname = [3, 12, 1, 3][j % 4], [A8.code, A1.code, A4.code][j % 3], DF.name
            if j % 3:
                add("comp_traps", [1, 2, 3], D, S, none_m, [op, mf, 0, 0, 0, 0, 1] + band_trapezoid(x0, width, sl), dname)
            else:
                t1, t2 = band_triangles(x0, width, sl)
                add("comp_tris", [1, 2, 3], D, S, none_m, [op, mf, 0, 0, 0, 0, 2] + t1 + t2, dname)

    # ---- pixman_image_composite32: operators x formats (1, 4, 8, 16, 24, 32 bpp, wide) x masks
    ops = [1, 3, 12, 5, 8, 11, 4, 48, 19, 57, 13]
    dnames = ["a8r8g8b8", "x8r8g8b8", "r5g6b5", "a8", "a4", "a1", "r8g8b8", "a1r5g5b5", "r1g2b1", "a2r10g10b10", "b8g8r8a8",
              "x4a4", "a1r1g1b1", "b8g8r8"]
    snames = ["a8r8g8b8", "x8r8g8b8", "r5g6b5", "a8", "a4", "a1", "r8g8b8", "a4r4g4b4", "b1g2r1", "x2b10g10r10"]
    mnames = [None, "a8", "a1", "a8r8g8b8", "a4", None]
    nco = 330 if quick else 2500
    for i in range(nco):
        DF, SF = fmts[dnames[i % len(dnames)]], fmts[rng.choice(snames)]
        mn = mnames[(i // len(dnames)) % len(mnames)]
        MF = fmts[mn] if mn else None
        w, h = 13, 3
        D = equiv_img("D", DF, w, h, rng)
        solid = (i % 7 == 0)
        S = equiv_img("S", SF, 1 if solid else w, 1 if solid else h, rng, 1 if solid else 0, extra_pad=not solid)
        M = equiv_img("M", MF, w, h, rng, 1 if (mn == "a8r8g8b8" and i % 2) else 0) if MF else none_m
        dx, dy = rng.randint(0, 3), rng.randint(0, 1)
        cw, ch = rng.randint(1, w - dx), rng.randint(1, h - dy)
        sx, sy = (0, 0) if solid else (rng.randint(0, w - cw), rng.randint(0, h - ch))
        mx, my = rng.randint(0, w - cw), rng.randint(0, h - ch)
        add("composite", [1, 2, 4, 7] if MF else [1, 2, 3], D, S, M,
            [ops[i % len(ops)], sx, sy, mx, my, dx, dy, cw, ch], DF.name)

    # ---- pixman_image_fill_boxes / fill_rectangles
    for i in range(120 if quick else 900):
        DF = fmts[["a8r8g8b8", "r5g6b5", "a8", "a1", "a4", "r8g8b8", "x8r8g8b8", "a1r5g5b5"][i % 8]]
        w, h = 21, 4
        D = equiv_img("D", DF, w, h, rng)
        op = [1, 3, 12, 0, 3][i % 5]
        a = rng.choice([0xffff, 0xffff, 0x8000, 0x0000, 0x1234])
        col = [min(rng.getrandbits(16), a), min(rng.getrandbits(16), a), min(rng.getrandbits(16), a), a]
        nb = rng.randint(1, 3)
        if i % 2:
            boxes = []
            for _ in range(nb):
                x1, y1 = rng.randint(0, w - 1), rng.randint(0, h - 1)
                boxes += [x1, y1, rng.randint(x1 + 1, w), rng.randint(y1 + 1, h)]
            add("fill_boxes", [1], D, none_s, none_m, [op] + col + [nb] + boxes, DF.name)
        else:
            rects = []
            for _ in range(nb):
                x1, y1 = rng.randint(0, w - 1), rng.randint(0, h - 1)
                rects += [x1, y1, rng.randint(1, w - x1), rng.randint(1, h - y1)]
            add("fill_rects", [1], D, none_s, none_m, [op] + col + [nb] + rects, DF.name)

    # ---- pixman_composite_glyphs / _no_mask
    for i in range(120 if quick else 900):
        DF = fmts[["a8r8g8b8", "r5g6b5", "a8", "x8r8g8b8", "a1r5g5b5"][i % 5]]
        GF = [A8, A1, A8888, A4][i % 4]
        w, h = 23, 7
        D = equiv_img("D", DF, w, h, rng)
        solid = i % 3 == 0
        S = equiv_img("S", A8888, 1 if solid else w, 1 if solid else h, rng, 1 if solid else 0, extra_pad=not solid)
        M = equiv_img("M", GF, 5, 5, rng, 1 if GF is A8888 else 0)
        op = [3, 12, 1, 3][i % 4]
        n = rng.randint(1, 4)
        pos = []
        for _ in range(n):
            pos += [rng.randint(1, w - 5), rng.randint(1, h - 5)]
        if i % 2:
            maskfmt = GF.code if GF in (A8, A8888) else A8.code
            add("glyphs", [1, 2, 4, 7], D, S, M, [op, maskfmt, 0, 0, 0, 0, 0, 0, w, h, n] + pos, DF.name)
        else:
            add("glyphs", [1, 2, 4, 7], D, S, M, [op, 0, 0, 0, 0, 0, 0, 0, w, h, n] + pos, DF.name)
    return out


HIST_FORMATS = ["a8r8g8b8", "x8r8g8b8", "b8g8r8a8", "r8g8b8", "r5g6b5", "a1r5g5b5", "a4r4g4b4", "a8", "a2b2g2r2", "r3g3b2",
                "a4", "a1r1g1b1", "a1", "a2r10g10b10", "x2b10g10r10", "yuy2", "yv12"]


def gen_hist_cases(fmts, rng, tier):
    """accessor histories on one image (harness/drv_accequiv.c, H lines): callbacks installed after a direct use (h1),
       removed after use (h2), swapped (h3); the callbacks redirect to backing buffers and count calls"""
    out = []
    w, h = 9, 2
    hists = ["DA", "AD", "ABA", "DAD"] if tier == "quick" else ["DA", "AD", "ABA", "DAD", "BAB", "DBA", "ADB"]
    ops = {"s": [1, 3], "m": [3, 5], "d": [1, 3, 12]}
    k = 0
    for name in HIST_FORMATS:
        F = fmts[name]
        stride = ((w * F.bpp + 31) // 32) * 4 + 4
        nbytes = stride * h
        if F.type == TYPE_YV12:          # planar: Y rows, then the V and U planes (YV12_SETUP of pixman-access.c)
            stride = 16
            sw_ = stride // 4
            off0 = sw_ * h
            off1 = off0 + (off0 >> 2)
            nbytes = 4 * (off1 + (sw_ >> 1) * ((h + 1) >> 1) + 4)
        for role in ("s", "m", "d"):
            if role == "d" and not F.dst_ok:
                continue
            for hist in hists:
                k += 1
                op = ops[role][k % len(ops[role])]
                bufs = [bytes(rng.getrandbits(8) for _ in range(nbytes)) for _ in range(3)]
                plain = [bytes(rng.getrandbits(8) for _ in range(w * 4 * h)) for _ in range(2)]
                line = "H %s %s %d %d %d %d %d %s" % (role, hist, F.code, w, h, stride, op,
                                                      " ".join(b.hex() for b in bufs + plain))
                out.append(("hist-" + role + "-" + hist, name, line))
    return out


MC_CODES_NOTE = "spec/mc/FormatsMC.tla AllCodes"


def check_mc_codes(fmts):
    """the format list model-checked must be the list the library accepts"""
    txt = open(os.path.join(vf.SPEC, "mc", "FormatsMC.tla")).read()
    import re
    blk = txt[txt.index("AllCodes =="):]
    blk = blk[:blk.index("}")]
    mc = set((int(a) << 16) | int(b) for a, b in re.findall(r"<<(\d+), (\d+)>>", blk))
    lib = set(f.code for f in fmts.values() if f.src_ok and (f.packed or f.indexed))
    if mc != lib:
        raise vf.Infra("format list of %s differs from pixman_format_supported_source of the library: only in MC %s, only in "
                       "library %s" % (MC_CODES_NOTE, sorted(mc - lib), sorted(lib - mc)))


GROUP = 40          # cases per Reset-delimited execution (a rejected execution is what gets saved for replay)


def run_driver(exe, script_lines, wd, tag, nb, env_extra=None, timeout=900):
    """split the cases into nb scripts of Reset-delimited groups, run the driver on each, return trace files.
       A line may hold several newline-joined requests that must stay together (chains)."""
    traces = []
    env = dict(os.environ)
    if env_extra:
        env.update(env_extra)
    for bi in range(nb):
        part = script_lines[bi::nb]
        if not part:
            continue
        sp = os.path.join(wd, "%s%d.script" % (tag, bi))
        with open(sp, "w") as f:
            for g, grp in enumerate(chunks(part, GROUP)):
                f.write("R %s%d_%d\n" % (tag, bi, g))
                f.write("\n".join(grp) + "\n")
        tr = os.path.join(wd, "%s%d.ndjson" % (tag, bi))
        p = vf.sh([exe, sp, tr], timeout=timeout, check=False, env=env)
        if p.returncode != 0:
            raise vf.Infra("driver %s failed rc=%d: %s" % (os.path.basename(exe), p.returncode, (p.stdout or "")[-1000:]))
        drop_partial_event(tr)
        traces.append(tr)
    return traces


def drop_partial_event(tr):
    """a driver that crashes inside the library leaves the event it was writing unfinished, followed by the Crash
       event of its signal handler; the unfinished line is dropped so that TLC can read the trace and reject the
       Crash event (which no action of the trace specification explains)"""
    with open(tr, "rb") as f:
        f.seek(0, 2)
        f.seek(max(0, f.tell() - 200))
        if b'"e":"Crash"' not in f.read():
            return
    keep = []
    for line in open(tr, errors="replace"):
        if not line.strip():
            continue
        try:
            json.loads(line)
            keep.append(line if line.endswith("\n") else line + "\n")
        except ValueError:
            pass
    open(tr, "w").writelines(keep)


GENERAL_ONLY = {"PIXMAN_DISABLE": "fast mmx sse2 ssse3"}
C_FAST_PATHS = {"PIXMAN_DISABLE": "mmx sse2 ssse3"}            # the portable C fast paths, otherwise shadowed by SIMD ones


def run_c10(args):
    chk = vf.Check("C10", args.tier, args.seed)
    quick = args.tier == "quick"
    rng = random.Random(args.seed * 1000003 + 10)
    wd = vf.workdir("pixel-C10")
    exe, px = vf.build_driver("drv_pixel", "plain")
    chk.extra["build"] = px["hash"]
    fmts = library_formats(exe)
    check_mc_codes(fmts)

    if args.replay:
        tr = os.path.join(wd, "replay.ndjson")
        script = args.replay if args.replay.endswith(".script") else args.replay + ".script"
        e = dict(os.environ)
        if os.path.exists(script + ".general"):
            e["PIXMAN_DISABLE"] = open(script + ".general").read().strip()
        if any(l.startswith("E ") or l.startswith("H ") for l in open(script)):
            exe, _ = vf.build_driver("drv_accequiv", "plain")
        vf.sh([exe, script, tr], timeout=600, env=e)
        vf.validate_batches(chk, "FormatsTrace", [tr], parallel=1)
        return chk.finish()

    # 1. design-level model checking
    base = os.path.join(vf.SPEC, "mc")
    for cfg, neg in (("FormatsMC.cfg", False), ("FormatsMC_neg_zerofill.cfg", True),
                     ("FormatsMC_neg_clobber.cfg", True), ("FormatsMC_neg_bgra.cfg", True)):
        r = vf.tlc_mc(os.path.join(base, "FormatsMC.tla"), cfg=os.path.join(base, cfg), workers=16 if not neg else 4,
                      timeout=1500, expect_violation=neg)
        chk.add_tlc(r, ("negative config (must be rejected) " if neg else "model check ") + cfg)
        if not neg and (r.inv_violation or r.deadlock):
            raise vf.Infra("the Formats model itself violates an invariant:\n" + r.out[-2500:])

    # 2. cases: boundary words enumerated by TLC from the spec's layout + all values / seeded values
    bwords, r = gen_boundary_words(fmts, args.tier)
    chk.add_tlc(r, "boundary word generation (FormatsGen)")
    chk.extra["tlc_generated_boundary_words"] = sum(len(v) for v in bwords.values())
    cases = gen_c10_cases(fmts, bwords, rng, args.tier)
    lines = [c[3] for c in cases]
    chk.extra["cases"] = len(cases)
    chk.extra["formats_exercised"] = sorted(set(c[1].name for c in cases))
    chk.sample({"script_line": lines[0][:300]})
    chk.sample({"script_line": lines[-1][:300]})

    # 3. execute: default implementation chain, and general implementation only
    nb = 12 if quick else 48
    traces = run_driver(exe, lines, wd, "def", nb)
    traces_g = run_driver(exe, lines, wd, "gen", nb, env_extra=GENERAL_ONLY)
    # 3b. accessor equivalence of every drawing entry point (ViaAccessors(req) = Direct(req))
    exe_e, _ = vf.build_driver("drv_accequiv", "plain")
    ecases = gen_equiv_cases(fmts, rng, args.tier)
    hcases = gen_hist_cases(fmts, rng, args.tier)
    chk.extra["accessor_history_scenarios"] = len(hcases)
    ecases += hcases
    elines = [c[2] for c in ecases]
    traces += run_driver(exe_e, elines, wd, "eqd", 12)
    traces_g += run_driver(exe_e, elines, wd, "eqg", 12, env_extra=GENERAL_ONLY)
    byentry = {}
    for entry, dname, line in ecases:
        byentry["%s -> %s" % (entry, dname)] = byentry.get("%s -> %s" % (entry, dname), 0) + 1
        chk.distinct_keys.add(hashlib.sha1(line.encode()).hexdigest()[:16])
    chk.extra["accessor_equivalence_requests"] = len(ecases)
    chk.extra["accessor_equivalence_by_entry_point"] = byentry
    chk.sample({"accessor_equivalence_script_line": elines[0][:260]})
    for tr in traces + traces_g:
        for line in open(tr):
            if line.startswith('{"e":"Fetch"') or line.startswith('{"e":"Store"') or line.startswith('{"e":"Equiv"') or line.startswith('{"e":"Hist"'):
                chk.evaluations += 1
    for kind, F, C, line in cases:
        chk.distinct_keys.add(hashlib.sha1(line.encode()).hexdigest()[:16])
    bykind = {}
    for kind, F, C, line in cases:
        key = "%s %s via %s" % ("fetch+back" if kind == "F" else "store", F.name, C.name)
        bykind[key] = bykind.get(key, 0) + 1
    chk.extra["cases_by_format"] = bykind

    # 4. trace validation
    vf.validate_batches(chk, "FormatsTrace", traces + traces_g, parallel=12, timeout=1500, xmx="4g")
    for v in chk.violations:
        save_replay_script(v, wd, traces_g)
    chk.extra["rule"] = ("a case is one script line (format, canonical format, offsets, row of raw values, palette) executed "
                         "through every presentation; distinct = distinct script line; every case is run under the default "
                         "implementation chain and with PIXMAN_DISABLE='fast mmx sse2 ssse3'")
    cleanup(chk, wd, args)
    chk.assumptions += ["little-endian host", "float images hold no NaN/Inf (outside the domain of pixel values)",
                        "TLC/SANY and the CommunityModules Json reader are trusted",
                        "rgba_float / rgb_float are not accepted by pixman_format_supported_source and have no accessor "
                        "variants in the library; they serve as the canonical float representation"]
    return chk.finish()


def cleanup(chk, wd, args):
    """traces are deleted after acceptance (the evidence keeps samples); kept on a violation or with --keep"""
    if not chk.violations and not getattr(args, "keep", False):
        shutil.rmtree(wd, ignore_errors=True)


def save_replay_script(v, wd, general_traces):
    """put the script of the rejected execution next to the saved replay so that --replay can re-execute it"""
    try:
        first = json.loads(open(v["replay"]).readline())
        name = first.get("scenario", "")
        m = re.match(r"([a-z]+\d+)_\d+$", name)
        if not m:
            return
        base = m.group(1)
        lines = open(os.path.join(wd, base + ".script")).read().splitlines()
        i = lines.index("R " + name)
        j = i + 1
        while j < len(lines) and not lines[j].startswith("R "):
            j += 1
        open(v["replay"] + ".script", "w").write("\n".join(lines[i:j]) + "\n")
        if base.startswith("gen") or base.startswith("eqg"):
            open(v["replay"] + ".script.general", "w").write("fast mmx sse2 ssse3\n")
        if base.startswith("cfp"):
            open(v["replay"] + ".script.general", "w").write("mmx sse2 ssse3\n")
    except Exception as e:       # replay convenience only
        vf.log("could not save replay script: %r" % e)


# ------------------------------------------------------------------------------------------
# C01: compositing operators

SOLID16 = [0xffff, 0xfffe, 0xffc0, 0xff80, 0xff00, 0xfeff, 0x8000, 0x0100, 0x00ff, 1, 0]
QUICK_DST = ["a8r8g8b8", "x8r8g8b8", "r5g6b5", "a8", "a1r5g5b5", "a2r10g10b10"]
QUICK_SRC = ["a8r8g8b8", "x8r8g8b8", "r5g6b5", "a8", "a4r4g4b4", "a2r10g10b10", "b8g8r8a8"]
QUICK_MSK = ["a8", "a8r8g8b8", "a4", "a1", "x8r8g8b8"]
NEEDS_DIV = set([13] + list(range(16, 28)) + list(range(32, 44)) + [53, 54, 56, 59, 60, 61, 62])


def tlc_cases(seed):
    """TLC enumerates operators x modes x edge families from the spec (spec/gen/CombineGen.tla)"""
    path = os.path.join(vf.SPEC, "gen", "CombineGen.tla")
    r = vf.run_tlc(path, workers=1, timeout=600, tag="cgen", extra=["-seed", str(seed)])
    cases = []
    for m in re.finditer(r'<<\s*"VF:case",\s*("(?:[^"\\]|\\.)*")\s*>>', r.out):
        cases.append(json.loads(json.loads(m.group(1))))
    if len(cases) < 1000:
        raise vf.Infra("CombineGen produced %d cases:\n%s" % (len(cases), r.out[-2000:]))
    return cases, r


def c01_domain(F):
    return F.packed and F.type != TYPE_SRGB


def premult_native(F, vals):
    """clamp native colour values so that colour/max <= alpha/max (exact rationals)"""
    bt = F.bits()
    if not bt["a"]:
        return vals
    am = (1 << bt["a"]) - 1
    for c in "rgb":
        if bt[c]:
            cm = (1 << bt[c]) - 1
            lim = (vals["a"] * cm) // am
            vals[c] = min(vals[c], lim)
    return vals


def native_from8(F, a, r, g, b):
    v8 = {"a": a, "r": r, "g": g, "b": b}
    bt = F.bits()
    vals = {}
    for c in "argb":
        n = bt[c]
        vals[c] = 0 if not n else ((v8[c] >> (8 - n)) if n <= 8 else ((v8[c] << (n - 8)) | (v8[c] >> (16 - n))))
    return vals


SPECIAL_CODES = {0: "null", 1 << 16: "solid", 2 << 16: "pixbuf", 3 << 16: "rpixbuf", 4 << 16: "unknown", 5 << 16: "any"}

# used when harness/drv_fastpaths.c no longer compiles against pixman's internal header:
# (op, source, source presentation kind, mask, component alpha, destination)
FALLBACK_FASTPATHS = [
    (3, "solid", "solid", "a8", 0, "a8r8g8b8"), (3, "solid", "solid", "a8", 0, "r5g6b5"), (3, "solid", "solid", "a8r8g8b8", 1, "a8r8g8b8"),
    (3, "a8r8g8b8", "id", None, 0, "a8r8g8b8"), (3, "a8r8g8b8", "id", None, 0, "r5g6b5"), (3, "a8r8g8b8", "id", "solid", 0, "a8r8g8b8"),
    (3, "x8r8g8b8", "id", "a8", 0, "a8r8g8b8"), (3, "a8r8g8b8", "id", "a8", 0, "a8r8g8b8"), (3, "a8r8g8b8", "nearest", None, 0, "a8r8g8b8"),
    (12, "a8", "id", None, 0, "a8"), (12, "a8r8g8b8", "id", None, 0, "a8r8g8b8"), (12, "solid", "solid", "a8", 0, "a8"),
    (12, "solid", "solid", "a8", 0, "a8r8g8b8"), (1, "a8r8g8b8", "id", None, 0, "r5g6b5"), (1, "r5g6b5", "id", None, 0, "a8r8g8b8"),
    (1, "solid", "solid", "a8", 0, "a8r8g8b8"), (5, "solid", "solid", "a8", 0, "a8"), (5, "a8", "id", None, 0, "a8"),
    (4, "solid", "solid", None, 0, "a8r8g8b8"), (8, "a8", "id", None, 0, "r5g6b5"), (8, "a8", "id", None, 0, "a8r8g8b8"),
]


def library_fastpaths(fmts):
    """the (op, source, mask, destination) combinations pixman has specialised routines for, read from the
       implementation chain of the library under test (input generation only)"""
    bycode = {F.code: F for F in fmts.values()}
    res, seen = [], set()
    try:
        exe, _ = vf.build_driver("drv_fastpaths", "plain")
        out = vf.sh([exe]).stdout
    except vf.Infra as e:
        vf.log("drv_fastpaths unavailable (%s): using the built-in fast path list" % str(e)[:200])
        for op, s, sk, m, ca, d in FALLBACK_FASTPATHS:
            res.append(dict(op=op, fs=fmts["a8r8g8b8"] if s == "solid" else fmts[s], skind=sk,
                            fm=None if m is None else (fmts["a8"] if m == "solid" else fmts[m]),
                            msolid=(m == "solid"), ca=ca, fd=fmts[d]))
        return res, False
    for line in out.splitlines():
        t = line.split()
        if len(t) != 10:
            continue
        level, op, sf, ssolid, sid, snearest, mf, msolid, mca, df = [int(x) for x in t]
        if op > 62 or SPECIAL_CODES.get(sf) in ("any", "pixbuf", "rpixbuf", "unknown") or \
                SPECIAL_CODES.get(mf) in ("any", "pixbuf", "rpixbuf", "unknown") or df in SPECIAL_CODES:
            continue
        skind = "solid" if ssolid else "id" if sid else "nearest" if snearest else None
        if skind is None:
            continue
        fs = fmts["a8r8g8b8"] if ssolid else bycode.get(sf)
        fm = None if mf == 0 else (fmts["a8r8g8b8"] if (msolid and mca) else fmts["a8"] if msolid else bycode.get(mf))
        fd = bycode.get(df)
        if fs is None or fd is None or (mf != 0 and fm is None):
            continue
        if not (c01_domain(fs) and c01_domain(fd) and (fm is None or c01_domain(fm))):
            continue
        key = (op, skind, fs.code, None if fm is None else fm.code, bool(msolid), mca, fd.code)
        if key in seen:
            continue
        seen.add(key)
        res.append(dict(op=op, fs=fs, skind=skind, fm=fm, msolid=bool(msolid), ca=mca, fd=fd))
    return res, True


def residue_pairs():
    """(a, b) whose product a*b lies on the residues mod 255 where 8-bit multiply-and-round is sensitive to its
       rounding constant (the pairs for which the constants 0x80 and 0x7f give different results, 126..130) and on
       0 / 254, spread over small, medium and large products"""
    def mul(a, b, h):
        t = a * b + h
        return (t + (t >> 8)) >> 8
    sens = sorted(((a * b, a, b) for a in range(1, 256) for b in range(a, 256) if mul(a, b, 0x80) != mul(a, b, 0x7f)))
    picked = [(a, b) for (_, a, b) in sens[::max(1, len(sens) // 24)]]
    for res in (126, 127, 128, 129, 130, 0, 254):
        cand = sorted(((a * b, a, b) for a in range(2, 256) for b in range(a, 256) if (a * b) % 255 == res))
        for q in (0.05, 0.5, 0.95):
            _, a, b = cand[int(q * (len(cand) - 1))]
            picked.append((a, b))
    seen, res_ = set(), []
    for pr in picked:
        if pr not in seen:
            seen.add(pr)
            res_.append(pr)
    return res_


def build_row(tc, fs, fm, fd, pres, mpres, rng, origin, chain=None, solid16=None, msolid16=None, dither=(0, 0, 0), drep=0):
    """one composite request from a TLC-generated row of abstract pixel tuples; chain = the previous request
       whose destination this one continues on (same geometry; DST "=")"""
    op, mode, fam, row = tc["op"], tc["mode"], tc["fam"], tc["row"]
    w = len(row)
    narrow = (not fs.wide) and (not fd.wide) and (fm is None or not fm.wide)
    exact = op <= 12 and narrow and not dither[0]        # a dithered destination is written through the wide pipeline
    if pres in (3, 6):
        sx, sw = -2, max(1, w - 3)
    elif pres == 2:
        sx = rng.randint(0, 3)
        sw = (sx + w - 1) // 2 + 2
    elif pres == 5:
        sx, sw = rng.randint(0, 5), 1
    elif pres == 7:
        sx, sw = 0, 1
    else:
        sx = rng.randint(0, 2)
        sw = sx + w + 1

    def spos(i):
        if pres == 2:
            return (sx + i) // 2
        if pres in (3, 6):
            return min(max(sx + i, 0), sw - 1)
        if pres in (5, 7):
            return 0
        return sx + i
    if pres == 7:               # a solid-fill image: solid16 = 16-bit (a, r, g, b)
        spx = [solid16[0] | solid16[1] << 16 | solid16[2] << 32 | solid16[3] << 48]
        src = struct.pack("<4H", *solid16)
    else:
        spx = [rng.getrandbits(fs.bpp) for _ in range(sw)]
        for i, t in enumerate(row):
            v = native_from8(fs, *t["s"])
            if not exact:
                v = premult_native(fs, v)
            spx[spos(i)] = fs.word(v)
        src = pack_pixels(fs.bpp, spx, 0, sw, rng, pad_words=0 if pres == 5 else 1)
    if fm is not None:
        if mpres == 2:          # a solid-fill mask
            mx, mw = 0, 1
            mpx = [msolid16[0] | msolid16[1] << 16 | msolid16[2] << 32 | msolid16[3] << 48] * w
            msk = struct.pack("<4H", *msolid16)
        elif mpres == 1:
            mx, mw = rng.randint(0, 3), 1
            mraw = [fm.word(native_from8(fm, *row[0]["m"]))]
            mpx = [mraw[0]] * w
            msk = pack_pixels(fm.bpp, mraw, 0, 1, rng, pad_words=0)
        else:
            mx = rng.randint(0, 1)
            mw = mx + w + 1
            mpx = [fm.word(native_from8(fm, *t["m"])) for t in row]
            msk = pack_pixels(fm.bpp, mpx, mx, mw, rng)
    else:
        mx, mw, msk, mpx = 0, 0, b"", [0] * w
    dx = rng.randrange(max(1, 128 // fd.bpp))          # every alignment within a 16-byte block (SIMD heads / tails)
    dw = dx + w + 1
    if chain is not None:
        dx, dw = chain["dx"], chain["dw"]
    dpx = []
    for t in row:
        v = native_from8(fd, *t["d"])
        if not exact:
            v = premult_native(fd, v)
        dpx.append(fd.word(v))
    dst = pack_pixels(fd.bpp, dpx, dx, dw, rng)
    line = "C %d %d %d %d %d %d %d %d %d %d %d %d %d %d %d %d %d %d %d %s %s %s" % (
        op, 1 if mode == "ca" else 0, 0 if fm is None else 1, fs.code, fm.code if fm else 0, fd.code,
        pres, mpres, sw, sx, mw, mx, dw, dx, w, dither[0], dither[1], dither[2], drep,
        hx(src), hx(msk), "=" if chain is not None else hx(dst))
    keys = [(op, mode, fs.code, fm.code if fm else 0, fd.code, spx[spos(i)], mpx[i], dpx[i]) for i in range(w)]
    if chain is not None:
        keys = []                   # the destination values are whatever the previous request left
    return dict(line=line, dx=dx, dw=dw, chained=chain is not None, op=op, mode=mode, fam=fam, fs=fs.name, fm=fm.name if fm else None, fd=fd.name,
                pres=pres, mpres=mpres, w=w, exact=exact, narrow=narrow, keys=keys, origin=origin)


def gen_c01_cases(fmts, tcases, fastpaths, rng, tier):
    quick = tier == "quick"
    A8888 = fmts["a8r8g8b8"]
    if quick:
        dsts = [fmts[n] for n in QUICK_DST]
        srcs = [fmts[n] for n in QUICK_SRC]
        msks = [fmts[n] for n in QUICK_MSK]
        per_case = 3
    else:
        dsts = [F for F in fmts.values() if F.dst_ok and c01_domain(F) and F.name not in ("x4c4", "x4g4")]
        srcs = [F for F in fmts.values() if F.src_ok and c01_domain(F)]
        msks = [fmts[n] for n in ("a8", "a8r8g8b8", "a4", "a1", "x8r8g8b8", "a2r10g10b10", "r5g6b5", "a4r4g4b4", "b8g8r8a8")]
        per_case = 14
    out = []
    k = 0
    # ---- every case class on: the canonical format, a same-format pair, and seeded format triples / presentations
    for tc in tcases:
        mode = tc["mode"]
        for rep in range(per_case):
            k += 1
            if rep == 0:
                fs, fd, pres, mpres = A8888, A8888, 0, 0
                fm = None if mode == "none" else (A8888 if mode == "ca" else fmts["a8"])
            elif rep == 1:
                fd = dsts[k % len(dsts)]
                fs = fd
                fm = None if mode == "none" else msks[k % len(msks)]
                pres = rng.choice([0, 1, 2, 3, 4, 5, 6, 8])
                mpres = rng.choice([0, 0, 1, 3])
            else:
                fd = dsts[k % len(dsts)]
                fs = rng.choice(srcs)
                fm = None if mode == "none" else rng.choice(msks)
                pres = rng.choice([0, 0, 1, 2, 3, 4, 4, 5, 6, 8])
                mpres = rng.choice([0, 0, 0, 1, 3])
            out.append(build_row(tc, fs, fm, fd, pres, mpres, rng, "class"))
            if rep == 0 and (k // per_case) % 3 == 0:
                # a chain: a second operator applied to the destination the first one left (state continuity)
                tc2 = dict(tc, op=(tc["op"] * 5 + 3) % 13, mode="none")
                out.append(build_row(tc2, fs, None, fd, 0, 0, rng, "chain", chain=out[-1]))
    # ---- every specialised routine of the implementation chain (and the general path on the same requests)
    by = {}
    for tc in tcases:
        by.setdefault((tc["op"], tc["mode"]), []).append(tc)
    for fp in fastpaths:
        mode = "none" if fp["fm"] is None else ("ca" if fp["ca"] else "unified")
        cands = by.get((fp["op"], mode), [])
        if not cands:
            continue
        picks = [c for c in cands if c["fam"] in ("sat", "rnd")] + [rng.choice(cands)]
        if not quick:
            picks = cands
        for tc in picks:
            if fp["skind"] == "solid":
                pres = 5
            elif fp["skind"] == "id":
                pres = 0
            else:
                pres = rng.choice([2, 4, 6])
            out.append(build_row(tc, fp["fs"], fp["fm"], fp["fd"], pres, 1 if fp["msolid"] else 0, rng, "fastpath"))
    # ---- the four cells of the library's operator strength reduction (neither / source / destination / both opaque)
    #      for every operator of the Porter-Duff, SATURATE, DISJOINT and CONJOINT families: destinations without alpha
    #      with and without a repeat mode set on the DESTINATION image (legal; it must not change the result), sources
    #      opaque by format, solid with alpha 1, a8r8g8b8 with alpha 255, translucent; all mask kinds
    X888, R565 = fmts["x8r8g8b8"], fmts["r5g6b5"]
    k = 0
    for (op, mode), cands in sorted(by.items()):
        if op >= 48:
            continue
        pool = [c for c in cands if c["fam"] in ("premul", "rndpm", "sat", "edge", "div")]
        fm = None if mode == "none" else (fmts["a8"] if mode == "unified" else A8888)
        for skind in ("fmt", "solid1", "a255", "trans"):
            dvars = [(X888, 0), (X888, 1 + k % 3), (R565, 1 + (k + 1) % 3)] + ([(A8888, 1 + k % 3)] if skind == "trans" else [])
            for (fd, drep) in dvars:
                k += 1
                tc = dict(pool[k % len(pool)])
                row = [dict(t) for t in tc["row"][:6]]
                if skind == "a255":
                    for t in row:
                        t["s"] = [255] + list(t["s"][1:])
                tc["row"] = row
                # an opaque source counts as opaque only under an opaque mask: every third masked row has a solid mask 1
                mp, ms = (2, [0xffff] * 4) if (fm is not None and k % 3 == 0) else (0, None)
                if skind == "fmt":
                    out.append(build_row(tc, X888, fm, fd, 0, mp, rng, "reduce", msolid16=ms, drep=drep))
                elif skind == "solid1":
                    col = [0xffff] + [rng.choice(SOLID16) for _ in range(3)]
                    out.append(build_row(tc, A8888, fm, fd, 7, mp, rng, "reduce", solid16=col, msolid16=ms, drep=drep))
                else:
                    out.append(build_row(tc, A8888, fm, fd, 0, mp, rng, "reduce", msolid16=ms, drep=drep))

    # ---- ordered dithering of the destination (bayer / blue noise, non-zero offsets) on narrow destinations: the
    #      request goes through the wide pipeline; the result must still be within one step of the real value
    k = 0
    dith_dst = [fmts["r5g6b5"], fmts["a1r5g5b5"], A8888]
    for tc in tcases:
        if tc["fam"] not in ("premul", "rndpm", "sat") or (tc["op"] * 7 + len(tc["row"])) % (4 if quick else 1):
            continue
        k += 1
        fd = dith_dst[k % 3]
        fs = [A8888, fmts["x8r8g8b8"], fmts["r5g6b5"], fmts["a8"]][k % 4]
        fm = None if tc["mode"] == "none" else (fmts["a8"] if tc["mode"] == "unified" else A8888)
        dith = ([1, 2, 3, 4, 5][k % 5], [3, 61, 1, 7][k % 4], [5, 2, 63, 9][(k // 4) % 4])
        out.append(build_row(tc, fs, fm, fd, rng.choice([0, 0, 4, 5]), 0, rng, "dither", dither=dith))

    # ---- rounding residues of the 8-bit multiply-and-round primitive: products a*b on the residues mod 255 where
    #      a rounding constant or carry that is off by one changes the result (and on 0 / 254), through the operators
    #      and format combinations whose 8-bit routines multiply scalars (solid x a8 -> a8 IN / ADD, a8 IN a8, ...)
    pairs = residue_pairs()
    tuples = []
    for (a, b) in pairs:
        tuples.append({"s": [a] * 4, "m": [b] * 4, "d": [(a * 7 + b) % 256] * 4})      # source x mask
        tuples.append({"s": [255] * 4, "m": [a] * 4, "d": [b] * 4})                   # mask x destination
        tuples.append({"s": [a] * 4, "m": [255] * 4, "d": [b] * 4})                   # source x destination
    A8 = fmts["a8"]
    X888 = fmts["x8r8g8b8"]
    combos = {"none": [(A8, None, A8, 0), (A8888, None, A8888, 0), (A8888, None, X888, 0)],
              "unified": [(A8888, A8, A8, 5), (A8888, A8, A8888, 0), (X888, A8, A8888, 5)],
              "ca": [(A8888, A8888, A8888, 0), (A8888, A8888, A8888, 5)]}
    for op in (3, 5, 7, 9, 11, 12, 48, 49):
        for mode in ("none", "unified", "ca"):
            for (fs, fm, fd, pres) in combos[mode]:
                if pres == 5:
                    # a solid source shows one value to the whole row: one short row per sensitive (source, mask) pair
                    if op not in (3, 5, 12):
                        continue
                    for i in range(0, len(tuples), 3):
                        t = tuples[i]
                        row = [t] + [dict(tuples[(i + 7 * j) % len(tuples)], s=t["s"]) for j in range(1, 4)]
                        out.append(build_row(dict(op=op, mode=mode, fam="residue", row=row), fs, fm, fd, 5, 0, rng, "residue"))
                    continue
                for grp in chunks(tuples, 17):
                    out.append(build_row(dict(op=op, mode=mode, fam="residue", row=grp), fs, fm, fd, pres, 0, rng, "residue"))

    # ---- solid-fill images (pixman_image_create_solid_fill) as source and as mask, with 16-bit channels that are
    #      not replications of 8-bit values: the 8-bit pipeline sees the high bytes, the float pipeline the true
    #      values (alpha 0xff00..0xfffe is NOT opaque); bright destinations make a lost (1 - sa) d term visible
    deep = [fmts[n] for n in ("a2r10g10b10", "x2r10g10b10", "a2b10g10r10", "x2b10g10r10")]
    shallow = [A8888, fmts["r5g6b5"], fmts["x8r8g8b8"], fmts["a8"]]
    k = 0
    for (op, mode), cands in sorted(by.items()):
        if op in (59, 60, 61, 62) and mode == "ca":
            continue
        pool = [c for c in cands if c["fam"] in ("sat", "premul", "rndpm", "edge")]
        for a16 in SOLID16:
            k += 1
            tc = dict(pool[k % len(pool)])
            row = [dict(t) for t in tc["row"][:8]]
            for i, t in enumerate(row):                   # bright (white / opaque) destinations on half of the pixels
                if i % 2 == 0:
                    t["d"] = [255, 255, 255, 255]
            tc["row"] = row
            col = [a16] + [min(rng.choice(SOLID16), a16) for _ in range(3)]
            fd = deep[k % 4] if (k % 5) else shallow[(k // 5) % 4]
            if mode == "none":
                out.append(build_row(tc, A8888, None, fd, 7, 0, rng, "solid16", solid16=col))
            else:
                # solid mask over an opaque bits source (the mask alone carries the coverage), and solid source under a bits mask
                if k % 3:
                    for t in row:
                        t["s"] = [255] + list(t["s"][1:])
                    mcol = col if mode == "ca" else [a16, 0, 0, 0]
                    out.append(build_row(tc, fmts["x8r8g8b8"] if k % 2 else A8888, A8888, fd, rng.choice([0, 0, 5]), 2, rng,
                                         "solid16", msolid16=mcol))
                else:
                    fm = fmts["a8"] if mode == "unified" else A8888
                    out.append(build_row(tc, A8888, fm, fd, 7, rng.choice([0, 1]), rng, "solid16", solid16=col))
    return out


def script_units(cases):
    """script lines; a chained request is kept on the same unit as its predecessor"""
    units = []
    for c in cases:
        if c.get("chained") and units:
            units[-1] += "\n" + c["line"]
        elif not c.get("chained"):
            units.append(c["line"])
    return units


def run_c01(args):
    chk = vf.Check("C01", args.tier, args.seed)
    rng = random.Random(args.seed * 1000003 + 1)
    wd = vf.workdir("pixel-C01")
    exe, px = vf.build_driver("drv_composite", "plain")
    exe_p, _ = vf.build_driver("drv_pixel", "plain")
    chk.extra["build"] = px["hash"]
    fmts = library_formats(exe_p)

    if args.replay:
        tr = os.path.join(wd, "replay.ndjson")
        script = args.replay if args.replay.endswith(".script") else args.replay + ".script"
        e = dict(os.environ)
        if os.path.exists(script + ".general"):
            e["PIXMAN_DISABLE"] = open(script + ".general").read().strip()
        vf.sh([exe, script, tr], timeout=600, env=e)
        vf.validate_batches(chk, "CombineTrace", [tr], parallel=1)
        return chk.finish()

    # 1. design-level model checking
    base = os.path.join(vf.SPEC, "mc")
    for cfg, neg in (("CombineMC.cfg", False), ("CombineMC_neg_mul.cfg", True), ("CombineMC_neg_over.cfg", True),
                     ("CombineMC_neg_iv.cfg", True)):
        r = vf.tlc_mc(os.path.join(base, "CombineMC.tla"), cfg=os.path.join(base, cfg), workers=16 if not neg else 4,
                      timeout=1500, expect_violation=neg)
        chk.add_tlc(r, ("negative config (must be rejected) " if neg else "model check ") + cfg)
        if not neg and (r.inv_violation or r.deadlock):
            raise vf.Infra("the Combine model itself violates an invariant:\n" + r.out[-2500:])

    # 2. case classes enumerated by TLC, mapped on formats and presentations
    tcases, r = tlc_cases(args.seed)
    chk.add_tlc(r, "case class enumeration (CombineGen)")
    if args.tier != "quick":                     # more pixel tuples per class: further enumerations under other seeds
        for extra_seed in (args.seed + 1000, args.seed + 2000):
            more, r = tlc_cases(extra_seed)
            chk.add_tlc(r, "case class enumeration (CombineGen, seed %d)" % extra_seed)
            tcases += more
    chk.extra["tlc_generated_case_classes"] = len(tcases)
    fastpaths, from_lib = library_fastpaths(fmts)
    chk.extra["fast_path_combinations"] = len(fastpaths)
    chk.extra["fast_path_list_from_library"] = from_lib
    cases = gen_c01_cases(fmts, tcases, fastpaths, rng, args.tier)
    lines = script_units(cases)
    chk.sample({"tlc_case_class": {k: (v if k != "row" else v[:2]) for k, v in tcases[len(tcases) // 2].items()}})
    chk.sample({k: v for k, v in cases[1].items() if k not in ("keys", "line")})
    chk.sample({"script_line": lines[1][:300]})
    npx = sum(c["w"] for c in cases)
    chk.extra["pixel_cases"] = npx
    chk.extra["pixel_cases_exact_class"] = sum(c["w"] for c in cases if c["exact"])
    chk.extra["pixel_cases_tolerance_class"] = sum(c["w"] for c in cases if not c["exact"])
    chk.extra["rows_by_presentation"] = {str(p): sum(1 for c in cases if c["pres"] == p) for p in range(8)}
    chk.extra["rows_with_solid_mask"] = sum(1 for c in cases if c["mpres"] == 1)
    chk.extra["rows_aimed_at_fast_paths"] = sum(1 for c in cases if c["origin"] == "fastpath")
    chk.extra["rows_operator_reduction_cells"] = sum(1 for c in cases if c["origin"] == "reduce")
    chk.extra["rows_with_dithered_destination"] = sum(1 for c in cases if c["origin"] == "dither")
    chk.extra["rows_rounding_residue_suite"] = sum(1 for c in cases if c["origin"] == "residue")
    chk.extra["rows_with_solid_fill_source_or_mask_16bit"] = sum(1 for c in cases if c["origin"] == "solid16")
    chk.extra["rows_chained_on_previous_destination"] = sum(1 for c in cases if c["origin"] == "chain")
    chk.extra["rows_wide_pipeline_with_mask_and_transformed_source"] = sum(
        1 for c in cases if c["pres"] != 0 and c["mode"] != "none" and (not c["narrow"] or c["op"] in NEEDS_DIV))
    chk.extra["operators"] = len(set(c["op"] for c in cases))
    chk.extra["destination_formats"] = sorted(set(c["fd"] for c in cases))
    for c in cases:
        for key in c["keys"]:
            chk.distinct_keys.add(hash(key))

    # 3. execute: default implementation chain, and general implementation only
    nb = 12
    traces = run_driver(exe, lines, wd, "def", nb)
    traces_g = run_driver(exe, lines, wd, "gen", nb, env_extra=GENERAL_ONLY)
    # the portable C fast paths are shadowed by the SIMD ones in the default chain: run them on their own
    cfast = [c for c in cases if c["origin"] in ("fastpath", "solid16", "residue") or args.tier != "quick"]
    traces_c = run_driver(exe, script_units(cfast), wd, "cfp", nb, env_extra=C_FAST_PATHS)
    chk.evaluations = 2 * npx + sum(c["w"] for c in cfast)

    # 4. trace validation
    vf.validate_batches(chk, "CombineTrace", traces + traces_g + traces_c, parallel=12, timeout=2400, xmx="4g")
    for v in chk.violations:
        save_replay_script(v, wd, traces_g)
    chk.extra["rule"] = ("a case is one destination pixel of one composite request; distinct = distinct (operator, mask mode, "
                         "source/mask/destination format, raw source, mask, destination pixel); every case is executed under "
                         "the default chain and with PIXMAN_DISABLE='fast mmx sse2 ssse3'; tolerance-class inputs are "
                         "premultiplied by construction, so every case is judged")
    cleanup(chk, wd, args)
    chk.assumptions += ["little-endian host", "tolerance class judged on premultiplied inputs (colour <= alpha)",
                        "HSL operators with a component-alpha mask and sRGB / float formats are outside the domain; a dithered "
                        "destination is accepted within one step of the real value or as the undithered result",
                        "the source pixel a destination pixel sees under the five presentations is the sampling rule of C08 "
                        "(integer translation, exact 2x scale, PAD clamp, 1+1/65536 scale at small coordinates)",
                        "TLC/SANY and the CommunityModules Json reader are trusted"]
    # root specification (spec/Pixman.tla): region operations -> clip -> composite; every pixel of the composite
    # region must receive the operator's value (exact class), whatever history built the clip
    import pipeline
    pipeline.stage(chk, args)
    return chk.finish()


def run(prop, args):
    if prop == "C10":
        return run_c10(args)
    return run_c01(args)
