# C11: fixed-point transform arithmetic (pixman-matrix.c) against spec/Matrix.tla.
#   MC   spec/mc/BigIntMC     the arbitrary-precision core against native arithmetic (+ negative configs)
#        spec/mc/MatrixMC     the postconditions in a scaled-down fixed-point format against a native
#                             reference model; mutant models (wrap, truncate, per-term ...) must be rejected
#   GEN  spec/gen/MatrixGen   TLC chooses inputs from the magnitude classes of the quantifier
#   RND  seeded Python        implementation-shaped inputs (solved to straddle the limits, w targets, ...)
#   TV   spec/trace/MatrixTrace   every logged call must be a step Matrix!Call -- the verdict is TLC's
# Python only generates inputs, orchestrates and counts.
import hashlib
import json
import math
import os
import random
import struct

import vf

PROPS = {"C11": "C11"}

CLAIMS = {
    "C11": dict(
        technique="TLA+ Matrix spec over arbitrary-precision integers (BigInt, model-checked against native "
                  "arithmetic); TLC-generated and seeded inputs executed on the real pixman_transform_* / "
                  "pixman_f_transform_* API; every call validated by TLC against the exact postcondition",
        text="spec/Matrix.tla states each entry point of pixman-matrix.c as a postcondition over exact integers "
             "(rational matrix-vector product and quotient, rounding to nearest as 2|q d - n| <= |d|, representability, "
             "FALSE exactly when some admissible rounding does not fit). lib/BigInt.tla is checked exhaustively against "
             "TLC's native arithmetic (base 8, all pairs) and by identities at base 2^15; the postconditions are model-checked "
             "in a scaled-down fixed-point format against a native reference and must reject wrapping/truncating/per-term "
             "mutant models. TLC then validates thousands of real calls per run (magnitude classes, w at 0 and +-2^k incl. "
             "the 2^48 divisor boundary, results solved to straddle +-32768, aliasing) for transform_point, point_3d, multiply, "
             "scale, rotate, translate, bounds, invert, init_*, is_*, the fixed/float conversions and, on exactly representable "
             "inputs, the pixman_f_transform_* family. An aborted call is a Crash event that no action explains. Known "
             "defects are named deviation actions admitting exactly the defective value.",
        ref="5 C11"),
}

IMIN, IMAX = -2 ** 31, 2 ** 31 - 1
ONE = 65536
ID9 = [ONE, 0, 0, 0, ONE, 0, 0, 0, ONE]


def clamp(x):
    return max(IMIN, min(IMAX, int(x)))


def fits(x):
    return IMIN <= x <= IMAX


def dh(x):
    return "%016x" % struct.unpack("<Q", struct.pack("<d", float(x)))[0]


# ------------------------------------------------------------------------------------------
# value classes

def rv(rng):
    """a raw 16.16 value from the magnitude classes of the quantifier"""
    r = rng.random()
    if r < 0.12:
        return rng.choice([0, 1, -1, 2, -2, 3, -3])
    if r < 0.22:
        return rng.choice([ONE, -ONE, 32768, -32768, 98304, ONE + 1, ONE - 1, -ONE + 1, -ONE - 1])
    if r < 0.37:
        return clamp(rng.choice([1, -1]) * (1 << rng.randint(0, 30)) + rng.choice([0, 0, 0, 1, -1]))
    if r < 0.45:
        return rng.choice([IMIN, IMIN + 1, IMAX, IMAX - 1, 32767 * ONE, 32767 * ONE + 1, 32767 * ONE + 32768,
                           32767 * ONE + 65535, -32767 * ONE, -32767 * ONE - 1, -32767 * ONE - 65535, -32768 * ONE + 1])
    if r < 0.65:
        return clamp(rng.choice([1, -1]) * rng.getrandbits(rng.randint(1, 31)))
    if r < 0.85:
        return rng.randint(-4 * ONE, 4 * ONE)
    return rng.randint(IMIN, IMAX)


def mod(rng):
    """a moderate coefficient (|x| <= 8.0), often a 'nice' one"""
    r = rng.random()
    if r < 0.3:
        return rng.choice([0, ONE, -ONE, 32768, 2 * ONE, -2 * ONE, 46341, -46341, 3 * ONE, ONE + 1, 16384])
    return rng.randint(-8 * ONE, 8 * ONE)


def mat_rv(rng):
    return [rv(rng) for _ in range(9)]


def mat_affine(rng, big_t=True):
    return [mod(rng), mod(rng), rv(rng) if big_t else mod(rng), mod(rng), mod(rng), rv(rng) if big_t else mod(rng), 0, 0, ONE]


def mat_any(rng):
    r = rng.random()
    if r < 0.35:
        return mat_affine(rng)
    if r < 0.6:
        m = mat_affine(rng)
        m[6], m[7], m[8] = rng.choice([0, 1, -1, 3, mod(rng)]), rng.choice([0, 1, -1, mod(rng)]), rng.choice([ONE, mod(rng), rv(rng)])
        return m
    if r < 0.7:
        return list(ID9)
    return mat_rv(rng)


def dot(row, v):
    return row[0] * v[0] + row[1] * v[1] + row[2] * v[2]


# ------------------------------------------------------------------------------------------
# matrices at the boundary of the library's own CLASSIFIERS.  pixman-matrix.c classifies matrices with
# epsilon-tolerant comparisons (within_epsilon, IS_SAME / IS_ZERO / IS_ONE / IS_UNIT / IS_INT, EPSILON = 2 raw
# units) in is_identity, is_scale, is_int_translate, is_inverse.  Code that branches on such a predicate
# treats matrices up to 2 units off a class like members of it; the generators below therefore produce,
# for every class, members and matrices 1, 2 and 3 units away on each entry, with small AND large
# translations / scales, and feed them to invert, multiply, scale/rotate/translate, the predicates, ...

T_SMALL = [0, ONE, -3 * ONE, 5 * ONE, 100 * ONE]
T_LARGE = [1000 * ONE, -5000 * ONE, 12345 * ONE, 30000 * ONE, -20000 * ONE, 32767 * ONE, -32767 * ONE, -32768 * ONE + ONE]


def class_bases():
    """members of the classes: (name, matrix)"""
    res = []
    for tx, ty in [(3 * ONE, -2 * ONE), (30000 * ONE, 100 * ONE), (-20000 * ONE, 32767 * ONE), (0, 0)]:
        res.append(("int_translate", [ONE, 0, tx, 0, ONE, ty, 0, 0, ONE]))
    for sx, sy in [(2 * ONE, 32768), (1000 * ONE, -ONE), (ONE, ONE), (3, 32767 * ONE), (-3 * ONE, 100 * ONE)]:
        res.append(("scale", [sx, 0, 0, 0, sy, 0, 0, 0, ONE]))
        res.append(("scale_t", [sx, 0, 30000 * ONE, 0, sy, -5 * ONE, 0, 0, ONE]))
    for d in [ONE, 2 * ONE, -ONE, 3]:
        res.append(("identity", [d, 0, 0, 0, d, 0, 0, 0, d]))
    for tx, ty in [(0, 0), (-12345 * ONE, 7 * ONE)]:
        res.append(("unit", [0, -ONE, tx, ONE, 0, ty, 0, 0, ONE]))      # IS_UNIT entries: rotation by 90 degrees
        res.append(("unit", [-ONE, 0, tx, 0, ONE, ty, 0, 0, ONE]))      # flip
    return res


def class_sweep():
    """every base, every entry, every distance -3..3 from the class"""
    res = []
    for name, b in class_bases():
        for i in range(9):
            for d in (-3, -2, -1, 0, 1, 2, 3):
                if d == 0 and i:
                    continue
                m = list(b)
                m[i] = clamp(m[i] + d)
                res.append(m)
    return res


def near_class(rng):
    """a matrix at distance 0..3 raw units (on one to three entries) from a class member with random small/large offsets"""
    c = rng.choice(["int_translate", "int_translate", "scale", "identity", "unit", "affine_int"])
    t = lambda: rng.choice(T_SMALL + T_LARGE + [rng.randint(-32767, 32767) * ONE])
    if c == "int_translate":
        m = [ONE, 0, t(), 0, ONE, t(), 0, 0, ONE]
    elif c == "scale":
        sc = lambda: rng.choice([ONE, 2 * ONE, 32768, -ONE, 3, -3, 1000 * ONE, 32767 * ONE, rng.randint(-64, 64) * ONE or ONE])
        m = [sc(), 0, rng.choice([0, 0, t()]), 0, sc(), rng.choice([0, 0, t()]), 0, 0, rng.choice([ONE, ONE, sc()])]
    elif c == "identity":
        d = rng.choice([ONE, ONE, 2 * ONE, -ONE, 3, 100])
        m = [d, 0, 0, 0, d, 0, 0, 0, d]
    elif c == "unit":
        a, b, cc, dd = rng.choice([(0, -ONE, ONE, 0), (0, ONE, -ONE, 0), (-ONE, 0, 0, ONE), (ONE, 0, 0, -ONE), (-ONE, 0, 0, -ONE)])
        m = [a, b, t(), cc, dd, t(), 0, 0, ONE]
    else:
        m = [rng.randint(-4, 4) * ONE or ONE, rng.randint(-2, 2) * ONE, t(), rng.randint(-2, 2) * ONE, rng.randint(-4, 4) * ONE or ONE, t(), 0, 0, ONE]
    for _ in range(rng.choice([0, 1, 1, 1, 2, 3])):
        i = rng.randrange(9)
        m[i] = clamp(m[i] + rng.choice([-3, -2, -1, 1, 2, 3]))
    return m


def class_inverse_guess(m):
    """the exact inverse of the nearest class member where it is obvious (for is_inverse / multiply pairs)"""
    a, b, tx, c, d, ty = [int(round(x / ONE)) for x in m[:6]]
    det = a * d - b * c
    if det in (1, -1):
        ia, ib, ic, id_ = d * det, -b * det, -c * det, a * det
        return [ia * ONE, ib * ONE, clamp(-(ia * tx + ib * ty) * ONE), ic * ONE, id_ * ONE, clamp(-(ic * tx + id_ * ty) * ONE), 0, 0, ONE]
    return None


def gen_class(rng):
    """a call on a classifier-boundary matrix"""
    m = near_class(rng)
    ms = " ".join(map(str, m))
    k = rng.choice(["invert", "invert", "invert", "is", "is", "is_inverse", "multiply", "xform", "point", "bounds"])
    if k == "invert":
        return "invert %s %d" % (ms, rng.choice([0, 1]))
    if k == "is":
        return "is %s %s" % (rng.choice(["identity", "scale", "int_translate"]), ms)
    inv = class_inverse_guess(m) or near_class(rng)
    if rng.random() < 0.4:
        i = rng.randrange(9)
        inv[i] = clamp(inv[i] + rng.choice([-3, -2, -1, 1, 2, 3]))
    if k == "is_inverse":
        return "is inverse %s %s" % (ms, " ".join(map(str, inv)))
    if k == "multiply":
        a, b = (m, inv) if rng.random() < 0.5 else (inv, m)
        return "multiply %s %s %d" % (" ".join(map(str, a)), " ".join(map(str, b)), rng.choice([0, 1, 2]))
    if k == "xform":
        fn = rng.choice(["scale", "rotate", "translate"])
        p, q = {"scale": (rng.choice([ONE, ONE + 1, ONE - 2, 2 * ONE, 3, 32768]), rng.choice([ONE, ONE + 2, -ONE, 65537])),
                "rotate": (rng.choice([ONE, 0, ONE - 1, 2]), rng.choice([0, 1, -2, ONE, ONE + 1])),
                "translate": (rng.choice(T_SMALL + T_LARGE) + rng.choice([0, 1, -2, 3]), rng.choice(T_SMALL + T_LARGE))}[fn]
        return "%s 1 1 %s %s %d %d" % (fn, ms, " ".join(map(str, inv)), clamp(p), clamp(q))
    if k == "point":
        v = [rng.choice(T_SMALL + T_LARGE) + rng.choice([0, 1, 32768]), rng.choice(T_SMALL + T_LARGE), rng.choice([ONE, ONE, ONE + 1, ONE - 2])]
        return "point %s %s" % (ms, " ".join(map(str, v)))
    return "bounds %s %s" % (ms, " ".join(str(i16(rng)) for _ in range(4)))


def class_sweep_calls(rng, quick):
    """the systematic part: invert on the whole sweep; the predicates and products on it (sampled in the quick tier)"""
    sw = class_sweep()
    inv = sw
    if quick:      # the translation and unit classes completely, the others sampled
        core = [m for m in sw if abs(m[0]) in range(ONE - 3, ONE + 4) or abs(m[1]) in range(ONE - 3, ONE + 4)]
        rest = [m for m in sw if m not in core]
        inv = core + rng.sample(rest, min(len(rest), 250))
    calls = ["invert %s 0" % " ".join(map(str, m)) for m in inv]
    others = []
    for m in sw:
        ms = " ".join(map(str, m))
        for kind in ("identity", "scale", "int_translate"):
            others.append("is %s %s" % (kind, ms))
        inv = class_inverse_guess(m)
        if inv:
            others.append("is inverse %s %s" % (ms, " ".join(map(str, inv))))
            others.append("multiply %s %s 0" % (ms, " ".join(map(str, inv))))
    if quick:
        others = rng.sample(others, min(len(others), 500))
    return calls + others


# ------------------------------------------------------------------------------------------
# transform_point / point_3d

W_TARGETS = [1, -1, 2, -2, 3, 65536, -65536, 2 ** 32 - 1, 2 ** 32, 2 ** 32 + 1, -2 ** 32, -2 ** 32 + 1, 2 ** 47, -2 ** 47,
             2 ** 48 - 1, 2 ** 48, 2 ** 48 + 1, -2 ** 48 + 1, -2 ** 48, -2 ** 48 - 1, 2 ** 49, -2 ** 49, 3 * 2 ** 47,
             2 ** 55 + 12345, -2 ** 58, 2 ** 61, -2 ** 61 + 1]


def row_for_w(rng, D):
    """(row2, v) with row2 . v = D exactly, or None"""
    for _ in range(20):
        if abs(D) < 2 ** 20:
            z = rng.choice([1, -1, 2, 3, -5, ONE, 256, rng.randint(1, 1000)])
        else:
            lo = max(1, abs(D) >> 31) + 1
            z = rng.choice([1, -1]) * rng.randint(lo, max(lo, min(IMAX, lo * rng.choice([1, 2, 16, 1024, 65536]))))
            if rng.random() < 0.4:
                z = rng.choice([1, -1]) * (1 << max(lo.bit_length(), rng.randint(lo.bit_length(), 31)))
        if not fits(z) or z == 0:
            continue
        i = D // z
        r = D - i * z
        if fits(i) and fits(r):
            y = rv(rng)
            return [1, 0, i], [r, y, z]
    return None


def gen_point(rng):
    kind = rng.choice(["affine", "affine", "straddle", "straddle", "wtarget", "wtarget", "wzero", "proj", "proj",
                       "bigw", "any", "abort"])
    if kind == "affine":
        m = mat_affine(rng)
        v = [rv(rng), rv(rng), ONE]
    elif kind == "wzero":
        a, b = rv(rng), rv(rng)
        if a == IMIN:
            a = 5
        m = mat_any(rng)
        m[6], m[7], m[8] = a, b, rng.choice([0, 0, rv(rng)])
        v = [b, -a, 0 if m[8] else rv(rng)]
        r = rng.random()
        if r < 0.2:
            v = [0, 0, 0]                      # 0/0
        elif r < 0.4:
            m[0:6] = [0, 0, rv(rng) if v[2] == 0 else 0, 0, 0, 0]
    elif kind == "any":
        m = mat_rv(rng)
        v = [rv(rng), rv(rng), rv(rng)]
    elif kind == "abort":
        # the divisor -2^48 (defect 13) and its neighbours
        D = rng.choice([-2 ** 48, -2 ** 48, -2 ** 48 + 1, -2 ** 48 - 1, 2 ** 48])
        rw = row_for_w(rng, D)
        if rw is None:
            return gen_point(rng)
        m = mat_any(rng)
        m[6:9] = rw[0]
        v = rw[1]
        if rng.random() < 0.3:
            m = [ONE, 0, 0, 0, ONE, 0, IMIN, 0, -1]
            v = [2 ** 29, -2 ** 20, -2 ** 10]
    elif kind == "wtarget":
        D = rng.choice(W_TARGETS + [rng.choice([1, -1]) * (1 << rng.randint(0, 61)) + rng.choice([0, 0, 1, -1])])
        rw = row_for_w(rng, D)
        if rw is None:
            return gen_point(rng)
        m = mat_any(rng)
        m[6:9] = rw[0]
        v = rw[1]
    elif kind == "bigw":
        m = mat_rv(rng)
        m[6:9] = [rng.randint(IMIN, IMAX) for _ in range(3)]
        v = [rng.randint(IMIN, IMAX) for _ in range(3)]
    else:   # straddle, proj
        m = mat_any(rng) if kind == "proj" else mat_affine(rng, big_t=False)
        if kind == "proj":
            m[6], m[7], m[8] = rng.choice([0, 1, -1, mod(rng)]), rng.choice([0, 1, mod(rng)]), rng.choice([ONE, mod(rng), rv(rng)])
        v = [rv(rng) if rng.random() < 0.5 else rng.randint(-2 ** 26, 2 ** 26), rng.randint(-2 ** 26, 2 ** 26),
             rng.choice([ONE, ONE, 1, 256, rv(rng)])]
        D = dot(m[6:9], v)
        if kind == "straddle" or rng.random() < 0.5:
            # solve the last coefficient of row 0 (and 1) so that the result lands at the limit of the word
            for row in (0, 1):
                if v[2] == 0 or D == 0:
                    break
                q = rng.choice([2 ** 31, -2 ** 31 - 1]) + rng.randint(-3, 2)       # desired result in raw units
                tgt = (q * D) // ONE + rng.choice([0, 0, D // (2 * ONE) if abs(D) >= 2 * ONE else 0, 1, -1, 32768, -32768])
                c = (tgt - m[3 * row] * v[0] - m[3 * row + 1] * v[1]) // v[2]
                c += rng.choice([0, 0, 0, 1, -1])
                if fits(c):
                    m[3 * row + 2] = c
    return "point " + " ".join(map(str, m + v))


def gen_point3d(rng):
    kind = rng.choice(["any", "mod", "fit", "fit", "straddle", "straddle"])
    if kind == "any":
        m, v = mat_rv(rng), [rv(rng), rv(rng), rv(rng)]
    elif kind == "fit":      # products that fit: exactness of the rounding is what is judged
        m = [mod(rng) for _ in range(9)]
        v = [rng.randint(-2 ** 26, 2 ** 26), rng.randint(-2 ** 26, 2 ** 26), rng.choice([ONE, 1, rng.randint(-2 ** 26, 2 ** 26)])]
    elif kind == "mod":
        m, v = mat_any(rng), [rv(rng), rv(rng), rng.choice([ONE, rv(rng)])]
    else:
        m = mat_any(rng)
        v = [rv(rng), rv(rng), rng.choice([1, -1, 2, ONE, 3, 256])]
        for row in range(3):
            if rng.random() < 0.7:
                # leading product near +-2^47, then the last coefficient is solved exactly (z small)
                s = rng.choice([1, -1])
                m[3 * row] = clamp(s * rng.choice([IMAX, 2 ** 30, 2 ** 31 - 12345, 1 << rng.randint(16, 30)]))
                if m[3 * row] == 0:
                    continue
                tgt = rng.choice([2 ** 47, -2 ** 47]) + rng.choice([-ONE, 0, ONE]) + rng.choice([-32769, -32768, -32767, 0, 1, 32767, 32768, 32769])
                v0 = tgt // m[3 * row]
                if not fits(v0):
                    continue
                v[0] = v0
        for row in range(3):
            tgt = rng.choice([2 ** 47, -2 ** 47]) + rng.choice([-ONE, 0, ONE]) + rng.choice([-32769, -32768, -32767, 0, 1, 32767, 32768, 32769])
            c = (tgt - m[3 * row] * v[0] - m[3 * row + 1] * v[1]) // v[2]
            if fits(c) and rng.random() < 0.8:
                m[3 * row + 2] = c
    return "point3d " + " ".join(map(str, m + v))


# ------------------------------------------------------------------------------------------
# multiply, scale, rotate, translate

def gen_multiply(rng):
    kind = rng.choice(["any", "mod", "mod", "halves", "halves", "straddle", "straddle"])
    if kind == "any":
        l, r = mat_rv(rng), mat_rv(rng)
    elif kind == "mod":
        l, r = mat_any(rng), mat_any(rng)
    elif kind == "halves":
        sm = [0, 1, -1, 2, 3, -3, 5, 16384, -16384, 32768, -32768, 49152, ONE, -ONE, 98304, 32767, 32769, 8192, 24576]
        l = [rng.choice(sm) for _ in range(9)]
        r = [rng.choice(sm) for _ in range(9)]
    else:
        l, r = mat_any(rng), mat_any(rng)
        for i in range(3):
            for j in range(3):
                if rng.random() < 0.4:
                    # solve l[i][2] so that the exact entry is near +-2^47 (the limit of the word, in 2^-32 units)
                    tgt = rng.choice([2 ** 47, -2 ** 47]) + rng.choice([-ONE, 0, ONE]) + rng.choice([-32769, -32768, -32767, 0, 32767, 32768])
                    rr = r[6 + j]
                    if rr == 0:
                        continue
                    c = (tgt - l[3 * i] * r[j] - l[3 * i + 1] * r[3 + j]) // rr
                    if fits(c):
                        l[3 * i + 2] = c
    return "multiply %s %s %d" % (" ".join(map(str, l)), " ".join(map(str, r)), rng.choice([0, 0, 1, 2]))


EDGE = [0, 1, -1, 2, -2, 3, -3, 4, 5, 7, 32768, ONE, -ONE, 2 * ONE, 46341, -46341, 1000, IMIN, IMIN + 1, IMAX, 32767 * ONE, 65535, 65537]


def gen_xform(rng):
    fn = rng.choice(["scale", "rotate", "translate"])
    hf, hr = rng.choice([(1, 1), (1, 0), (0, 1), (1, 1), (0, 0)])
    f = mat_any(rng) if rng.random() < 0.8 else mat_rv(rng)
    r = mat_any(rng) if rng.random() < 0.8 else mat_rv(rng)
    if rng.random() < 0.2:
        f, r = list(ID9), list(ID9)

    def sc():
        x = rng.random()
        if x < 0.4:
            return rng.choice(EDGE)
        if x < 0.7:
            return mod(rng)
        return rv(rng)
    if fn == "rotate" and rng.random() < 0.5:
        a = rng.random() * 2 * math.pi
        p, q = int(round(math.cos(a) * ONE)), int(round(math.sin(a) * ONE))
    else:
        p, q = sc(), sc()
    return "%s %d %d %s %s %d %d" % (fn, hf, hr, " ".join(map(str, f)), " ".join(map(str, r)), p, q)


def gen_init(rng):
    kind = rng.choice(["identity", "scale", "rotate", "translate"])
    p, q = rv(rng), rv(rng)
    if kind == "rotate" and rng.random() < 0.1:
        q = IMIN          # outside the domain (void function cannot report): logged, not judged
    return "init %s %d %d" % (kind, p, q)


# ------------------------------------------------------------------------------------------
# bounds, invert

def i16(rng):
    r = rng.random()
    if r < 0.15:
        return rng.choice([-32768, -32767, 32767, 32766, 0, 1, -1])
    if r < 0.7:
        return rng.randint(-200, 200)
    return rng.randint(-32768, 32767)


def gen_bounds(rng):
    kind = rng.choice(["affine", "edge", "edge", "proj", "any"])
    box = [i16(rng) for _ in range(4)]
    if kind == "affine":
        m = mat_affine(rng)
    elif kind == "any":
        m = mat_any(rng)
    elif kind == "proj":
        m = mat_affine(rng, big_t=False)
        m[6], m[7], m[8] = rng.choice([0, 1, -1, 7, -200]), rng.choice([0, 1, -3, 100]), rng.choice([ONE, ONE, 32768, 3 * ONE, rv(rng)])
    else:
        # a corner lands within a unit or so of +-32768
        x2 = rng.choice([1, 2, 10, 100, 1000])
        y2 = rng.choice([1, 5, 50])
        box = [0, 0, x2, y2]
        sx = rng.choice([ONE, 2 * ONE, 32768, 3 * ONE, ONE + 1, mod(rng)])
        sy = rng.choice([ONE, ONE, 2 * ONE, mod(rng)])
        f = rng.choice([0, 1, 2, 32768, 65535, 65536, 65537, -1, -2, -65536, rng.randint(-70000, 70000)])
        if rng.random() < 0.6:
            tx = 32767 * ONE - x2 * sx + f
        else:
            tx = IMIN + abs(f)
        ty = rng.choice([0, 0, 32767 * ONE - y2 * sy + f, IMIN + abs(f), rv(rng)])
        m = [sx, 0, clamp(tx), 0, sy, clamp(ty), 0, 0, ONE]
    return "bounds %s %s" % (" ".join(map(str, m)), " ".join(map(str, box)))


def gen_invert(rng):
    kind = rng.choice(["srt", "srt", "srt", "srt2", "any", "sing_small", "sing_big", "tiny", "rangef", "nearlim"])
    if kind in ("srt", "srt2"):
        a = rng.random() * 2 * math.pi
        sx = rng.choice([1, -1]) * 2.0 ** rng.uniform(-6, 6)
        sy = rng.choice([1, -1]) * 2.0 ** rng.uniform(-6, 6)
        if rng.random() < 0.3:
            a = rng.choice([0, math.pi / 2, math.pi])
            sx, sy = rng.choice([1, 2, 0.5, -1, 3, 0.25]), rng.choice([1, 2, 0.5, 4])
        c, s = math.cos(a), math.sin(a)
        lim = 30000 if kind == "srt" else 100
        tx, ty = rng.uniform(-lim, lim), rng.uniform(-lim, lim)
        m = [clamp(round(sx * c * ONE)), clamp(round(-sy * s * ONE)), clamp(round(tx * ONE)),
             clamp(round(sx * s * ONE)), clamp(round(sy * c * ONE)), clamp(round(ty * ONE)), 0, 0, ONE]
        if kind == "srt2":
            m[6], m[7], m[8] = rng.choice([0, 1, -5, 100]), rng.choice([0, 3, -100]), rng.choice([ONE, 32768, 2 * ONE])
    elif kind == "any":
        m = mat_any(rng)
    elif kind == "sing_small":
        r0 = [rng.randint(-300, 300) * rng.choice([1, 256, ONE]) for _ in range(3)]
        r1 = [rng.randint(-300, 300) * rng.choice([1, 256, ONE]) for _ in range(3)]
        a, b = rng.randint(-3, 3), rng.randint(-3, 3)
        m = r0 + r1 + [a * x + b * y for x, y in zip(r0, r1)]
        rows = [m[0:3], m[3:6], m[6:9]]
        rng.shuffle(rows)
        m = rows[0] + rows[1] + rows[2]
    elif kind == "sing_big":
        r0 = [rng.randint(-2 ** 30, 2 ** 30) & ~1 for _ in range(3)]
        r1 = [rng.randint(-2 ** 30, 2 ** 30) & ~1 for _ in range(3)]
        m = r0 + r1 + [x // 2 + y // 2 for x, y in zip(r0, r1)]
        if rng.random() < 0.3:
            m = r0 + [2 * x // 2 for x in r0] + r1          # rank 2 with equal rows
    elif kind == "tiny":
        m = [rng.choice([1, 2, 3, -2, 5, 100]), 0, rv(rng), 0, rng.choice([1, 2, 7, ONE]), mod(rng), 0, 0, ONE]
    elif kind == "rangef":
        # the inverse has an entry in (32767, 32768): representable, refused by the float -> fixed conversion
        t = rng.choice([1, -1]) * (32767 * ONE + rng.choice([1, 2, 32768, 65535, 40000]))
        m = [ONE, 0, clamp(t), 0, ONE, rng.choice([0, clamp(-t), mod(rng)]), 0, 0, ONE]
    else:
        t = rng.choice([1, -1]) * (32767 * ONE + rng.choice([0, -1, -32768, -65536]))
        m = [ONE, 0, clamp(t), 0, rng.choice([ONE, 2 * ONE]), mod(rng), 0, 0, ONE]
    return "invert %s %d" % (" ".join(map(str, m)), rng.choice([0, 0, 1]))


# ------------------------------------------------------------------------------------------
# conversions, predicates, the float family

def grid_double(rng):
    """a double whose value x 65536 has at most 20 fraction bits (floor(x + 0.5) in double is then exact)"""
    r = rng.random()
    if r < 0.2:
        return rng.choice([0.0, -0.0, 1.0, -1.0, 0.5, 32767.0, -32767.0, 32767.5, -32767.5, 32768.0, -32768.0,
                           32767.0 + 65535.0 / ONE, 32767.0 + 65535.5 / ONE, -32768.0 - 0.5 / ONE, -32768.0 - 0.75 / ONE,
                           32767.0 + 1.0 / ONE, -32767.0 - 1.0 / ONE, 40000.0, -1e6, 2.0 ** 40, 2.0 ** -30, -2.0 ** -40,
                           1.0 / ONE, 0.5 / ONE, -0.5 / ONE, 1.5 / ONE, -1.5 / ONE, 2.5 / ONE])
    k = rng.randint(0, 20)
    n = rng.choice([1, -1]) * rng.getrandbits(rng.randint(1, 31 + k))
    if rng.random() < 0.3:     # exact ties
        n = (2 * rng.randint(-2 ** 30, 2 ** 30) + 1) << max(0, k - 1) if k >= 1 else n
    return n / float(1 << (16 + k))


def gen_from_f(rng):
    ent = [grid_double(rng) if rng.random() < 0.6 else rng.choice([0.0, 1.0, -2.5, 100.25]) for _ in range(9)]
    return "from_f " + " ".join(dh(x) for x in ent)


def gen_to_f(rng):
    return "to_f " + " ".join(map(str, mat_rv(rng)))


def gen_is(rng):
    kind = rng.choice(["identity", "scale", "int_translate", "inverse"])
    if kind == "inverse":
        c = rng.choice(["scale", "translate", "any", "rot"])
        if c == "scale":
            k = rng.randint(-6, 6)
            a = [clamp(ONE * 2 ** k) if k >= 0 else ONE >> -k, 0, 0, 0, ONE, 0, 0, 0, ONE]
            b = [ONE >> k if k >= 0 else ONE << -k, 0, 0, 0, ONE, 0, 0, 0, ONE]
        elif c == "translate":
            t, u = rng.randint(-2 ** 30, 2 ** 30), rng.randint(-2 ** 30, 2 ** 30)
            a = [ONE, 0, t, 0, ONE, u, 0, 0, ONE]
            b = [ONE, 0, -t, 0, ONE, -u, 0, 0, ONE]
        elif c == "rot":
            a = [0, -ONE, 0, ONE, 0, 0, 0, 0, ONE]
            b = [0, ONE, 0, -ONE, 0, 0, 0, 0, ONE]
        else:
            a, b = mat_any(rng), mat_any(rng)
        if rng.random() < 0.3:
            b[rng.randrange(9)] += rng.choice([1, -1, 300, -5000, ONE])
            b = [clamp(x) for x in b]
        return "is inverse %s %s" % (" ".join(map(str, a)), " ".join(map(str, b)))
    r = rng.random()
    if r < 0.4:
        d = rng.choice([ONE, ONE, 2 * ONE, -ONE, 300, 1, 0])
        m = [d, 0, 0, 0, d, 0, 0, 0, d]
        if kind == "scale":
            m[4], m[8] = rng.choice([d, 3 * ONE, -7 * ONE]), rng.choice([d, ONE])
        if kind == "int_translate":
            m = [ONE, 0, rng.randint(-30000, 30000) * ONE, 0, ONE, rng.randint(-30000, 30000) * ONE, 0, 0, ONE]
    elif r < 0.7:
        m = list(ID9)
        if kind == "int_translate":
            m[2], m[5] = rng.randint(-30000, 30000) * ONE, rng.randint(-300, 300) * ONE
        i = rng.randrange(9)
        m[i] = clamp(m[i] + rng.choice([1, -1, 2, -2, 3, 255, 256, 257, -256, 1000, 32768, ONE, -ONE]))
    else:
        m = mat_any(rng)
    return "is %s %s" % (kind, " ".join(map(str, m)))


def gd(rng, lim=2 ** 15):
    """a double on the grid n/256, |n| <= lim"""
    r = rng.random()
    if r < 0.3:
        return rng.choice([0.0, 1.0, -1.0, 2.0, 0.5, -0.5, 4.0, 0.25, 3.0, -2.0, 10.0, 1.5])
    return rng.randint(-lim, lim) / 256.0


def gen_f(rng):
    fn = rng.choice(["f_multiply", "f_point", "f_point3d", "f_xform", "f_xform", "f_init", "f_invert", "f_bounds"])
    off = rng.random() < 0.08      # occasionally off the grid: executed, logged, reported as unjudged
    def fm(lim=2 ** 15):
        m = [gd(rng, lim) for _ in range(9)]
        if off:
            m[rng.randrange(9)] = rng.choice([0.1, 1.0 / 3, 1e-3, 123456.789])
        return m
    if fn == "f_multiply":
        return "f_multiply %s %s %d" % (" ".join(map(dh, fm())), " ".join(map(dh, fm())), rng.choice([0, 1, 2]))
    if fn in ("f_point", "f_point3d"):
        m = fm()
        v = [gd(rng), gd(rng), rng.choice([1.0, gd(rng)])]
        if rng.random() < 0.2:
            m[6], m[7], m[8] = 0.0, 0.0, rng.choice([0.0, 1.0, 2.0])
        return "%s %s %s" % (fn, " ".join(map(dh, m)), " ".join(map(dh, v)))
    if fn == "f_xform":
        kind = rng.choice(["scale", "rotate", "translate"])
        hf, hr = rng.choice([(1, 1), (1, 0), (0, 1)])
        p, q = gd(rng), gd(rng)
        if kind == "scale":
            p = rng.choice([1.0, 2.0, 0.5, -4.0, 0.25, 128.0, gd(rng), 0.0 if rng.random() < 0.3 else 8.0])
            q = rng.choice([1.0, -2.0, 0.5, 16.0, gd(rng), 3.0])
        return "f_xform %s %d %d %s %s %s %s" % (kind, hf, hr, " ".join(map(dh, fm())), " ".join(map(dh, fm())), dh(p), dh(q))
    if fn == "f_init":
        return "f_init %s %s %s" % (rng.choice(["identity", "scale", "rotate", "translate"]), dh(gd(rng)), dh(gd(rng)))
    if fn == "f_invert":
        m = fm(2 ** 12)
        if rng.random() < 0.3:
            m[6:9] = [m[0] + m[3], m[1] + m[4], m[2] + m[5]]       # singular, exactly
        if rng.random() < 0.3:
            m[6:9] = [0.0, 0.0, 1.0]
        return "f_invert %s %d" % (" ".join(map(dh, m)), rng.choice([0, 1]))
    m = [gd(rng, 2 ** 10), gd(rng, 2 ** 10), gd(rng, 2 ** 15), gd(rng, 2 ** 10), gd(rng, 2 ** 10), gd(rng, 2 ** 15),
         0.0, 0.0, rng.choice([1.0, 2.0, 0.5, 4.0])]
    if rng.random() < 0.15:
        m[8] = 0.0
    box = [rng.randint(-20, 20) for _ in range(4)]
    return "f_bounds %s %s" % (" ".join(map(dh, m)), " ".join(map(str, box)))


GENERATORS = [(gen_class, 16), (gen_point, 26), (gen_point3d, 10), (gen_multiply, 14), (gen_xform, 12), (gen_init, 2), (gen_bounds, 8),
              (gen_invert, 8), (gen_from_f, 5), (gen_to_f, 2), (gen_is, 4), (gen_f, 9)]


def random_calls(rng, n):
    gens = [g for g, w in GENERATORS for _ in range(w)]
    return [rng.choice(gens)(rng) for _ in range(n)]


# ------------------------------------------------------------------------------------------
# inputs generated by TLC from the magnitude classes

def tlc_inputs(nbeh, depth, seed):
    path = os.path.join(vf.SPEC, "gen", "MatrixGen.tla")
    cfg = os.path.join(vf.workdir("mgen"), "MatrixGen.cfg")
    open(cfg, "w").write("SPECIFICATION GenSpec\nCONSTANTS\n  Depth = %d\nINVARIANT Emit\n" % depth)
    workers = 4
    r = vf.run_tlc(path, cfg=cfg, workers=workers, timeout=600,
                   extra=["-generate", "num=%d" % nbeh, "-depth", str(16 * depth), "-seed", str(seed)],
                   tag="mgen")
    calls, seen = [], set()
    for b in r.vf("behaviour"):
        if b in seen:
            continue
        seen.add(b)
        for c in json.loads(json.loads(b)):
            calls.append("%s %s" % (c["fn"], " ".join(str(x) for x in c["a"])))
    if not calls:
        raise vf.Infra("MatrixGen produced no behaviours:\n" + r.out[-2000:])
    return calls, len(seen), r


# ------------------------------------------------------------------------------------------

def mc(chk, tier):
    base = os.path.join(vf.SPEC, "mc")
    runs = [("MatrixMC.tla", "MatrixMC.cfg", False),
            ("BigIntMC.tla", "BigIntMC.cfg", False), ("BigIntMC.tla", "BigIntMC_big.cfg", False),
            ("BigIntMC.tla", "BigIntMC_neg_mul.cfg", True), ("BigIntMC.tla", "BigIntMC_neg_add.cfg", True),
            ("MatrixMC.tla", "MatrixMC_neg_wrap.cfg", True), ("MatrixMC.tla", "MatrixMC_neg_trunc.cfg", True),
            ("MatrixMC.tla", "MatrixMC_neg_perterm.cfg", True), ("MatrixMC.tla", "MatrixMC_neg_boundsceil.cfg", True),
            ("MatrixMC.tla", "MatrixMC_neg_recipwrap.cfg", True), ("MatrixMC.tla", "MatrixMC_neg_nofalse.cfg", True)]
    if tier == "thorough":
        runs = [("MatrixMC.tla", "MatrixMC_wide.cfg", False), ("BigIntMC.tla", "BigIntMC_wide.cfg", False)] + runs
    from concurrent.futures import ThreadPoolExecutor

    def one(x):
        mod, cfg, neg = x
        return x, vf.tlc_mc(os.path.join(base, mod), cfg=os.path.join(base, cfg), workers=8 if cfg.startswith("MatrixMC.") or "wide" in cfg else 4,
                            timeout=2400, expect_violation=neg)

    with ThreadPoolExecutor(max_workers=3) as ex:      # 3 x 4 TLC workers
        results = list(ex.map(one, runs))
    for (mod, cfg, neg), r in results:
        chk.add_tlc(r, ("negative config (must be rejected) " if neg else "model check ") + cfg)
        if not neg and (r.inv_violation or r.deadlock or "is violated" in r.out):
            raise vf.Infra("the model itself violates an invariant under %s:\n%s" % (cfg, r.out[-2500:]))


def tally_unjudged(chk):
    """VF:unjudged lines of the trace validations: calls outside the domain of the statement"""
    unj = {}
    for r in TLC_RESULTS:
        for u in r.vf("unjudged"):
            fn = u.split(",")[0].strip().strip('"')
            unj[fn] = unj.get(fn, 0) + 1
    chk.extra["unjudged_by_fn"] = unj
    chk.extra["unjudged"] = sum(unj.values())


TLC_RESULTS = []


def count_events(chk, tracefile):
    by = chk.extra.setdefault("events_by_fn", {})
    for line in open(tracefile):
        if line.startswith('{"e":"Call"'):
            chk.evaluations += 1
            fn = line[18:line.index('"', 18)]
            by[fn] = by.get(fn, 0) + 1
            if '"ret":false' in line:
                bf = chk.extra.setdefault("events_returning_false_by_fn", {})
                bf[fn] = bf.get(fn, 0) + 1
            chk.distinct_keys.add(hashlib.sha1(line.encode()).digest()[:8])
        elif line.startswith('{"e":"Crash"'):
            chk.extra["crash_events"] = chk.extra.get("crash_events", 0) + 1
            chk.sample({"crash": line.strip()[:400]})


def run(prop, args):
    chk = vf.Check(prop, args.tier, args.seed)
    rng = random.Random(args.seed * 1000003 + 11)
    quick = args.tier == "quick"
    wd = vf.workdir("matrix-" + prop)
    # CONSTANT Deviations = ids of the open records of KNOWN_FINDINGS.jsonl for C11
    cfg = vf.cfg_with_deviations(os.path.join(vf.SPEC, "trace", "MatrixTrace.cfg"), prop)

    if args.replay:
        exe, px = vf.build_driver("drv_matrix", "plain")
        script = args.replay if args.replay.endswith(".script") else args.replay + ".script"
        tr = os.path.join(wd, "replay.ndjson")
        vf.sh([exe, script, tr], timeout=300)
        count_events(chk, tr)
        vf.validate_batches(chk, "MatrixTrace", [tr], cfg=cfg, parallel=1)
        return chk.finish()

    # 1. model checking: the trusted arithmetic core and the postconditions (small scope)
    mc(chk, args.tier)

    # 2. inputs
    calls, nbeh, r = tlc_inputs(80 if quick else 600, 12, args.seed)
    chk.add_tlc(r, "input generation (MatrixGen, -generate)")
    chk.extra["tlc_generated_behaviours"] = nbeh
    chk.extra["tlc_generated_calls"] = len(calls)
    chk.sample({"tlc_generated_call": calls[0][:300]})
    # the documented witnesses of the findings, always present
    calls += [
        "point 65536 0 0 0 65536 0 -2147483648 0 -1 536870912 -1048576 -1024",       # defect 13 (abort)
        "point 65536 0 0 0 65536 0 0 0 -2147483648 5 7 131072",                      # defect 13 (abort)
        "multiply 1 1 1 0 0 0 0 0 0 32768 0 0 32768 0 0 32768 0 0 0",                # per-term rounding
        "bounds 65536 0 2146762753 0 65536 0 0 0 65536 0 0 10 10",                   # ceil overflow
        "from_f %s" % " ".join(dh(x) for x in [1.0, 0, 32767.5, 0, 1, 0, 0, 0, 1]),  # (32767, 32768) refused
        "scale 0 1 %s %s 1 2" % (" ".join(map(str, ID9)), " ".join(map(str, ID9))),   # reciprocal not representable
        "translate 0 1 %s %s -2147483648 5" % (" ".join(map(str, ID9)), " ".join(map(str, ID9))),
        # factor matrices that are not representable, with every combination of requested outputs
        "rotate 0 0 %s %s 3 -2147483648" % (" ".join(map(str, ID9)), " ".join(map(str, ID9))),
        "rotate 1 0 %s %s 3 -2147483648" % (" ".join(map(str, ID9)), " ".join(map(str, ID9))),
        "rotate 0 1 %s %s 3 -2147483648" % (" ".join(map(str, ID9)), " ".join(map(str, ID9))),
        "translate 0 0 %s %s -2147483648 5" % (" ".join(map(str, ID9)), " ".join(map(str, ID9))),
        "translate 1 0 %s %s -2147483648 5" % (" ".join(map(str, ID9)), " ".join(map(str, ID9))),
        "translate 0 1 %s %s -2147483648 5" % (" ".join(map(str, ID9)), " ".join(map(str, ID9))),
        "scale 0 0 %s %s 1 2" % (" ".join(map(str, ID9)), " ".join(map(str, ID9))),
        "scale 1 0 %s %s 1 2" % (" ".join(map(str, ID9)), " ".join(map(str, ID9))),
        "scale 0 1 %s %s 1 2" % (" ".join(map(str, ID9)), " ".join(map(str, ID9))),
        "scale 0 0 %s %s 0 5" % (" ".join(map(str, ID9)), " ".join(map(str, ID9))),
        "scale 1 0 %s %s 0 5" % (" ".join(map(str, ID9)), " ".join(map(str, ID9))),
        "scale 0 1 %s %s 0 5" % (" ".join(map(str, ID9)), " ".join(map(str, ID9))),
        "invert 305419896 591751048 878082202 267242408 517782168 768321926 286331152 554766608 823202064 0",   # singular, TRUE
    ]
    sweep = class_sweep_calls(rng, quick)          # matrices at and 1..3 units off every classifier class
    chk.extra["classifier_boundary_calls"] = len(sweep)
    calls += sweep
    calls += random_calls(rng, 2200 if quick else 40000)
    rng.shuffle(calls)
    chk.extra["calls"] = len(calls)

    # 3. execute on the real library (built from the repository's working tree)
    exe, px = vf.build_driver("drv_matrix", "plain")
    chk.extra["build"] = px["hash"]
    nb = 8 if quick else 16
    traces = []
    for bi in range(nb):
        part = calls[bi::nb]
        if not part:
            continue
        sp = os.path.join(wd, "b%d.ndjson.script" % bi)
        with open(sp, "w") as f:
            for i, c in enumerate(part):
                if i % 25 == 0:
                    f.write("R b%d_%d\n" % (bi, i // 25))
                f.write(c + "\n")
        tr = os.path.join(wd, "b%d.ndjson" % bi)
        p = vf.sh([exe, sp, tr], timeout=600, check=False)
        if p.returncode != 0:
            raise vf.Infra("drv_matrix failed rc=%d: %s" % (p.returncode, p.stdout[-1000:]))
        traces.append(tr)
        count_events(chk, tr)
    chk.sample({"script_line": calls[-1][:300]})

    # 4. trace validation: the verdict
    orig = vf.tlc_trace

    def keeping(*a, **kw):
        res = orig(*a, **kw)
        TLC_RESULTS.append(res[3])
        return res
    vf.tlc_trace = keeping
    vf.validate_batches(chk, "MatrixTrace", traces, cfg=cfg, parallel=8, timeout=2400)
    tally_unjudged(chk)
    # keep the script of a rejected execution next to its replay file
    for v in chk.violations:
        try:
            lines = open(v["replay"]).read().splitlines()
            name = json.loads(lines[0]).get("scenario")
            bi = int(name[1:name.index("_")])
            grp = int(name[name.index("_") + 1:])
            part = calls[bi::nb][grp * 25:(grp + 1) * 25]
            open(v["replay"] + ".script", "w").write("R %s\n" % name + "\n".join(part) + "\n")
        except Exception:
            pass
    chk.extra["rule"] = ("a case is one logged API call (inputs, return value, outputs) judged by TLC; distinct = distinct "
                         "trace line; calls listed under unjudged_by_fn were executed and logged but lie outside what "
                         "the statement covers (ill-conditioned invert, float inputs off the exact grid, init_rotate(INT32_MIN))")
    chk.assumptions += [
        "at an exact tie either neighbour is accepted as 'rounded to nearest' (the statement names no tie rule)",
        "'within one unit' (|w| >= 65536) is read as within one unit of a correctly rounded value, i.e. 3/2 units of the rational",
        "invert is judged for singular matrices and for matrices satisfying the explicit conditioning bound WellCond of spec/Matrix.tla",
        "scale/rotate/translate are compositions of multiply; either 16.16 neighbour of 1/s is accepted as reciprocal",
        "pixman_f_transform_* are judged only on inputs n/256, |n| <= 2^15, where double arithmetic is exact; float -> fixed inputs "
        "have at most 20 fraction bits below 2^-16",
        "is_identity/is_scale/is_int_translate/is_inverse are outside the statement: only unambiguous cases are judged",
        "TLC/SANY and the CommunityModules Json/IOUtils readers are trusted; BigInt is model-checked",
    ]
    return chk.finish()


