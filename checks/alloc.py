# C15: allocation failure.  spec/Alloc.tla (+ mc/AllocMC), region calls under every fault position validated by
# trace/RegionTrace (CHECKS = {"fault"}), object scenarios validated by trace/AllocTrace.
import json
import os
import random

import vf
import region as regionmod

PROPS = {"C15": "C15"}
CLAIMS = {
    "C15": dict(
        technique="TLA+ Alloc spec: TLC model checking of the allocation protocols under every fault schedule + "
                  "fault enumeration (k-th allocation refused, once / persistently) on the real library with every "
                  "call/allocation/release validated by TLC trace specs",
        text="AllocMC explores abstract constructor/setter/grow/draw/destroy programs under every single and "
             "persistent fault position (negative configs: leaked first allocation, missing break). On the real "
             "library (ASan build, malloc/calloc/realloc/free interposed by --wrap) every execution is first run "
             "fault-free to count its N allocation requests and then re-run for every k in 1..N in both modes: region "
             "scripts (TLC-generated and seeded) are validated by RegionTrace in fault mode (correct result, or FALSE "
             "with the designated broken region; broken operands propagate; fini accepts), object scenarios (images, "
             "setters, gradients, trapezoids, glyph cache, filters, fills) by AllocTrace (no free of a non-live block, "
             "constructors return NULL and release everything, nothing live after destruction, no pixel outside the "
             "permitted rectangles changes, skipped work leaves pixels untouched or correct). A crash/ASan report "
             "ends the trace in an event no action matches.",
        ref="5 C15"),
}
WRAP = ["-Wl,--wrap=malloc,--wrap=calloc,--wrap=realloc,--wrap=free"]
SCENARIOS = ["images", "gradients", "traps", "glyphs", "filter"]


def exec_allocs(tracefile):
    """number of allocation requests per execution name (from a fault-free trace)"""
    res, name, last = {}, None, 0
    for line in open(tracefile):
        if line.startswith('{"e":"Reset"'):
            if name is not None:
                res[name] = last
            name = json.loads(line)["scenario"]
            last = 0
        elif line.startswith('{"e":"Op"'):
            i = line.find('"na":')
            if i > 0:
                last = int(line[i + 5:line.find(",", i)])
    if name is not None:
        res[name] = last
    return res


def run(prop, args):
    chk = vf.Check(prop, args.tier, args.seed)
    quick = args.tier == "quick"
    rng = random.Random(args.seed * 7919 + 15)
    wd = vf.workdir("alloc")
    base = os.path.join(vf.SPEC, "mc")

    # 1. design-level model checking
    for cfg, neg in (("AllocMC.cfg", False), ("AllocMC_neg_leak.cfg", True), ("AllocMC_neg_nobreak.cfg", True)):
        r = vf.tlc_mc(os.path.join(base, "AllocMC.tla"), cfg=os.path.join(base, cfg), workers=8, expect_violation=neg)
        chk.add_tlc(r, ("negative config (must be rejected) " if neg else "model check ") + cfg)
        if not neg and (r.inv_violation or "violated" in r.out):
            raise vf.Infra("AllocMC violates its own properties:\n" + r.out[-2000:])

    # 2. region calls under every fault position
    exe_r, px = vf.build_driver("drv_region", "asan", extra_src=["common/vfault.c"], ldflags=WRAP)
    chk.extra["build"] = px["hash"]
    execs = []
    behs, r = regionmod.tlc_behaviours(24 if quick else 120, 10, args.seed + 15)
    chk.add_tlc(r, "behaviour generation (RegionGen)")
    k = 0
    for beh in behs:
        for width in (16, 32):
            emb = rng.choice(regionmod.embeddings(width, rng))
            execs.append(regionmod.embed(beh, emb, width, "gen%d" % k))
            k += 1
    for i in range(40 if quick else 300):
        execs.append(regionmod.random_exec(rng, "rnd%d" % i, big=(i % 3 == 0)))
    # fault-free run to count allocation requests
    sp = os.path.join(wd, "ff.script")
    open(sp, "w").write("".join("\n".join(e) + "\n" for e in execs))
    tr0 = os.path.join(wd, "ff.ndjson")
    vf.sh([exe_r, sp, tr0], timeout=600)
    nall = exec_allocs(tr0)
    faulted = []
    cap = 10 if quick else 40
    sites = 0
    for e in execs:
        name = e[0].split()[1]
        n = nall.get(name, 0)
        ks = list(range(1, n + 1))
        if len(ks) > cap:
            ks = sorted(rng.sample(ks, cap))
        for kk in ks:
            for mode in (0, 1):
                faulted.append(["R %s-k%d-m%d" % (name, kk, mode), "F %d %d" % (kk, mode)] + e[1:])
                sites += 1
    chk.extra["region_fault_runs"] = len(faulted)
    chk.extra["region_executions_with_allocations"] = sum(1 for v in nall.values() if v)
    traces = []
    nb = 10
    for bi in range(nb):
        part = faulted[bi::nb]
        if not part:
            continue
        spb = os.path.join(wd, "rf%d.ndjson.script" % bi)
        open(spb, "w").write("".join("\n".join(e) + "\n" for e in part))
        trb = os.path.join(wd, "rf%d.ndjson" % bi)
        p = vf.sh([exe_r, spb, trb], timeout=900, check=False)
        if p.returncode != 0 and "AddressSanitizer" not in (p.stdout or ""):
            raise vf.Infra("drv_region (fault mode) failed rc=%d: %s" % (p.returncode, p.stdout[-1500:]))
        traces.append(trb)
    for t in traces:
        for line in open(t):
            if line.startswith('{"e":"Op"'):
                chk.evaluations += 1
                if '"nfail":0' not in line:
                    chk.distinct_keys.add(hash(line[:line.find('"st"')]))
    chk.sample({"region_fault_script": faulted[0][:6] if faulted else []})
    vf.validate_batches(chk, "RegionTrace", traces,
                        cfg=vf.cfg_with_deviations(os.path.join(vf.SPEC, "trace", "RegionTrace_C15.cfg"), "C15"),
                        parallel=10, timeout=1500, label="region fault traces")

    # 3. object scenarios under every fault position
    exe_f, _ = vf.build_driver("drv_fault", "asan", extra_src=["common/vfault.c"], ldflags=WRAP)
    otraces = []
    seeds = [args.seed] if quick else [args.seed + i for i in range(4)]
    nsites = {}
    for sc in SCENARIOS:
        for sd in seeds:
            tr = os.path.join(wd, "obj-%s-%d.ndjson" % (sc, sd))
            p = vf.sh([exe_f, tr, sc, str(sd)], timeout=600, check=False)
            out = (p.stdout or "").strip().splitlines()
            try:
                nsites[sc] = int(out[0])
            except (IndexError, ValueError):
                nsites[sc] = -1
            otraces.append(tr)
            for line in open(tr):
                if line.startswith('{"e":"End"'):
                    chk.evaluations += 1
                    if '"nfail":0' not in line:
                        chk.distinct_keys.add(hash((sc, line[:120])))
    chk.extra["object_scenario_allocation_sites"] = nsites
    chk.sample({"object_scenarios": SCENARIOS, "fault_positions": nsites})
    vf.validate_batches(chk, "AllocTrace", otraces, parallel=10, timeout=1500, label="object fault traces")

    chk.extra["rule"] = ("a case is one API call executed under a fault schedule; distinct non-trivial = distinct calls "
                         "during which at least one allocation was refused")
    chk.assumptions += ["allocations are observed at malloc/calloc/realloc/free (link-time --wrap; pixman linked statically)",
                        "a drawing call's permitted rectangles are bounds and the clip whose setter reported success",
                        "ASan build: a memory error aborts and the trace ends in an event no action matches"]
    return chk.finish()
