# C15: allocation failure.  spec/Alloc.tla (+ mc/AllocMC), region calls under every fault position validated by
# trace/RegionTrace (CHECKS = {"fault"}), object scenarios validated by trace/AllocTrace.
import json
import os
import random

import vf
import region as regionmod

PROPS = {"C15": "C15"}
CLAIMS = {
    "C15": dict(
        technique="TLA+ Alloc spec: TLC model checking of the allocation protocols under every fault schedule + "
                  "fault enumeration (k-th allocation refused, once / persistently) on the real library with every "
                  "call/allocation/release validated by TLC trace specs",
        text="AllocMC explores abstract constructor/setter/grow/draw/destroy programs under every single and "
             "persistent fault position (negative configs: leaked first allocation, missing break). On the real "
             "library (ASan build, malloc/calloc/realloc/free interposed by --wrap) every execution is first run "
             "fault-free to count its N allocation requests and then re-run for every k in 1..N in both modes: region "
             "scripts (TLC-generated and seeded) are validated by RegionTrace in fault mode (correct result, or FALSE "
             "with the designated broken region; broken operands propagate; fini accepts), object scenarios (images, "
             "setters, gradients, trapezoids, glyph cache, filters, fills) by AllocTrace (no free of a non-live block, "
             "constructors return NULL and release everything, nothing live after destruction, no pixel outside the "
             "permitted rectangles changes, skipped work leaves pixels untouched or correct). A crash/ASan report "
             "ends the trace in an event no action matches.",
        ref="5 C15"),
}
WRAP = ["-Wl,--wrap=malloc,--wrap=calloc,--wrap=realloc,--wrap=free"]
SCENARIOS = ["images", "gradients", "traps", "glyphs", "filter"]


def exec_allocs(tracefile):
    """number of allocation requests per execution name (from a fault-free trace)"""
    res, name, last = {}, None, 0
    for line in open(tracefile):
        if line.startswith('{"e":"Reset"'):
            if name is not None:
                res[name] = last
            name = json.loads(line)["scenario"]
            last = 0
        elif line.startswith('{"e":"Op"'):
            i = line.find('"na":')
            if i > 0:
                last = int(line[i + 5:line.find(",", i)])
    if name is not None:
        res[name] = last
    return res


def focused_scenarios(rng, n):
    """(setup lines, target line, follow-up lines): one allocation-heavy region call per scenario, for which EVERY
       allocation request of that call is refused in turn (single and persistent).  Targets: init_rects whose boxes
       fall into several y-overlapping groups (validate() then builds and merges several partial regions), the
       binary operations on large operands, in-place variants, conversions of > 16 rectangles, translations that
       must re-validate after clipping."""
    out = []
    for i in range(n):
        w = rng.choice([16, 32])
        off = 0 if w == 16 else 3
        A, B, C = 1 + off, 2 + off, 3 + off

        def staircase(groups, per, x0=0):
            v = []
            for g in range(groups):
                for k in range(per):
                    x = x0 + 30 * g + rng.randint(0, 3)
                    y = 7 * k + 3 * g + rng.randint(0, 1)
                    v += [x, y, x + rng.randint(4, 20), y + rng.randint(2, 9)]
            boxes = [v[j:j + 4] for j in range(0, len(v), 4)]
            rng.shuffle(boxes)
            return [c for b in boxes for c in b]

        kind = rng.choice(["init_rects", "init_rects", "init_rects", "union", "subtract", "intersect", "inverse", "inplace",
                           "conv", "translate", "copy", "union_rect"])
        big1 = staircase(rng.randint(2, 7), rng.randint(2, 6))
        big2 = staircase(rng.randint(2, 5), rng.randint(2, 5), x0=rng.randint(0, 25))
        setup = ["O %d init_rects %d 0 0 %d %s" % (w, A, len(big1), " ".join(map(str, big1))),
                 "O %d init_rects %d 0 0 %d %s" % (w, B, len(big2), " ".join(map(str, big2)))]
        if kind == "init_rects":
            v = staircase(rng.randint(4, 9), rng.randint(2, 5))
            target = "O %d init_rects %d 0 0 %d %s" % (w, C, len(v), " ".join(map(str, v)))
        elif kind in ("union", "subtract", "intersect"):
            target = "O %d %s %d %d %d 0" % (w, kind, C, A, B)
        elif kind == "inplace":
            target = "O %d %s %d %d %d 0" % (w, rng.choice(["union", "subtract", "intersect"]), rng.choice([A, B]), A, B)
        elif kind == "inverse":
            target = "O %d inverse %d %d 0 4 -5 -5 300 90" % (w, rng.choice([A, C]), A)
        elif kind == "conv":
            src = 1 + (3 if w == 16 else 0)
            setup = ["O %d init_rects %d 0 0 %d %s" % (48 - w, src, len(big1), " ".join(map(str, big1)))]
            target = "O %d conv %d %d 0 0" % (w, C, src)
        elif kind == "translate":
            lim = 32767 if w == 16 else 2 ** 31 - 1
            target = "O %d translate %d 0 0 2 %d %d" % (w, A, lim - rng.randint(20, 120), rng.choice([0, 5]))
        elif kind == "copy":
            target = "O %d copy %d %d 0 0" % (w, C, A)
        else:
            target = "O %d union_rect %d %d 0 4 3 3 250 60" % (w, rng.choice([A, C]), A)
        follow = ["O %d union %d %d %d 0" % (w, B, C, A), "O %d intersect %d %d %d 0" % (w, C, C, B),
                  "O %d copy %d %d 0 0" % (w, A, C), "O %d clear %d 0 0 0" % (w, C)]
        out.append((["R foc%d" % i] + setup, target, follow))
    return out


def run(prop, args):
    chk = vf.Check(prop, args.tier, args.seed)
    quick = args.tier == "quick"
    rng = random.Random(args.seed * 7919 + 15)
    wd = vf.workdir("alloc")
    base = os.path.join(vf.SPEC, "mc")

    # 1. design-level model checking
    for cfg, neg in (("AllocMC.cfg", False), ("AllocMC_neg_leak.cfg", True), ("AllocMC_neg_nobreak.cfg", True)):
        r = vf.tlc_mc(os.path.join(base, "AllocMC.tla"), cfg=os.path.join(base, cfg), workers=8, expect_violation=neg)
        chk.add_tlc(r, ("negative config (must be rejected) " if neg else "model check ") + cfg)
        if not neg and (r.inv_violation or "violated" in r.out):
            raise vf.Infra("AllocMC violates its own properties:\n" + r.out[-2000:])

    # 2. region calls under every fault position
    exe_r, px = vf.build_driver("drv_region", "asan", extra_src=["common/vfault.c"], ldflags=WRAP)
    chk.extra["build"] = px["hash"]
    execs = []
    behs, r = regionmod.tlc_behaviours(24 if quick else 400, 10 if quick else 14, args.seed + 15)
    chk.add_tlc(r, "behaviour generation (RegionGen)")
    k = 0
    for beh in behs:
        for width in (16, 32):
            emb = rng.choice(regionmod.embeddings(width, rng))
            execs.append(regionmod.embed(beh, emb, width, "gen%d" % k))
            k += 1
    for i in range(40 if quick else 1200):
        execs.append(regionmod.random_exec(rng, "rnd%d" % i, big=(i % 3 == 0)))
    # fault-free run to count allocation requests
    sp = os.path.join(wd, "ff.script")
    open(sp, "w").write("".join("\n".join(e) + "\n" for e in execs))
    tr0 = os.path.join(wd, "ff.ndjson")
    vf.run_driver([exe_r, sp, tr0], tr0, timeout=600)
    nall = exec_allocs(tr0)
    faulted = []
    cap = 10 if quick else 80
    sites = 0
    for e in execs:
        name = e[0].split()[1]
        n = nall.get(name, 0)
        ks = list(range(1, n + 1))
        if len(ks) > cap:
            ks = sorted(rng.sample(ks, cap))
        for kk in ks:
            for mode in (0, 1):
                faulted.append(["R %s-k%d-m%d" % (name, kk, mode), "F %d %d" % (kk, mode)] + e[1:])
                sites += 1
    # focused scenarios: every allocation request of one heavy call
    foc = focused_scenarios(rng, 40 if quick else 2500)
    spf = os.path.join(wd, "foc.script")
    open(spf, "w").write("".join("\n".join(su + [tg] + fo) + "\n" for su, tg, fo in foc))
    trf = os.path.join(wd, "foc.ndjson")
    vf.run_driver([exe_r, spf, trf], trf, timeout=600)
    # allocation requests of the target call = difference of the cumulative counters around it
    per_exec = {}
    cur = None
    for line in open(trf):
        if line.startswith('{"e":"Reset"'):
            cur = json.loads(line)["scenario"]
            per_exec[cur] = []
        elif line.startswith('{"e":"Op"'):
            i = line.find('"na":')
            per_exec[cur].append(int(line[i + 5:line.find(",", i)]))
    nfoc = 0
    for su, tg, fo in foc:
        name = su[0].split()[1]
        nas = per_exec.get(name, [])
        nsetup = len(su) - 1
        if len(nas) <= nsetup:
            continue
        before = nas[nsetup - 1] if nsetup > 0 else 0
        n_op = nas[nsetup] - before
        for kk in range(1, min(n_op, 60) + 1):
            for mode in (0, 1):
                faulted.append(["R %s-k%d-m%d" % (name, kk, mode)] + su[1:] + ["F %d %d" % (kk, mode), tg] + fo)
                nfoc += 1
    chk.extra["focused_fault_runs"] = nfoc
    chk.extra["region_fault_runs"] = len(faulted)
    chk.extra["region_executions_with_allocations"] = sum(1 for v in nall.values() if v)
    traces = []
    nb = 10
    for bi in range(nb):
        part = faulted[bi::nb]
        if not part:
            continue
        spb = os.path.join(wd, "rf%d.ndjson.script" % bi)
        open(spb, "w").write("".join("\n".join(e) + "\n" for e in part))
        trb = os.path.join(wd, "rf%d.ndjson" % bi)
        rc, out = vf.run_driver([exe_r, spb, trb], trb, timeout=900)
        if rc == 3:
            raise vf.Infra("drv_region (fault mode) could not read its script: %s" % out[-1500:])
        traces.append(trb)
    for t in traces:
        for line in open(t):
            if line.startswith('{"e":"Op"'):
                chk.evaluations += 1
                if '"nfail":0' not in line:
                    chk.distinct_keys.add(hash(line[:line.find('"st"')]))
    traces += [tr0, trf]
    chk.sample({"region_fault_script": faulted[0][:6] if faulted else []})
    vf.validate_batches(chk, "RegionTrace", traces,
                        cfg=vf.cfg_with_deviations(os.path.join(vf.SPEC, "trace", "RegionTrace_C15.cfg"), "C15"),
                        parallel=10, timeout=1500, label="region fault traces")

    # 3. object scenarios under every fault position
    exe_f, _ = vf.build_driver("drv_fault", "asan", extra_src=["common/vfault.c"], ldflags=WRAP)
    otraces = []
    seeds = [args.seed] if quick else [args.seed + i for i in range(30)]
    nsites = {}
    for sc in SCENARIOS:
        for sd in seeds:
            tr = os.path.join(wd, "obj-%s-%d.ndjson" % (sc, sd))
            rc, outp = vf.run_driver([exe_f, tr, sc, str(sd)], tr, timeout=600)
            out = (outp or "").strip().splitlines()
            try:
                nsites[sc] = int(out[0])
            except (IndexError, ValueError):
                nsites[sc] = -1
            otraces.append(tr)
            for line in open(tr):
                if line.startswith('{"e":"End"'):
                    chk.evaluations += 1
                    if '"nfail":0' not in line:
                        chk.distinct_keys.add(hash((sc, line[:120])))
    chk.extra["object_scenario_allocation_sites"] = nsites
    chk.sample({"object_scenarios": SCENARIOS, "fault_positions": nsites})
    vf.validate_batches(chk, "AllocTrace", otraces, parallel=10, timeout=1500, label="object fault traces")

    chk.extra["rule"] = ("a case is one API call executed under a fault schedule; distinct non-trivial = distinct calls "
                         "during which at least one allocation was refused")
    chk.assumptions += ["allocations are observed at malloc/calloc/realloc/free (link-time --wrap; pixman linked statically)",
                        "a drawing call's permitted rectangles are bounds and the clip whose setter reported success",
                        "ASan build: a memory error aborts and the trace ends in an event no action matches"]
    return chk.finish()
