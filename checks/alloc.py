# C15: allocation failure.  spec/Alloc.tla (+ mc/AllocMC, mc/AllocLoopMC), region calls under every fault position
# validated by trace/RegionTrace (CHECKS = {"fault"}), object scenarios and focused object cases (one target call, every
# allocation request of it) validated by trace/AllocTrace.
import json
import os
import random

import vf
import region as regionmod

PROPS = {"C15": "C15"}
CLAIMS = {
    "C15": dict(
        technique="TLA+ Alloc spec: TLC model checking of the allocation protocols under every fault schedule + "
                  "fault enumeration (k-th allocation refused, once / persistently) on the real library with every "
                  "call/allocation/release validated by TLC trace specs",
        text="AllocMC explores abstract constructor/setter/grow/draw/destroy programs under every single and "
             "persistent fault position (negative configs: leaked first allocation, missing break). On the real "
             "library (ASan build, malloc/calloc/realloc/free interposed by --wrap) every execution is first run "
             "fault-free to count its N allocation requests and then re-run for every k in 1..N in both modes: region "
             "scripts (TLC-generated and seeded) are validated by RegionTrace in fault mode (correct result, or FALSE "
             "with the designated broken region; broken operands propagate; fini accepts), object scenarios (images, "
             "setters, gradients, trapezoids, glyph cache, filters, fills) by AllocTrace (no free of a non-live block, "
             "constructors return NULL and release everything, nothing live after destruction, no pixel outside the "
             "permitted rectangles changes, skipped work leaves pixels untouched or correct). Focused object cases "
             "enumerate, per API entry point, the arguments that decide its allocations (both glyph entry points x every "
             "sequence of glyph formats up to 3 and longer runs x mask format same / different / component alpha; every "
             "constructor; setters with and without an earlier value, clip regions below and above the 16-box stack "
             "array of the 16<->32 conversion; trapezoid / triangle / fill entry points below and above their stack "
             "arrays; general-path composites with stack and heap scanline buffers, bilinear cover iterators, formats "
             "without a float store, destinations with an alpha map, multi-box clips) and refuse every allocation "
             "request of that one call, once and for the rest of the call; afterwards the same request is repeated "
             "without faults on an untouched destination and must draw exactly what the fault-free run drew (the "
             "objects a failed drawing call used are unchanged), and everything is destroyed. AllocLoopMC model-checks "
             "the item loop of the glyph entry points (temporary, per-run routine cache, lazily created helper) under "
             "every fault schedule (negative configs: continue with a stale routine, leaked helper, leaked temporary). "
             "A crash/ASan report ends the trace in an event no action matches.",
        ref="5 C15"),
}
WRAP = ["-Wl,--wrap=malloc,--wrap=calloc,--wrap=realloc,--wrap=free"]
SCENARIOS = ["images", "gradients", "traps", "glyphs", "filter"]


def exec_allocs(tracefile):
    """number of allocation requests per execution name (from a fault-free trace)"""
    res, name, last = {}, None, 0
    for line in open(tracefile):
        if line.startswith('{"e":"Reset"'):
            if name is not None:
                res[name] = last
            name = json.loads(line)["scenario"]
            last = 0
        elif line.startswith('{"e":"Op"'):
            i = line.find('"na":')
            if i > 0:
                last = int(line[i + 5:line.find(",", i)])
    if name is not None:
        res[name] = last
    return res


def focused_scenarios(rng, n):
    """(setup lines, target line, follow-up lines): one allocation-heavy region call per scenario, for which EVERY
       allocation request of that call is refused in turn (single and persistent).  Targets: init_rects whose boxes
       fall into several y-overlapping groups (validate() then builds and merges several partial regions), the
       binary operations on large operands, in-place variants, conversions of > 16 rectangles, translations that
       must re-validate after clipping."""
    out = []
    for i in range(n):
        w = rng.choice([16, 32])
        off = 0 if w == 16 else 3
        A, B, C = 1 + off, 2 + off, 3 + off

        def staircase(groups, per, x0=0):
            v = []
            for g in range(groups):
                for k in range(per):
                    x = x0 + 30 * g + rng.randint(0, 3)
                    y = 7 * k + 3 * g + rng.randint(0, 1)
                    v += [x, y, x + rng.randint(4, 20), y + rng.randint(2, 9)]
            boxes = [v[j:j + 4] for j in range(0, len(v), 4)]
            rng.shuffle(boxes)
            return [c for b in boxes for c in b]

        kind = rng.choice(["init_rects", "init_rects", "init_rects", "union", "subtract", "intersect", "inverse", "inplace",
                           "conv", "translate", "copy", "union_rect"])
        big1 = staircase(rng.randint(2, 7), rng.randint(2, 6))
        big2 = staircase(rng.randint(2, 5), rng.randint(2, 5), x0=rng.randint(0, 25))
        setup = ["O %d init_rects %d 0 0 %d %s" % (w, A, len(big1), " ".join(map(str, big1))),
                 "O %d init_rects %d 0 0 %d %s" % (w, B, len(big2), " ".join(map(str, big2)))]
        if kind == "init_rects":
            v = staircase(rng.randint(4, 9), rng.randint(2, 5))
            target = "O %d init_rects %d 0 0 %d %s" % (w, C, len(v), " ".join(map(str, v)))
        elif kind in ("union", "subtract", "intersect"):
            target = "O %d %s %d %d %d 0" % (w, kind, C, A, B)
        elif kind == "inplace":
            target = "O %d %s %d %d %d 0" % (w, rng.choice(["union", "subtract", "intersect"]), rng.choice([A, B]), A, B)
        elif kind == "inverse":
            target = "O %d inverse %d %d 0 4 -5 -5 300 90" % (w, rng.choice([A, C]), A)
        elif kind == "conv":
            src = 1 + (3 if w == 16 else 0)
            setup = ["O %d init_rects %d 0 0 %d %s" % (48 - w, src, len(big1), " ".join(map(str, big1)))]
            target = "O %d conv %d %d 0 0" % (w, C, src)
        elif kind == "translate":
            lim = 32767 if w == 16 else 2 ** 31 - 1
            target = "O %d translate %d 0 0 2 %d %d" % (w, A, lim - rng.randint(20, 120), rng.choice([0, 5]))
        elif kind == "copy":
            target = "O %d copy %d %d 0 0" % (w, C, A)
        else:
            target = "O %d union_rect %d %d 0 4 3 3 250 60" % (w, rng.choice([A, C]), A)
        follow = ["O %d union %d %d %d 0" % (w, B, C, A), "O %d intersect %d %d %d 0" % (w, C, C, B),
                  "O %d copy %d %d 0 0" % (w, A, C), "O %d clear %d 0 0 0" % (w, C)]
        out.append((["R foc%d" % i] + setup, target, follow))
    return out


# ------------------------------------------------------------------------------------------------------------
# focused object cases (harness/drv_fault.c, "@casefile" mode): ONE target call per execution, every allocation
# request of that call refused in turn.  The generators below enumerate along the structure of the entry points:
# which arguments decide how many allocations a call makes and which branch each of them sits on.

FMT = {"a1": 0, "a8": 1, "argb": 2, "a4": 3, "xrgb": 4, "565": 5, "2101010": 6}
OPS = {"over": 0, "add": 1, "src": 2, "disjoint_over": 3, "saturate": 4, "in_reverse": 5, "hsl_hue": 6, "over_reverse": 7}
MAXPIX = 2304


def glyph_case(name, entry, mf, op, srckind, fmts, W=None, H=8, rect=None, pos=None, size=(6, 6), gap=1):
    """glyph i of format fmts[i], size w x h, boxes side by side (never overlapping: a pixel is drawn by at most
       one glyph, so 'untouched or as in the complete drawing' is decidable per pixel)"""
    w, h = size
    n = len(fmts)
    if W is None:
        W = max(8, 1 + n * (w + gap) + 1)
    assert W * H <= MAXPIX
    if rect is None:
        rect = (0, 0, W, H)
    p = [entry, FMT[mf], OPS[op], srckind, W, H] + list(rect) + [n]
    for i, f in enumerate(fmts):
        x, y = pos[i] if pos else (1 + i * (w + gap), 1)
        p += [FMT[f], x + 1, y + 2, w, h]          # the driver inserts with origin (1, 2): box = (x, y, x + w, y + h)
    return (name, "glyphs", p)


def glyph_cases(rng, quick):
    """pixman_composite_glyphs (temporary mask: image, pixels, add_glyphs' lazily created white source, whatever the
       final composite needs) and pixman_composite_glyphs_no_mask, systematically:
       entry point x EVERY sequence of glyph formats of length 1..3 over {a1, a8, a8r8g8b8} (all one format, and every
       way of mixing them within one call, every position of the first glyph that needs the white source, runs of
       2 and 3 glyphs of a format) x mask format {a1, a8, a8r8g8b8 = component alpha} (so: same as the glyphs,
       different, component alpha);
       plus longer runs, a4 glyphs, glyphs partly / entirely outside the mask rectangle, ADD, an image source, and
       masks wide enough for the general path's heap scanline buffers."""
    import itertools
    out = []
    base = ["a1", "a8", "argb"]
    seqs = [s for n in (1, 2, 3) for s in itertools.product(base, repeat=n)]
    for si, sq in enumerate(seqs):
        for mf in base:
            out.append(glyph_case("gm%d%s" % (si, mf), 0, mf, "over", 0, sq))
        out.append(glyph_case("gn%d" % si, 1, "a8", "over", 0, sq))
    longer = [("a8",) * 5, ("argb", "a8", "a8", "argb", "a8"), ("a1", "a1", "a8", "a8", "a1"), ("a4", "a4", "a8"),
              ("a8", "a4", "a4", "a4"), ("argb", "argb", "a1", "a1")]
    if not quick:
        longer += [tuple(rng.choice(base + ["a4"]) for _ in range(rng.randint(4, 8))) for _ in range(40)]
    for li, sq in enumerate(longer):
        for mf in (base if quick else base + ["a4"]):
            out.append(glyph_case("gl%d%s" % (li, mf), 0, mf, "over", 0, sq))
        out.append(glyph_case("gln%d" % li, 1, "a8", "over", 0, sq))
    # other operators / an image source / mask rectangle that cuts glyphs or leaves them out altogether
    var = [("a8", "a8", "a8"), ("a8", "argb", "argb"), ("argb", "a8", "a8"), ("a1", "a1", "a1")]
    for vi, sq in enumerate(var):
        for mf in ("a8", "argb"):
            out.append(glyph_case("ga%d%s" % (vi, mf), 0, mf, "add", 1, sq))
            out.append(glyph_case("gr%d%s" % (vi, mf), 0, mf, "over", 0, sq, rect=(4, 2, 19, 6)))      # cuts 1st and 3rd
            out.append(glyph_case("go%d%s" % (vi, mf), 0, mf, "over", 0, sq, rect=(8, 0, 22, 8)))      # 1st glyph outside
            out.append(glyph_case("gp%d%s" % (vi, mf), 0, mf, "over", 1, sq, rect=(0, 0, 14, 8)))      # 3rd glyph outside
        out.append(glyph_case("gan%d" % vi, 1, "a8", "add", 1, sq))
    # the final composite of the mask variant on the general path with heap buffers (float pipeline from 512 pixels)
    for vi, sq in enumerate(var[:2] if quick else var):
        for mf in ("a8", "argb"):
            out.append(glyph_case("gw%d%s" % (vi, mf), 0, mf, "disjoint_over", 0, sq, W=520, H=4, size=(6, 3),
                                  pos=[(3, 0), (250, 1), (512, 0)]))
    if not quick:
        for i in range(150):
            n = rng.randint(1, 6)
            w, h = rng.randint(1, 9), rng.randint(1, 6)
            W = 2 + n * (w + 2) + rng.randint(0, 6)
            H = h + rng.randint(1, 4)
            sq = [rng.choice(base + ["a4"]) for _ in range(n)]
            pos = [(1 + k * (w + 2) + rng.randint(-1, 1), rng.randint(-1, H - h)) for k in range(n)]
            rect = (rng.randint(0, W // 3), rng.randint(0, 1), rng.randint(2 * W // 3, W), rng.randint(H - 1, H))
            out.append(glyph_case("gx%d" % i, rng.randint(0, 1), rng.choice(base + ["a4"]),
                                  rng.choice(["over", "add"]), rng.randint(0, 1), sq, W=W, H=H, rect=rect, pos=pos,
                                  size=(w, h), gap=2))
    return out


def ctor_cases(rng, quick):
    out = []
    for f in ("a1", "a8", "argb", "565", "2101010"):
        for which in (0, 1, 2):                          # cleared / no_clear / caller's pixels
            out.append(("cb%d%s" % (which, f), "ctor", [which, FMT[f], 16, 4]))
    out.append(("cb0one", "ctor", [0, FMT["argb"], 1, 1]))
    out.append(("cs", "ctor", [3]))
    for which in (4, 5, 6):
        for n in ((1, 3, 300) if quick else (1, 2, 3, 17, 64, 300, 400)):
            out.append(("cg%d_%d" % (which, n), "ctor", [which, n]))
    out.append(("cc", "ctor", [7]))
    for f in ("a1", "a8", "argb"):
        for (w, h) in ((6, 6), (1, 1), (33, 2)):
            out.append(("ci%s%dx%d" % (f, w, h), "ctor", [8, FMT[f], w, h]))
    # separable convolution blocks: scale x, scale y (1/256 units), reconstruct/sample kernels, subsample bits
    for i, (sx, sy, kx, ky, bx, by) in enumerate([(256, 256, 1 + 6 * 2, 2 + 6 * 1, 1, 1), (384, 192, 3 + 6 * 4, 4 + 6 * 0, 2, 1),
                                                  (1024, 64, 5 + 6 * 1, 2 + 6 * 2, 0, 3)]):
        out.append(("cf%d" % i, "ctor", [9, sx, sy, kx, ky, bx, by]))
    return out


def setter_cases(rng, quick):
    out = []
    for prev in (0, 1):
        for a in (0, 1, 2, 3):
            out.append(("st%d%d" % (prev, a), "setter", [0, prev, a]))
        for (a, b) in ((1, 1), (3, 3), (9, 9)):
            out.append(("sf%d%dx%d" % (prev, a, b), "setter", [1, prev, a, b]))
        out.append(("ss%d" % prev, "setter", [2, prev]))
        for a in (1, 2, 3, 16, 17, 40, 64):              # the 16 <-> 32 bit conversion switches to the heap above 16 boxes
            out.append(("sc%d_%d" % (prev, a), "setter", [3, prev, a]))
            out.append(("sk%d_%d" % (prev, a), "setter", [4, prev, a]))
    out.append(("sb", "setter", [5, 1]))
    out.append(("sn", "setter", [6, 1, 3]))
    return out


def draw_cases(rng, quick):
    out = []
    for op in ("over", "add"):
        for mf in ("a1", "a8"):
            for n in ((1, 6) if quick else (1, 2, 6, 12)):
                out.append(("dt%s%s%d" % (op, mf, n), "draw", [0, OPS[op], FMT[mf], n]))
                out.append(("dg%s%s%d" % (op, mf, n), "draw", [1, OPS[op], FMT[mf], n]))
    for which in (2, 3, 4):
        for n in (1, 6, 12):
            out.append(("da%d_%d" % (which, n), "draw", [which, 0, 0, n]))
    # fill_rectangles keeps up to 6 boxes on the stack; fill_boxes builds a region from them (init_rects, validate),
    # intersects it with the clip, then fills directly (opaque) or composites box by box (translucent)
    for which in (5, 6):
        for opaque in (0, 1):
            for n in ((1, 6, 7, 20) if which == 5 else (1, 7, 20)):
                for nclip in (0, 3, 20):
                    out.append(("df%d%d_%d_%d" % (which, opaque, n, nclip), "draw", [which, OPS["over"], opaque, n, nclip]))
        out.append(("df%dsrc" % which, "draw", [which, OPS["src"], 0, 9, 5]))
        out.append(("df%dadd" % which, "draw", [which, OPS["add"], 0, 9, 0]))
    # composite32 on the general path: width decides stack / heap scanline buffers (narrow from 2045 pixels, float
    # from 512), the source kind decides the iterator (bilinear cover iterators own a line buffer), formats without a
    # float store go through a per-row temporary, a multi-box clip makes the composite region allocate
    wide = [("disjoint_over", 520, s, m) for s in (0, 1, 2, 3, 4, 5, 6, 7) for m in ((0,) if quick and s not in (1, 3) else (0, 1, 2))]
    wide += [("saturate", 520, 1, 1), ("hsl_hue", 520, 4, 2)]
    narrow = [("in_reverse", 2050, 1, 1), ("over_reverse", 2050, 4, 0), ("add", 2050, 0, 2)]
    bil = [(op, 200, 3, m) for op in ("in_reverse", "src", "over", "add", "over_reverse") for m in (1, 2)]
    bil += [("in_reverse", 2050, 3, 1), ("hsl_hue", 520, 3, 1)]
    for (op, w, s, m) in wide + narrow + bil:
        out.append(("dc%s%d_%d%d" % (op, w, s, m), "draw", [7, OPS[op], w, s, m, 0, 0]))
    for (op, w, s, m, nclip, dk) in (("over", 64, 1, 1, 40, 0), ("over", 64, 0, 0, 33, 0), ("disjoint_over", 64, 1, 0, 40, 0),
                                     ("over", 600, 1, 0, 0, 1), ("disjoint_over", 520, 7, 0, 0, 1), ("in_reverse", 64, 3, 1, 40, 0),
                                     # destination with an alpha map: per-row temporaries of the destination iterators
                                     ("over", 16, 0, 0, 0, 2), ("in_reverse", 16, 1, 1, 0, 2), ("disjoint_over", 16, 1, 0, 0, 2),
                                     ("over", 300, 1, 1, 0, 2), ("saturate", 300, 0, 0, 0, 2), ("src", 16, 1, 0, 0, 2)):
        out.append(("dk%s%d_%d%d_%d_%d" % (op, w, s, m, nclip, dk), "draw", [7, OPS[op], w, s, m, nclip, dk]))
    return out


def focused_object_cases(rng, quick):
    return glyph_cases(rng, quick) + ctor_cases(rng, quick) + setter_cases(rng, quick) + draw_cases(rng, quick)


def run(prop, args):
    chk = vf.Check(prop, args.tier, args.seed)
    quick = args.tier == "quick"
    rng = random.Random(args.seed * 7919 + 15)
    wd = vf.workdir("alloc")
    base = os.path.join(vf.SPEC, "mc")

    # 1. design-level model checking
    for cfg, neg in (("AllocMC.cfg", False), ("AllocMC_neg_leak.cfg", True), ("AllocMC_neg_nobreak.cfg", True)):
        r = vf.tlc_mc(os.path.join(base, "AllocMC.tla"), cfg=os.path.join(base, cfg), workers=8, expect_violation=neg)
        chk.add_tlc(r, ("negative config (must be rejected) " if neg else "model check ") + cfg)
        if not neg and (r.inv_violation or "violated" in r.out):
            raise vf.Infra("AllocMC violates its own properties:\n" + r.out[-2000:])

    # the item loop of the glyph entry points (temporary, per-run routine cache, lazily created helper) under every
    # fault schedule and every list of item kinds up to 4
    for cfg, neg in (("AllocLoopMC.cfg", False), ("AllocLoopMC_neg_continue.cfg", True),
                     ("AllocLoopMC_neg_leak_helper.cfg", True), ("AllocLoopMC_neg_leak_tmp.cfg", True)):
        r = vf.tlc_mc(os.path.join(base, "AllocLoopMC.tla"), cfg=os.path.join(base, cfg), workers=6, expect_violation=neg)
        chk.add_tlc(r, ("negative config (must be rejected) " if neg else "model check ") + cfg)
        if not neg and (r.inv_violation or "violated" in r.out):
            raise vf.Infra("AllocLoopMC violates its own properties:\n" + r.out[-2000:])

    # 2. region calls under every fault position
    exe_r, px = vf.build_driver("drv_region", "asan", extra_src=["common/vfault.c"], ldflags=WRAP)
    chk.extra["build"] = px["hash"]
    execs = []
    behs, r = regionmod.tlc_behaviours(24 if quick else 400, 10 if quick else 14, args.seed + 15)
    chk.add_tlc(r, "behaviour generation (RegionGen)")
    k = 0
    for beh in behs:
        for width in (16, 32):
            emb = rng.choice(regionmod.embeddings(width, rng))
            execs.append(regionmod.embed(beh, emb, width, "gen%d" % k))
            k += 1
    for i in range(40 if quick else 1200):
        execs.append(regionmod.random_exec(rng, "rnd%d" % i, big=(i % 3 == 0)))
    # fault-free run to count allocation requests
    sp = os.path.join(wd, "ff.script")
    open(sp, "w").write("".join("\n".join(e) + "\n" for e in execs))
    tr0 = os.path.join(wd, "ff.ndjson")
    vf.run_driver([exe_r, sp, tr0], tr0, timeout=600)
    nall = exec_allocs(tr0)
    faulted = []
    cap = 10 if quick else 80
    sites = 0
    for e in execs:
        name = e[0].split()[1]
        n = nall.get(name, 0)
        ks = list(range(1, n + 1))
        if len(ks) > cap:
            ks = sorted(rng.sample(ks, cap))
        for kk in ks:
            for mode in (0, 1):
                faulted.append(["R %s-k%d-m%d" % (name, kk, mode), "F %d %d" % (kk, mode)] + e[1:])
                sites += 1
    # focused scenarios: every allocation request of one heavy call
    foc = focused_scenarios(rng, 40 if quick else 2500)
    spf = os.path.join(wd, "foc.script")
    open(spf, "w").write("".join("\n".join(su + [tg] + fo) + "\n" for su, tg, fo in foc))
    trf = os.path.join(wd, "foc.ndjson")
    vf.run_driver([exe_r, spf, trf], trf, timeout=600)
    # allocation requests of the target call = difference of the cumulative counters around it
    per_exec = {}
    cur = None
    for line in open(trf):
        if line.startswith('{"e":"Reset"'):
            cur = json.loads(line)["scenario"]
            per_exec[cur] = []
        elif line.startswith('{"e":"Op"'):
            i = line.find('"na":')
            per_exec[cur].append(int(line[i + 5:line.find(",", i)]))
    nfoc = 0
    for su, tg, fo in foc:
        name = su[0].split()[1]
        nas = per_exec.get(name, [])
        nsetup = len(su) - 1
        if len(nas) <= nsetup:
            continue
        before = nas[nsetup - 1] if nsetup > 0 else 0
        n_op = nas[nsetup] - before
        for kk in range(1, min(n_op, 60) + 1):
            for mode in (0, 1):
                faulted.append(["R %s-k%d-m%d" % (name, kk, mode)] + su[1:] + ["F %d %d" % (kk, mode), tg] + fo)
                nfoc += 1
    chk.extra["focused_fault_runs"] = nfoc
    chk.extra["region_fault_runs"] = len(faulted)
    chk.extra["region_executions_with_allocations"] = sum(1 for v in nall.values() if v)
    traces = []
    nb = 10
    for bi in range(nb):
        part = faulted[bi::nb]
        if not part:
            continue
        spb = os.path.join(wd, "rf%d.ndjson.script" % bi)
        open(spb, "w").write("".join("\n".join(e) + "\n" for e in part))
        trb = os.path.join(wd, "rf%d.ndjson" % bi)
        rc, out = vf.run_driver([exe_r, spb, trb], trb, timeout=900)
        if rc == 3:
            raise vf.Infra("drv_region (fault mode) could not read its script: %s" % out[-1500:])
        traces.append(trb)
    for t in traces:
        for line in open(t):
            if line.startswith('{"e":"Op"'):
                chk.evaluations += 1
                if '"nfail":0' not in line:
                    chk.distinct_keys.add(hash(line[:line.find('"st"')]))
    traces += [tr0, trf]
    chk.sample({"region_fault_script": faulted[0][:6] if faulted else []})
    vf.validate_batches(chk, "RegionTrace", traces,
                        cfg=vf.cfg_with_deviations(os.path.join(vf.SPEC, "trace", "RegionTrace_C15.cfg"), "C15"),
                        parallel=10, timeout=1500, label="region fault traces")

    # 3. object scenarios under every fault position
    exe_f, _ = vf.build_driver("drv_fault", "asan", extra_src=["common/vfault.c"], ldflags=WRAP)
    otraces = []
    seeds = [args.seed] if quick else [args.seed + i for i in range(30)]
    nsites = {}
    for sc in SCENARIOS:
        for sd in seeds:
            tr = os.path.join(wd, "obj-%s-%d.ndjson" % (sc, sd))
            rc, outp = vf.run_driver([exe_f, tr, sc, str(sd)], tr, timeout=600)
            out = (outp or "").strip().splitlines()
            try:
                nsites[sc] = int(out[0])
            except (IndexError, ValueError):
                nsites[sc] = -1
            otraces.append(tr)
            for line in open(tr):
                if line.startswith('{"e":"End"'):
                    chk.evaluations += 1
                    if '"nfail":0' not in line:
                        chk.distinct_keys.add(hash((sc, line[:120])))
    chk.extra["object_scenario_allocation_sites"] = nsites
    chk.sample({"object_scenarios": SCENARIOS, "fault_positions": nsites})
    vf.validate_batches(chk, "AllocTrace", otraces, parallel=10, timeout=1500, label="object fault traces")


    # 4. focused object cases: every allocation request of ONE target call (glyph entry points x formats x mask
    #    formats x counts, every constructor, the setters that own memory, the other drawing entry points)
    cases = focused_object_cases(rng, quick)
    names = [c[0] for c in cases]
    if len(set(names)) != len(names):
        raise vf.Infra("focused object cases: duplicate case names")
    nb = 10 if quick else 12
    modes = 3 if quick else 7                  # bit m: mode m (0 once, 1 rest of the call, 2 rest of the execution)
    ftraces, ncalls, fired, nreq = [], 0, 0, {}
    # the same library with SIMD back ends switched off takes other branches (fast_bilinear_cover_iter_init instead of
    # the SSSE3 iterator, the C fast paths / the general path instead of SSE2 ones)
    draws = [c for c in cases if c[1] == "draw"]
    bil = [c for c in draws if c[2][0] == 7 and c[2][3] == 3]
    variants = [("", None, cases), ("nossse3", {"PIXMAN_DISABLE": "ssse3"}, bil if quick else draws)]
    if not quick:
        variants.append(("nosimd", {"PIXMAN_DISABLE": "mmx sse2 ssse3"}, cases))
    for tag, env, vcases in variants:
        for sd in seeds[:1] if quick or tag else seeds[:2]:
            nbv = min(nb, max(1, len(vcases) // 8))
            for bi in range(nbv):
                part = vcases[bi::nbv]
                cf = os.path.join(wd, "cases-%s%d-%d.txt" % (tag, sd, bi))
                open(cf, "w").write("".join("C %s%s %s %s\n" % (tag, nm, fam, " ".join(map(str, p))) for nm, fam, p in part))
                tr = os.path.join(wd, "foc-%s%d-%d.ndjson" % (tag, sd, bi))
                rc, outp = vf.run_driver([exe_f, tr, "@" + cf, str(sd), "1000", str(modes)], tr, env=env, timeout=900)
                if rc == 3:
                    raise vf.Infra("drv_fault could not read its case file: %s" % (outp or "")[-1500:])
                for ln in (outp or "").splitlines():
                    f = ln.split()
                    if len(f) == 2 and f[1].isdigit() and not tag:
                        nreq[f[0]] = int(f[1])
                ftraces.append(tr)
                cur = None
                for line in open(tr):
                    if line.startswith('{"e":"Reset"'):
                        cur = line
                    elif line.startswith('{"e":"End"'):
                        chk.evaluations += 1
                        if '"nfail":0' not in line:
                            chk.distinct_keys.add(hash((cur, line[:60])))
                            fired += 1
    fams = {}
    for nm, fam, p in cases:
        d = fams.setdefault(fam, {"cases": 0, "with_allocations": 0, "positions": 0})
        d["cases"] += 1
        d["with_allocations"] += 1 if nreq.get(nm, 0) else 0
        d["positions"] += nreq.get(nm, 0)
    chk.extra["focused_object_cases"] = fams
    chk.extra["focused_object_calls_with_refusals"] = fired
    if not fired:
        raise vf.Infra("focused object cases: no allocation was ever refused (vacuous)")
    chk.sample({"focused_object_case": list(cases[0])})
    vf.validate_batches(chk, "AllocTrace", ftraces, parallel=10, timeout=1500, label="focused object traces")

    chk.extra["rule"] = ("a case is one API call executed under a fault schedule; distinct non-trivial = distinct calls "
                         "during which at least one allocation was refused")
    chk.assumptions += ["focused object cases: glyph / fill boxes of one call never overlap, so that 'untouched or as in the "
                        "complete drawing' is decidable per pixel; the implementation chain (built once per process by the "
                        "first drawing call) is created before the first case and is not subjected to faults",
                        "allocations are observed at malloc/calloc/realloc/free (link-time --wrap; pixman linked statically)",
                        "a drawing call's permitted rectangles are bounds and the clip whose setter reported success",
                        "ASan build: a memory error aborts and the trace ends in an event no action matches"]
    return chk.finish()
