# C08: transformed sampling against spec/Sample.tla.
#   MC   spec/mc/SampleMC        design-level: repeat modes vs their mathematical definition, bilinear weights,
#                                nearest/bilinear agreement, affine stepping, the homogeneous divide, small
#                                state machine; negative configurations (REFLECT off by one, ties rounding up)
#   GEN  spec/gen/SampleGen      TLC-generated call sequences (configuration history + fetches)
#   RND  seeded scripts          the transform/filter/repeat/size/format families of DESIGN.md 5 C08
#   EXEC harness/drv_sample      one driver process per implementation chain (PIXMAN_DISABLE)
#   WIDE the same samples through the floating point pipeline (DISJOINT_OVER on a8r8g8b8, rgba_float and
#        a2r10g10b10 destinations) x filters x repeats x affine/projective x 5x4 / 1xN / Nx1 sources
#   FAR  affine requests whose sample positions use the whole 16.16 range (translations up to +-32000 pixels on
#        either axis, scales 1/8 .. 1000, sources and requests tens of thousands of pixels wide or tall), stratified
#        by the reach first sample -> far edge of the source below / at / above 2^15 pixels; NEAREST, BILINEAR (and a
#        convolution) x the four repeats x SRC / OVER into a8r8g8b8 / x8r8g8b8 / r5g6b5, plain, solid and a8 masks;
#        windows of the destination only; judged by Sample!FetchFar with <<whole, frac>> pair arithmetic
#   TV   spec/trace/SampleTrace  every recorded composite validated by TLC, each chain's trace on its own
import json
import os
import random

import vf

PROPS = {"C08": "C08"}

CLAIMS = {
    "C08": dict(
        technique="TLA+ Sample spec: TLC model checking of the sampling definitions + TLC-generated and seeded call "
                  "sequences executed on the real library under six implementation chains + trace validation by TLC",
        text="spec/Sample.tla defines the sample position of a destination pixel centre (affine: exact product rounded "
             "to 1/65536; projective: exact rational quotient with a band of 2 units), the nearest / bilinear (7-bit "
             "weights) / convolution / separable-convolution reference and the four repeat modes. TLC checks the "
             "definitions exhaustively on a small scope against their mathematical meaning (negative configurations "
             "rejected). Scripts covering the size/format/transform/filter/repeat families (pixel-boundary "
             "translations by k/65536, negative source coordinates, w changing sign, REFLECT on size-1 images, even "
             "kernels) are executed through pixman_image_composite32 under PIXMAN_DISABLE chains reaching the general, "
             "fast-path, SSE2 and SSSE3 fetchers; TLC validates every destination pixel of every recorded composite. "
             "The same samples are also requested through the wide (floating point) pipeline (DISJOINT_OVER on "
             "a8r8g8b8, rgba_float and a2r10g10b10 destinations) for every filter kind, repeat mode, affine and "
             "projective transforms and 1xN / Nx1 sources, and judged against the same positions, neighbours and "
             "repeat mapping with a one-step tolerance (bilinear: any weight that truncates to the 7-bit weight). "
             "A far-from-the-origin suite covers affine transforms whose sample positions use the whole 16.16 range "
             "(translations up to +-32000 pixels on either axis, scales 1/8 to 1000, mirrored, quarter turn, shear; "
             "sources up to 32600 and requests up to 64000 pixels wide or tall), stratified by the distance from the "
             "first sample of a row to the far edge of the source (below / within two steps of / above 2^15 pixels), "
             "for NEAREST, BILINEAR and convolutions x four repeats x the operator / format / mask pairs served by "
             "the scaled fast paths (SRC and OVER into a8r8g8b8, x8r8g8b8, r5g6b5; no, solid and a8 mask) and by the "
             "general path; TLC judges windows of the destination at the ends of the request and around the "
             "pre-image of the source corners with pair arithmetic (Sample!FetchFar), model-checked against the "
             "32-bit definitions and against positions computed with unbounded integers.",
        ref="5 C08"),
}

# the last chain leaves only the SSSE3 iterators above the general implementation
CHAINS = ["", "ssse3", "sse2 ssse3", "mmx sse2 ssse3", "fast mmx sse2 ssse3", "fast mmx sse2"]
ONE = 65536
REPEATS = ["none", "normal", "pad", "reflect"]
FORMATS = ["a8r8g8b8", "a8r8g8b8", "a8r8g8b8", "x8r8g8b8", "r5g6b5", "a8"]
SIZES = [(1, 1), (2, 1), (3, 2), (5, 4)]
SIZES_THOROUGH = SIZES + [(9, 3), (1, 3), (17, 2)]


# ------------------------------------------------------------------------------------------
# building blocks

def fx(v):
    """real -> 16.16 (round to nearest)"""
    return int(round(v * ONE))


def mat_mul(a, b):
    """3x3 integer matrices of 16.16 entries; exact product / 65536 must be integral for the families used"""
    r = [[0] * 3 for _ in range(3)]
    for i in range(3):
        for j in range(3):
            s = sum(a[i][k] * b[k][j] for k in range(3))
            r[i][j] = (s + 0x8000) >> 16
    return r


def image_pixels(rng, fmt, w, h):
    maxv = {"a8r8g8b8": 0xffffffff, "x8r8g8b8": 0xffffffff, "r5g6b5": 0xffff, "a8": 0xff}[fmt]
    style = rng.choice(["rand", "rand", "rand", "extreme", "ramp"])
    vals = []
    for i in range(w * h):
        if style == "rand":
            v = rng.getrandbits(32)
        elif style == "extreme":
            v = rng.choice([0, 0xffffffff, 0xff000000, 0x00ffffff, 0x80808080, 0xff0000ff, 0x01fe02fd])
        else:
            v = (0x11223344 * (i + 1) + 0x0f1e2d3c) & 0xffffffff
        vals.append(v & maxv)
    return vals


def affine_families(rng, w, h):
    """(name, matrix) list: the transform families of DESIGN.md 5 C08 for a w x h source"""
    I = [[ONE, 0, 0], [0, ONE, 0], [0, 0, ONE]]
    out = [("identity", I)]

    def T(tx, ty):
        return [[ONE, 0, tx], [0, ONE, ty], [0, 0, ONE]]

    def S(sx, sy):
        return [[sx, 0, 0], [0, sy, 0], [0, 0, ONE]]

    # translations by k/4 and by k/65536 around pixel boundaries and pixel centres
    for k in (-5, -2, -1, 1, 2, 3, 6):
        out.append(("trans_q", T(k * ONE // 4, rng.choice([0, ONE // 4, -ONE // 2]))))
    for base in (0, ONE // 2, -ONE // 2, ONE, w * ONE):
        for e in (-2, -1, 0, 1, 2):
            out.append(("trans_eps", T(base + e, rng.choice([0, base + e, e, -e]))))
    # scales
    for name, s in (("s1_3", ONE // 3), ("s1_2", ONE // 2), ("s2_3", 2 * ONE // 3 + 1), ("s3_2", 3 * ONE // 2),
                    ("s2", 2 * ONE), ("s3", 3 * ONE), ("s1", ONE)):
        sy = rng.choice([s, ONE, ONE // 2, 2 * ONE])
        m = S(s, sy)
        m[0][2] = rng.choice([0, 0, ONE // 2, -ONE // 4, 1, -1, ONE // 3])
        m[1][2] = rng.choice([0, 0, ONE // 2, -1, 1])
        out.append(("scale_" + name, m))
    # mirror: scale -1 with the translation that maps the image onto itself, +- eps
    for e in (-1, 0, 1):
        out.append(("flip_x", [[-ONE, 0, w * ONE + e], [0, ONE, 0], [0, 0, ONE]]))
    out.append(("flip_xy", [[-ONE, 0, w * ONE], [0, -ONE, h * ONE], [0, 0, ONE]]))
    out.append(("flip_y", [[ONE, 0, 0], [0, -ONE, h * ONE + rng.choice([-1, 0, 1])], [0, 0, ONE]]))
    # rotations by 90 / 180 / 270 (exact) and the (3,4,5) rotation
    out.append(("rot90", [[0, -ONE, w * ONE], [ONE, 0, 0], [0, 0, ONE]]))
    out.append(("rot90e", [[0, -ONE, w * ONE + rng.choice([-1, 1])], [ONE, 0, rng.choice([-1, 0, 1])], [0, 0, ONE]]))
    out.append(("rot180", [[-ONE, 0, w * ONE], [0, -ONE, h * ONE], [0, 0, ONE]]))
    out.append(("rot270", [[0, ONE, 0], [-ONE, 0, h * ONE], [0, 0, ONE]]))
    c, s = fx(0.6), fx(0.8)
    out.append(("rot345", [[c, -s, rng.choice([0, ONE, w * ONE // 2])], [s, c, rng.choice([0, -ONE])], [0, 0, ONE]]))
    out.append(("rot345s", [[c // 2, -s // 2, ONE], [s // 2, c // 2, 0], [0, 0, ONE]]))
    # shear
    out.append(("shear_x", [[ONE, ONE // 2, 0], [0, ONE, 0], [0, 0, ONE]]))
    out.append(("shear_y", [[ONE, 0, 0], [ONE // 4, ONE, rng.choice([0, 1, -1])], [0, 0, ONE]]))
    out.append(("shear_xy", [[ONE, -ONE // 3, ONE // 2], [ONE // 5, ONE // 2, 0], [0, 0, ONE]]))
    return out


def projective_families(rng, w, h):
    """projective matrices; columns 0 and 1 are even, so that the homogeneous coordinates of pixel centres are
    exact in 16.16 (the implementation's only rounding is then the divide, which the band of 2 units covers)"""
    out = []
    bases = [[[ONE, 0, 0], [0, ONE, 0]],
             [[ONE, 0, -2 * ONE], [0, ONE, 0]],                 # source x = -1.5 at destination x = 0
             [[ONE, 0, -ONE - ONE // 2], [0, ONE, -ONE // 2]],
             [[ONE // 2, 0, ONE // 4], [0, ONE // 2, 0]],
             [[2 * ONE, 0, -3 * ONE], [0, ONE, -ONE]],
             [[ONE, ONE // 2, -ONE], [ONE // 4, ONE, -2 * ONE]],
             [[-ONE, 0, w * ONE], [0, ONE, 0]],
             [[0, -ONE, w * ONE], [ONE, 0, -ONE]]]
    wrows = [("wx+", [ONE // 64, 0, ONE]), ("wx-", [-ONE // 64, 0, ONE]), ("wy+", [0, ONE // 64, ONE]),
             ("wy-", [0, -ONE // 64, ONE]), ("wxy", [ONE // 64, -ONE // 64, ONE]), ("w2", [0, 0, 2 * ONE]),
             ("w1_2", [0, 0, ONE // 2]), ("w3", [0, 0, 3 * ONE]), ("wneg", [0, 0, -ONE]), ("wneg3", [0, 0, -3 * ONE]),
             ("wx+3", [ONE // 64, 0, 3 * ONE]), ("wx8", [ONE // 8, 0, ONE]), ("wx-8", [-ONE // 8, 0, ONE + 2])]
    for name, wr in wrows:
        for b in rng.sample(bases, 3):
            k = 1
            if name in ("w2", "w3", "wneg", "wneg3", "wx+3"):
                # scale the affine part as well so that the quotient stays near the image
                k = wr[2] // ONE
            m = [[v * k for v in b[0]], [v * k for v in b[1]], list(wr)]
            out.append(("proj_" + name, m))
    return out


def kernels(rng):
    """(name, params) PIXMAN_FILTER_CONVOLUTION parameter blocks"""
    def K(w, h, coef):
        return [w * ONE, h * ONE] + coef
    ninth = ONE // 9
    res = [("box3x3", K(3, 3, [ninth] * 4 + [ONE - 8 * ninth] + [ninth] * 4)),
           ("even2x2", K(2, 2, [ONE // 4] * 4)),
           ("even2x2u", K(2, 2, [ONE // 2, ONE // 8, ONE // 4, ONE // 8])),
           ("sharpen3x3", K(3, 3, [0, -ONE, 0, -ONE, 5 * ONE, -ONE, 0, -ONE, 0])),
           ("edge3x3", K(3, 3, [-ONE // 8] * 4 + [2 * ONE] + [-ONE // 8] * 4)),
           ("row3x1", K(3, 1, [ONE // 4, ONE // 2, ONE // 4])),
           ("col1x3", K(1, 3, [ONE // 3, ONE // 3, ONE - 2 * (ONE // 3)])),
           ("even4x1", K(4, 1, [ONE // 8, 3 * ONE // 8, 3 * ONE // 8, ONE // 8])),
           ("even2x1", K(2, 1, [ONE // 2, ONE // 2])),
           ("one1x1", K(1, 1, [ONE])),
           ("asym3x3", K(3, 3, [rng.randrange(-ONE // 4, ONE // 2) for _ in range(9)])),
           ("bright2x2", K(2, 2, [ONE, ONE // 2, ONE // 2, ONE]))]
    return res


# separable filters made by the library itself: (reconstruct_x, reconstruct_y, sample_x, sample_y, scale_x, scale_y,
# subsample bits x, y).  kernel numbers: 0 impulse 1 box 2 linear 3 cubic 4 gaussian 5 lanczos2 6 lanczos3
SEPARABLE = [(2, 2, 0, 0, ONE, ONE, 1, 1), (2, 2, 0, 0, ONE, ONE, 2, 0), (1, 1, 1, 1, ONE, ONE, 2, 2),
             (1, 2, 1, 0, 2 * ONE, ONE, 1, 2), (2, 1, 1, 1, 3 * ONE // 2, 3 * ONE // 2, 0, 1),
             (5, 5, 0, 0, ONE, ONE, 1, 1), (3, 3, 0, 0, ONE, ONE, 2, 1), (5, 2, 1, 1, 2 * ONE, ONE, 1, 0),
             (2, 2, 2, 2, ONE, ONE, 3, 3), (1, 1, 0, 0, ONE, ONE, 0, 0), (4, 2, 0, 1, ONE, 2 * ONE, 1, 1),
             (6, 2, 0, 0, ONE, ONE, 1, 0)]


def inverse_bbox(m, w, h):
    """rough destination-space bounding box of the source rectangle (floating point; only steers the sweep)"""
    a = [[float(v) / ONE for v in r] for r in m]
    det = (a[0][0] * (a[1][1] * a[2][2] - a[1][2] * a[2][1]) - a[0][1] * (a[1][0] * a[2][2] - a[1][2] * a[2][0])
           + a[0][2] * (a[1][0] * a[2][1] - a[1][1] * a[2][0]))
    if abs(det) < 1e-9:
        return (-4, -4, 8, 8)
    inv = [[0.0] * 3 for _ in range(3)]
    for i in range(3):
        for j in range(3):
            i1, i2 = (i + 1) % 3, (i + 2) % 3
            j1, j2 = (j + 1) % 3, (j + 2) % 3
            inv[j][i] = (a[i1][j1] * a[i2][j2] - a[i1][j2] * a[i2][j1]) / det
    xs, ys = [], []
    for (sx, sy) in ((0, 0), (w, 0), (0, h), (w, h)):
        X = inv[0][0] * sx + inv[0][1] * sy + inv[0][2]
        Y = inv[1][0] * sx + inv[1][1] * sy + inv[1][2]
        Wv = inv[2][0] * sx + inv[2][1] * sy + inv[2][2]
        if abs(Wv) < 1e-6:
            continue
        xs.append(X / Wv)
        ys.append(Y / Wv)
    if not xs:
        return (-4, -4, 8, 8)
    clampi = lambda v: int(max(-70, min(70, v)))
    return (clampi(min(xs)) - 1, clampi(min(ys)) - 1, clampi(max(xs)) + 1, clampi(max(ys)) + 1)


def fetch_lines(rng, m, w, h, count, wide):
    """composite requests sweeping across (and beyond) the pre-image of the source rectangle"""
    x1, y1, x2, y2 = inverse_bbox(m, w, h)
    out = []
    for _ in range(count):
        n = rng.choice([1, 2, 3, 4, 5, 7, 8, 9, 12] + ([16, 19, 24] if wide else []))
        rows = rng.choice([1, 1, 1, 2, 3])
        mode = rng.random()
        if mode < 0.55:          # straddling the left or right / top or bottom edge
            x0 = rng.randint(x1 - n - 1, x2 + 1)
            y0 = rng.randint(y1 - rows, y2)
        elif mode < 0.8:         # inside
            x0 = rng.randint(x1, max(x1, x2 - n))
            y0 = rng.randint(y1, max(y1, y2 - rows))
        else:                    # anywhere (w changing sign near x = +-64 for the projective families)
            x0 = rng.randint(-75, 75)
            y0 = rng.randint(-70, 70)
        role = "mask" if rng.random() < 0.12 else "src"
        out.append("C %s %d %d %d %d %d" % (role, x0, y0, n, rows, rng.choice([0, 0, 1, 2, 3])))
    return out


def cover_exec(rng, name):
    """requests that lie inside the source (the COVER fast paths and the SSE2 / SSSE3 main loops): larger
    a8r8g8b8 / x8r8g8b8 / r5g6b5 / a8 sources, pure scale + translation, requests inside the pre-image"""
    fmt = rng.choice(["a8r8g8b8", "a8r8g8b8", "a8r8g8b8", "x8r8g8b8", "r5g6b5", "a8"])
    w, h = rng.choice([(8, 5), (12, 3), (17, 4), (33, 3)])
    out = ["R %s" % name, "I %s %d %d %s" % (fmt, w, h, " ".join(map(str, image_pixels(rng, fmt, w, h))))]
    for _ in range(rng.randint(2, 4)):
        sx = rng.choice([ONE // 3, ONE // 2, 2 * ONE // 3 + 1, ONE, ONE, 3 * ONE // 2, 2 * ONE, ONE - 1, ONE + 1, 52429])
        sy = rng.choice([sx, ONE, ONE // 2, 2 * ONE])
        tx = rng.choice([0, 1, -1, ONE // 2, ONE // 4, ONE // 3, 3 * ONE // 4 + 1])
        ty = rng.choice([0, 1, -1, ONE // 2, ONE // 4 + 1])
        # mirrored axes (a third of the cases): the source is walked right to left / bottom to top, with reductions and
        # enlargements so that consecutive destination rows share, skip or revisit source rows in DEcreasing order
        flipx = rng.random() < 0.2
        flipy = rng.random() < 0.33
        if flipx:
            sx, tx = -sx, tx + (w - 1) * ONE
        if flipy:
            sy = -rng.choice([ONE // 2, 2 * ONE // 3, 3 * ONE // 4, ONE, ONE + ONE // 4, 3 * ONE // 2, 2 * ONE, 9 * ONE // 4])
            ty = ty + (h - 1) * ONE
        m = [[sx, 0, tx], [0, sy, ty], [0, 0, ONE]]
        out.append("T " + " ".join(str(v) for r in m for v in r))
        out.append("F " + rng.choice(["nearest", "bilinear", "bilinear"]) + " 0")
        out.append("P " + rng.choice(REPEATS))
        # destination range whose samples (and bilinear neighbours) stay inside: 1 <= s * (x + 1/2) + t <= size - 1
        def inside(sc, tr, size):
            ok = [v for v in range(-300, 300) if ONE <= sc * v + sc // 2 + tr <= (size - 1) * ONE]
            return (min(ok), max(ok)) if ok else (0, 0)
        xlo, xhi = inside(sx, tx, w)
        ylo, yhi = inside(sy, ty, h)
        for _k in range(rng.randint(2, 4)):
            n = rng.choice([1, 2, 3, 4, 5, 7, 8, 9, 13, 16, 21])
            n = max(1, min(n, xhi - xlo + 1))
            rows = max(1, min(rng.choice([1, 2, 3, 5] if flipy else [1, 2, 3]), yhi - ylo + 1))
            x0 = rng.randint(xlo, max(xlo, xhi - n + 1))
            y0 = rng.randint(ylo, max(ylo, yhi - rows + 1))
            role = "mask" if rng.random() < 0.2 else "src"
            out.append("C %s %d %d %d %d %d" % (role, x0, y0, n, rows, rng.choice([0, 0, 1, 2, 3])))
    return out


WIDE_MODES = ["op", "float", "a2r10"]


def wide_execs(rng, per_cell):
    """the wide (floating point) pipeline, systematically: {DISJOINT_OVER on a8r8g8b8, rgba_float destination,
    a2r10g10b10 destination} x {nearest, bilinear, small separable convolution} x the four repeat modes x
    {affine, projective} x sources {5x4, 1xN, Nx1}; every request spans the image and more than one pixel of
    its surroundings on all four sides, at fractional offsets"""
    ex = []
    k = 0
    for (w, h) in ((5, 4), (1, 3), (4, 1)):
        fmt = "a8r8g8b8" if (w, h) != (4, 1) else "x8r8g8b8"
        pix = image_pixels(random.Random(1000 + w * 10 + h), fmt, w, h)
        # distinct neighbours: force a ramp with large differences between adjacent columns / rows
        pix = [((0x40 + 0x5b * i) % 256) << 24 | ((0x10 + 0x77 * i) % 256) << 16 | ((0xf0 - 0x63 * i) % 256) << 8 |
               ((0x25 + 0x9d * i) % 256) for i in range(w * h)]
        aff = [[[ONE, 0, -3 * ONE - ONE // 4], [0, ONE, -2 * ONE - ONE // 2], [0, 0, ONE]],
               [[3 * ONE // 4, 0, -2 * ONE - 3 * ONE // 4], [0, 3 * ONE // 4, -ONE - ONE // 4], [0, 0, ONE]],
               [[ONE // 2, -ONE // 4, -ONE - ONE // 2], [ONE // 4, ONE // 2, -3 * ONE - 3 * ONE // 4], [0, 0, ONE]],
               [[ONE, 0, ONE + ONE // 2], [0, ONE, 3 * ONE // 4], [0, 0, ONE]],
               [[-ONE, 0, (w + 2) * ONE + ONE // 8], [0, 3 * ONE // 2, -2 * ONE - ONE // 3], [0, 0, ONE]]]
        proj = [[[ONE, 0, -3 * ONE - ONE // 4], [0, ONE, -2 * ONE - ONE // 2], [ONE // 64, 0, ONE]],
                [[2 * ONE, 0, -6 * ONE - ONE // 2], [0, 2 * ONE, -5 * ONE], [0, 0, 2 * ONE]],
                [[-ONE, 0, 3 * ONE + ONE // 4], [0, -ONE, 2 * ONE + ONE // 2], [0, -ONE // 64, -ONE]]]
        for mode in WIDE_MODES:
            for flt in ("F nearest 0", "F bilinear 0", "S 2 2 0 0 65536 65536 1 1"):
                for rep in REPEATS:
                    out = ["R wide%d" % k, "I %s %d %d %s" % (fmt, w, h, " ".join(map(str, pix))), flt, "P " + rep]
                    k += 1
                    mats = rng.sample(aff, min(per_cell, len(aff))) + rng.sample(proj, min(max(1, per_cell // 2), len(proj)))
                    for m in mats:
                        out.append("T " + " ".join(str(v) for r in m for v in r))
                        n = w + 8
                        rows = h + 6
                        role = "mask" if rng.random() < 0.15 else "src"
                        out.append("W %s %s %d %d %d %d" % (mode, role, rng.choice([-1, 0]), rng.choice([-1, 0]), n, rows))
                    ex.append(out)
    return ex


# ------------------------------------------------------------------------------------------
# far from the origin: the statement quantifies over all transforms whose sample positions stay in the 16.16 range,
# i.e. up to +-32767 pixels.  Exact mirrors (unbounded integers) of Sample!PosPF / FarInDomain steer the generator.

FAR_MAX = 32700


def far_pos(m, r, x, y):
    return (m[r][0] * (2 * x + 1) + m[r][1] * (2 * y + 1) + 2 * m[r][2] + 1) // 2


def far_mul_ok(v, k):
    return k == 0 or (abs(k) < 262144 and abs(v // ONE) <= 536870912 // abs(k))


def far_in_domain(m, x0, y0, n, rows):
    if not (1 <= n <= 65536 and 1 <= rows <= 65536):
        return False
    if x0 - 1 < -32768 or y0 - 1 < -32768 or x0 + n + 1 > 32767 or y0 + rows + 1 > 32767:
        return False
    for x in (x0 - 1, x0 + n):
        for y in (y0 - 1, y0 + rows):
            for r in (0, 1):
                if not (far_mul_ok(m[r][0], 2 * x + 1) and far_mul_ok(m[r][1], 2 * y + 1)):
                    return False
                if abs(far_pos(m, r, x, y) // ONE) > FAR_MAX:
                    return False
    return True


def far_pixels(rng, fmt, w, h):
    bits = {"a8r8g8b8": 32, "x8r8g8b8": 32, "r5g6b5": 16, "a8": 8}[fmt]
    return [rng.getrandbits(bits) for _ in range(w * h)]


def far_geometries(rng, thorough):
    """(family, matrix, (w, h), (x0, y0, n, rows)) along the x axis; the y axis gets the same transposed
    (far_transpose).  Positive scales: every class of scale (reduction, about 1, 1.5 .. 16, 64 .. 1000) x every
    stratum of the *reach* = (distance from the first sample of a row to the far edge of the source) + one step, the
    quantity the scaled fast paths form sums of: well below 2^15 pixels, within two steps of 2^15, above 2^15 (up to
    2^16: source and first sample at opposite ends of the 16.16 range).  The source width, the request's first column
    (about 0, far negative, far positive) and hence the translation follow from scale and reach.  Then large
    positive translations, mirrored scales, a quarter turn and a shear with both translations large."""
    out = []
    frac = lambda: rng.choice([0, 0, 1, -1, ONE // 2, ONE // 4 + 1, 0x2468, -0x1357])
    small_sy = lambda: rng.choice([ONE, ONE, ONE // 2, 2 * ONE, 3 * ONE // 2])
    hh = lambda: rng.choice([1, 2, 3])
    far_t = [10000, 16000, 20000, 24000, 28000, 29000, 30000, 31000, 32000]

    def aff(sx, tx, sy, ty):
        return [[sx, 0, tx], [0, sy, ty], [0, 0, ONE]]

    def rows_for(sy, ty, h):
        # a few destination rows straddling the top or bottom edge of the source
        ylo = -((ty) // sy) - 1
        yhi = (h * ONE - ty) // sy
        y0 = rng.choice([ylo, ylo, ylo + 1, max(ylo, yhi - 1)])
        return y0, rng.choice([1, 2, 3])

    classes = [("reduce", [ONE // 2, ONE // 3, 2 * ONE // 3 + 1, ONE // 8, ONE // 4 + 1, 52429]),
               ("unit", [ONE, ONE + 1, ONE - 1, ONE + 7, ONE]),
               ("enlarge", [3 * ONE // 2, 2 * ONE, 4 * ONE, 8 * ONE, 16 * ONE, 2 * 52429, 3 * ONE + 0x1234]),
               ("big", [64 * ONE, 100 * ONE + 1, 256 * ONE - 1, 1000 * ONE, 333 * ONE + 0x1234])]
    strata = ["below", "at", "above"]
    for cname, scales in classes:
        for stratum in strata:
            for _rep in range(1 if not thorough else 3):
                sx = rng.choice(scales if cname != "reduce" or stratum == "below" else [2 * ONE // 3 + 1, 52429, 3 * ONE // 4])
                if stratum == "below":
                    R = rng.randint(12000, 32000) * ONE
                elif stratum == "at":
                    R = 32768 * ONE + rng.choice([-2, -1, 0, 0, 1, 2]) * sx + rng.choice([-1, 0, 0, 1])
                else:
                    R = rng.choice([32800, 33000, 33000, 34000, 36000, 40000] + ([48000, 56000, 64000] if thorough else [])) * ONE
                # the request must fit 16-bit coordinates: (reach / scale) destination pixels
                R = min(R, (65200 * sx // ONE) * ONE)
                stepc = -(-sx // ONE)
                # the request expanded by one pixel must stay within FetchFar's bound at either end
                wmin = max(8, R // ONE - (32600 - 2 * stepc) - stepc)
                wmax = min(32600 - 2 * stepc, R // ONE - stepc - 1)
                cand = [c for c in (8, 50, 300, 700, 1500, 3000, 6000, 12000, 20000, 32600) if wmin <= c <= wmax]
                if wmax < wmin:
                    continue
                w = rng.choice(cand[:4] if not thorough else cand) if cand else wmin
                vx = -(R - w * ONE - sx) + frac()          # position of the first sample of a row
                # destination pixels from there to beyond the source
                span = (w * ONE - vx) // sx + min(6, max(1, (32650 - w) * ONE // sx - 1))
                xs = [c for c in (0, 0, -2, 5, -32000, -20000, 12000, 15000)
                      if -32700 <= c <= 32700 - span and abs(vx - sx * c - sx // 2) < (1 << 31) - 1]
                if not xs:
                    if 32700 - span < -32700:
                        continue
                    xs = [32700 - span]
                x0 = rng.choice(xs)
                tx = vx - sx * x0 - sx // 2
                sy, h = small_sy(), (hh() if w <= 20000 else 1)
                ty = frac()
                y0, rows = rows_for(sy, ty, h)
                out.append(("%s-%s" % (cname, stratum), aff(sx, tx, sy, ty), (w, h), (x0, y0, span, rows)))
    # large positive translation: the source lies at far negative destination coordinates; a short request around
    # it, or a long one running on to the far right (long right padding)
    for T in (rng.sample(far_t, 2) if not thorough else far_t[::2]):
        sx = rng.choice([ONE, 2 * ONE, 3 * ONE, 8 * ONE, 3 * ONE // 2])
        w = rng.choice([40, 333, 2000])
        T += rng.randint(-300, 300)
        tx = T * ONE + frac()
        sy, h = small_sy(), hh()
        ty = frac()
        x0 = -((T * ONE) // sx) - rng.choice([3, 5, 9])
        long_ = rng.random() < 0.5
        n = (w * ONE) // sx + 12 if not long_ else min((30000 * ONE) // sx, 32700 - x0)
        y0, rows = rows_for(sy, ty, h)
        out.append(("trans+", aff(sx, tx, sy, ty), (w, h), (x0, y0, n, rows)))
    # mirrored (negative scale): positions run from far positive down to the source
    for T in rng.sample(far_t, 1 if not thorough else 3):
        k = rng.choice([1, 2, 3])
        w = rng.choice([60, 900])
        tx = T * ONE + frac()
        sy, h = small_sy(), hh()
        ty = frac()
        x0 = rng.choice([0, 2])
        n = (T * ONE) // (k * ONE) + 6 - x0
        y0, rows = rows_for(sy, ty, h)
        out.append(("flip", aff(-k * ONE, tx, sy, ty), (w, h), (x0, y0, n, rows)))
    # a quarter turn and a shear with both translations large (request at large source coordinates)
    for T in rng.sample(far_t, 1 if not thorough else 3):
        w, h = rng.choice([(300, 3), (40, 7)])
        U = rng.choice(far_t)
        tx, ty = T * ONE + frac(), -U * ONE + frac()
        # x' = -(y + 1/2) + tx in [0, w)  ->  y in (T - w, T];  y' = (x + 1/2) + ty in [0, h)  ->  x in [U, U + h)
        out.append(("rot90", [[0, -ONE, tx], [ONE, 0, ty], [0, 0, ONE]], (w, h), (U - 3, T - w - 3, h + 7, w + 7)))
        out.append(("shear", [[ONE, ONE // 4, -T * ONE + frac()], [0, ONE, -U * ONE + frac()], [0, 0, ONE]], (w, h),
                    (T - U // 4 - 6, U - 2, w + 14, h + 4)))
    return out


def far_transpose(g):
    fam, m, (w, h), (x0, y0, n, rows) = g
    mt = [[m[1][1], m[1][0], m[1][2]], [m[0][1], m[0][0], m[0][2]], [0, 0, ONE]]
    return (fam + "/y", mt, (h, w), (y0, x0, rows, n))


def far_windows(rng, m, w, h, x0, y0, n, rows):
    """windows of the destination worth recording: the ends of the request and the neighbourhood of the pre-image of
    every source corner, plus one random place"""
    a = [[float(v) / ONE for v in r] for r in m]
    det = a[0][0] * a[1][1] - a[0][1] * a[1][0]
    cols, rws = [0, n - 1], [0, rows - 1]
    if abs(det) > 1e-12:
        for (sx, sy) in ((0, 0), (w, 0), (0, h), (w, h)):
            u, v = sx - a[0][2], sy - a[1][2]
            X = (a[1][1] * u - a[0][1] * v) / det - 0.5
            Y = (-a[1][0] * u + a[0][0] * v) / det - 0.5
            if -1e6 < X < 1e6 and -1e6 < Y < 1e6:
                cols.append(int(round(X)) - x0)
                rws.append(int(round(Y)) - y0)
    cols.append(rng.randrange(n))
    rws.append(rng.randrange(rows))
    wn, hn = min(n, 4), min(rows, 2)
    cl = lambda c, size, k: max(0, min(size - k, c - k // 2))
    cs = sorted(set(cl(c, n, wn) for c in cols))
    rs = sorted(set(cl(r, rows, hn) for r in rws))
    wins = []
    for k in range(max(len(cs), len(rs))):
        wins.append((cs[k % len(cs)], rs[(k + (k // len(rs))) % len(rs)], wn, hn))
    wins = sorted(set(wins))
    if len(wins) > 10:
        wins = rng.sample(wins, 10)
    return wins


FAR_COMBOS = {
    # (role, operator, destination format, mask): the operator / format pairs served by the scaled NEAREST and
    # BILINEAR fast paths of the C, MMX and SSE2 implementations, and pairs only the general path serves
    "a8r8g8b8": [("src", "src", "a8r8g8b8", "none"), ("src", "over", "a8r8g8b8", "none"), ("src", "src", "r5g6b5", "none"),
                 ("src", "over", "r5g6b5", "none"), ("src", "over", "x8r8g8b8", "solid"), ("src", "over", "a8r8g8b8", "a8"),
                 ("src", "src", "x8r8g8b8", "none"), ("src", "over", "a8r8g8b8", "solid"), ("mask", "src", "a8r8g8b8", "none"),
                 ("src", "over", "x8r8g8b8", "none")],
    "x8r8g8b8": [("src", "src", "a8r8g8b8", "none"), ("src", "src", "x8r8g8b8", "none"), ("src", "src", "r5g6b5", "none"),
                 ("src", "over", "a8r8g8b8", "none"), ("src", "over", "x8r8g8b8", "a8")],
    "r5g6b5": [("src", "src", "r5g6b5", "none"), ("src", "src", "a8r8g8b8", "none"), ("src", "over", "r5g6b5", "none"),
               ("src", "over", "a8r8g8b8", "solid")],
    "a8": [("src", "src", "a8r8g8b8", "none"), ("mask", "src", "a8r8g8b8", "none"), ("src", "over", "a8r8g8b8", "none"),
           ("src", "src", "r5g6b5", "none")],
}
FAR_FMTS = ["a8r8g8b8", "a8r8g8b8", "x8r8g8b8", "a8r8g8b8", "r5g6b5", "a8r8g8b8", "a8"]


def far_execs(rng, thorough, stats):
    """one execution per geometry: the source, the transform, then NEAREST and BILINEAR x the four repeat modes, each
    fetched through the next operator / destination format / mask combination of the source's format"""
    geos = far_geometries(rng, thorough)
    geos = geos + [far_transpose(g) for g in (geos if thorough else rng.sample(geos, len(geos) // 2))]
    ex = []
    for e, (fam, m, (w, h), (x0, y0, n, rows)) in enumerate(geos):
        if not far_in_domain(m, x0, y0, n, rows) or w * h > 65000 or n * rows > (1 << 22) or w < 1 or h < 1:
            stats["far_dropped"] = stats.get("far_dropped", 0) + 1
            continue
        fmt = FAR_FMTS[(e + stats["seed"]) % len(FAR_FMTS)]
        combos = FAR_COMBOS[fmt]
        out = ["R far%d_%s" % (e, fam.replace("/", "_").replace("+", "p").replace("-", "m")),
               "I %s %d %d %s" % (fmt, w, h, " ".join(map(str, far_pixels(rng, fmt, w, h)))),
               "T " + " ".join(str(v) for r in m for v in r)]
        # reach: the quantity the scaled fast paths form sums of (first sample to the far edge of the source + a step)
        for r, size, c0 in ((0, w, (x0, y0)), (1, h, (x0, y0))):
            p0 = far_pos(m, r, x0, y0)
            step = abs(m[r][0]) + abs(m[r][1])
            reach = max(abs(p0), abs(size * ONE - p0)) + step
            if reach >= 32768 * ONE:
                stats["far_reach_ge_2_15"] = stats.get("far_reach_ge_2_15", 0) + 1
                break
        else:
            stats["far_reach_lt_2_15"] = stats.get("far_reach_lt_2_15", 0) + 1
        fams = stats.setdefault("far_families", {})
        fams[fam] = fams.get(fam, 0) + 1
        j = 0
        # ... and one (thorough: four) convolution / separable convolution request: the general fetchers only
        heavy = [filter_line(rng, ("convolution", "separable")[(e + i) % 2], kernels(rng)) for i in range(4 if thorough else 1)]
        for flt in ["F nearest 0", "F bilinear 0"] + heavy:
            out.append(flt)
            for rep in (REPEATS if flt in ("F nearest 0", "F bilinear 0") else [REPEATS[(e + j) % 4]]):
                out.append("P " + rep)
                role, op, dfmt, mask = combos[(e + j) % len(combos)]
                j += 1
                if mask == "a8" and (n + 20 >= 0x7fff or rows >= 0x7fff):
                    mask = "solid"      # the library refuses bits images (here: the mask) of 32767 pixels or more
                wins = far_windows(rng, m, w, h, x0, y0, n, rows)
                out.append("Z %s %s %s %s %d %d %d %d %d %d %s" % (role, op, dfmt, mask, x0, y0, n, rows, rng.choice([0, 0, 1, 2, 3]),
                                                                 len(wins), " ".join("%d %d %d %d" % wn for wn in wins)))
        ex.append(out)
    return ex


def filter_line(rng, kind, kers):
    if kind == "nearest":
        return "F nearest 0"
    if kind == "bilinear":
        return "F bilinear 0"
    if kind == "convolution":
        name, par = rng.choice(kers)
        return "F convolution %d %s" % (len(par), " ".join(map(str, par)))
    return "S %d %d %d %d %d %d %d %d" % rng.choice(SEPARABLE)


def random_exec(rng, name, thorough):
    """one execution: an image, then a history of configuration changes and fetches"""
    fmt = rng.choice(FORMATS)
    w, h = rng.choice(SIZES_THOROUGH if thorough else SIZES)
    out = ["R %s" % name, "I %s %d %d %s" % (fmt, w, h, " ".join(map(str, image_pixels(rng, fmt, w, h))))]
    aff = affine_families(rng, w, h)
    proj = projective_families(rng, w, h)
    kers = kernels(rng)
    steps = rng.randint(3, 6)
    m = [[ONE, 0, 0], [0, ONE, 0], [0, 0, ONE]]
    for s in range(steps):
        # change one to three aspects of the configuration, then fetch
        what = rng.sample(["T", "F", "P"], rng.randint(1, 3)) if s else ["T", "F", "P"]
        heavy = False
        for c in sorted(what):
            if c == "T":
                fam = proj if rng.random() < 0.3 else aff
                tname, m = rng.choice(fam)
                out.append("T " + " ".join(str(v) for r in m for v in r))
            elif c == "F":
                kind = rng.choice(["nearest", "nearest", "bilinear", "bilinear", "bilinear", "convolution", "separable"])
                heavy = kind in ("convolution", "separable")
                out.append(filter_line(rng, kind, kers))
            else:
                out.append("P " + rng.choice(REPEATS))
        out += fetch_lines(rng, m, w, h, 2 if heavy else rng.randint(2, 4), wide=(w >= 9))
    return out


def directed_execs():
    """fixed executions (independent of the seed) for the cases the statement's rationale names"""
    ex = []
    # negative source coordinates under a projective transform (w = 1 + x/64): destination pixel 0 maps to
    # source x = -1.5/1.0078, outside a REPEAT_NONE image -> transparent; pixels 2, 3 map inside
    ex.append(["R dir_proj_negative", "I a8r8g8b8 2 1 4294901760 4278255360",
               "T 65536 0 -131072 0 65536 0 1024 0 65536", "P none", "F nearest 0", "C src 0 0 6 1 0",
               "F bilinear 0", "C src 0 0 6 1 0", "C src -4 0 8 1 1", "P pad", "C src -4 0 8 1 0",
               "P reflect", "C src -6 0 12 1 0", "P normal", "F nearest 0", "C src -6 0 12 1 0"])
    # w changing sign inside the row (w = 1 - x/64 crosses 0 between destination x = 63 and 64), negative w
    ex.append(["R dir_proj_w_sign", "I a8r8g8b8 3 2 4294901760 4278255360 4278190335 2164260863 8421504 4294967295",
               "T 65536 0 0 0 65536 0 -1024 0 65536", "P normal", "F nearest 0", "C src 58 0 12 2 0",
               "F bilinear 0", "C src 58 0 12 1 0", "P reflect", "C src 60 -1 8 2 0", "P pad", "C src 61 0 6 1 0",
               "T -65536 0 0 0 -65536 0 0 0 -65536", "P none", "C src -1 -1 5 3 0",
               "T 65536 0 0 0 65536 0 0 -1024 65536", "P normal", "C src 0 60 3 8 0"])
    # kernels with negative coefficients: a negative total must clamp to 0
    ex.append(["R dir_conv_negative", "I a8r8g8b8 3 2 4294967295 0 4294967295 0 4294967295 0", "T 65536 0 1 0 65536 0 0 0 65536",
               "F convolution 11 196608 196608 0 -65536 0 -65536 327680 -65536 0 -65536 0", "P none", "C src -1 -1 5 4 0",
               "P pad", "C src -1 -1 5 4 0", "P normal", "C src -2 -1 7 3 0", "P reflect", "C src -2 -1 7 3 0",
               "S 5 5 0 0 65536 65536 1 1", "C src -2 -1 7 3 0", "P none", "C src -2 -1 7 3 0"])
    # the same through the wide (floating point) pipeline
    ex.append(["R dir_wide_conv_negative", "I a8r8g8b8 3 2 4294967295 0 4294967295 0 4294967295 0", "T 65536 0 1 0 65536 0 0 0 65536",
               "F convolution 11 196608 196608 0 -65536 0 -65536 327680 -65536 0 -65536 0", "P none", "W op src -1 -1 5 4",
               "W float src -1 -1 5 4", "P pad", "W a2r10 src -1 -1 5 4", "P reflect", "W op src -2 -1 7 3",
               "S 5 5 0 0 65536 65536 1 1", "W float src -2 -1 7 3", "P none", "W op src -2 -1 7 3"])
    # 1x1 images: REFLECT / NORMAL / PAD on size-1 axes; a kernel whose coefficients sum to 3
    ex.append(["R dir_size1", "I a8r8g8b8 1 1 2155888736", "P reflect", "F bilinear 0",
               "T 43691 0 1 0 65536 -1 0 0 65536", "C src -3 -2 7 3 0", "P normal", "C src -3 -2 7 3 0",
               "P none", "C src -3 -2 7 4 0", "F convolution 6 131072 131072 65536 32768 32768 65536", "C src -2 -2 5 4 0",
               "P pad", "C src -2 -2 5 4 0", "P reflect", "C mask -2 -2 5 4 0"])
    # sample positions exactly on pixel boundaries and one unit either side; even kernels
    for e in (-1, 0, 1):
        ex.append(["R dir_boundary_%d" % (e + 1), "I a8r8g8b8 3 2 4294901760 4278255360 4278190335 2164260863 8421504 4294967295",
                   "T 65536 0 %d 0 65536 %d 0 0 65536" % (32768 + e, -32768 + e), "F nearest 0", "P none", "C src -2 -1 7 4 0",
                   "P reflect", "C src -5 -3 12 3 1", "F bilinear 0", "C src -5 -3 12 3 1", "P none", "C src -2 -1 7 4 0",
                   "F convolution 6 131072 131072 16384 16384 16384 16384", "C src -2 -1 7 4 0", "P reflect", "C src -5 -3 12 3 0",
                   "F convolution 4 131072 65536 49152 16384", "P normal", "C src -5 -3 12 3 0"])
    return ex


# ------------------------------------------------------------------------------------------
# behaviours generated by TLC from the specification

def tlc_behaviours(n, depth, seed):
    path = os.path.join(vf.SPEC, "gen", "SampleGen.tla")
    cfg = os.path.join(vf.workdir("sgen"), "SampleGen.cfg")
    open(cfg, "w").write("SPECIFICATION GenSpec\nCONSTANTS\n  Depth = %d\nINVARIANT Emit\n" % depth)
    per = max(1, n // 4)
    r = vf.run_tlc(path, cfg=cfg, workers=4, timeout=600,
                   extra=["-generate", "num=%d" % per, "-depth", str(2 * depth + 1), "-seed", str(seed)], tag="sgen")
    behs = [json.loads(json.loads(b)) for b in r.vf("behaviour")]
    if not behs:
        raise vf.Infra("SampleGen produced no behaviours:\n" + r.out[-2000:])
    return behs, r


def behaviour_script(beh, name):
    out = ["R %s" % name]
    for c in beh:
        k = c["k"]
        if k == "I":
            vals = [p[0] * 65536 + p[1] for row in c["pix"] for p in row]
            out.append("I %s %d %d %s" % (c["fmt"], c["w"], c["h"], " ".join(map(str, vals))))
        elif k == "T":
            out.append("T " + " ".join(str(v) for r in c["m"] for v in r))
        elif k == "F":
            out.append("F %s %d %s" % (c["f"], len(c["params"]), " ".join(map(str, c["params"]))))
        elif k == "P":
            out.append("P " + c["r"])
        elif k == "C":
            out.append("C %s %d %d %d %d %d" % (c["role"], c["x0"], c["y0"], c["n"], c["rows"], c["dx"]))
    return out


# ------------------------------------------------------------------------------------------

def count_events(chk, tracefile, chain):
    cfg = None
    fmt_of = {}
    for line in open(tracefile):
        if line.startswith('{"e":"FetchWin"'):
            ev = json.loads(line)
            nrows = sum(wn[3] for wn in ev["wins"])
            npix = sum(wn[2] * wn[3] for wn in ev["wins"])
            chk.evaluations += nrows
            chk.extra["pixels"] = chk.extra.get("pixels", 0) + npix
            chk.extra["far_pixels"] = chk.extra.get("far_pixels", 0) + npix
            chk.extra["far_fetches"] = chk.extra.get("far_fetches", 0) + 1
            cell = "%s %s->%s %s" % (ev["op"], (cfg or (0, 0))[0] and fmt_of.get(cfg[0], "?"), ev["dfmt"],
                                     ev["mask"] if ev["role"] == "src" else "as-mask")
            cells = chk.extra.setdefault("far_fetches_by_pair", {})
            cells[cell] = cells.get(cell, 0) + 1
            key = (cfg, ev["x0"], ev["y0"], ev["n"], ev["rows"], ev["role"], ev["op"], ev["dfmt"], ev["mask"])
            chk.distinct_keys.add(hash(key))
            by = chk.extra.setdefault("rows_by_chain", {})
            by[chain or "(all enabled)"] = by.get(chain or "(all enabled)", 0) + nrows
        elif line.startswith('{"e":"Fetch"') or line.startswith('{"e":"FetchWide"'):
            ev = json.loads(line)
            if ev["e"] == "FetchWide":
                wk = chk.extra.setdefault("wide_rows_by_mode", {})
                wk[ev["mode"]] = wk.get(ev["mode"], 0) + ev["rows"]
            chk.evaluations += ev["rows"]
            chk.extra["pixels"] = chk.extra.get("pixels", 0) + ev["rows"] * ev["n"]
            key = (cfg, ev["x0"], ev["y0"], ev["n"], ev["rows"], ev["role"], ev.get("mode", "narrow"))
            chk.distinct_keys.add(hash(key))
            by = chk.extra.setdefault("rows_by_chain", {})
            by[chain or "(all enabled)"] = by.get(chain or "(all enabled)", 0) + ev["rows"]
        elif line.startswith('{"e":"Reset"'):
            cfg = None
        elif line.startswith('{"e":"Image"'):
            cfg = (hash(line), None, None, None)
            fmt_of[cfg[0]] = line.split('"fmt":"')[1].split('"')[0]
        elif line.startswith('{"e":"Transform"') and cfg:
            cfg = (cfg[0], hash(line), cfg[2], cfg[3])
            ev = json.loads(line)
            kinds = chk.extra.setdefault("transforms", {})
            k = "affine" if ev["m"][6:] == [[0, 0], [0, 0], [1, 0]] else "projective"
            kinds[k] = kinds.get(k, 0) + 1
        elif line.startswith('{"e":"Filter"') and cfg:
            cfg = (cfg[0], cfg[1], hash(line), cfg[3])
            f = line.split('"f":"')[1].split('"')[0]
            kinds = chk.extra.setdefault("filters", {})
            kinds[f] = kinds.get(f, 0) + 1
        elif line.startswith('{"e":"Repeat"') and cfg:
            cfg = (cfg[0], cfg[1], cfg[2], hash(line))


def mc(chk, tier):
    from concurrent.futures import ThreadPoolExecutor
    base = os.path.join(vf.SPEC, "mc")
    cfgs = [("SampleMC.cfg", False), ("SampleMC_neg_reflect.cfg", True), ("SampleMC_neg_tie.cfg", True),
            ("SampleMC_neg_kernel.cfg", True), ("SampleMC_neg_carry.cfg", True)]

    def one(c):
        cfg, neg = c
        return vf.tlc_mc(os.path.join(base, "SampleMC.tla"), cfg=os.path.join(base, cfg), workers=4 if not neg else 2,
                         timeout=1200, expect_violation=neg, tag=cfg[:-4])

    with ThreadPoolExecutor(max_workers=5) as ex:
        results = list(ex.map(one, cfgs))
    for (cfg, neg), r in zip(cfgs, results):
        chk.add_tlc(r, ("negative config (must be rejected) " if neg else "model check ") + cfg)
        if not neg and (r.inv_violation or r.deadlock):
            raise vf.Infra("the Sample model itself violates an invariant under %s:\n%s" % (cfg, r.out[-2500:]))


def execute(exe, script, trace, chain):
    env = dict(os.environ)
    env["PIXMAN_DISABLE"] = chain
    p = vf.sh([exe, script, trace], timeout=900, check=False, env=env)
    if p.returncode != 0:
        raise vf.Infra("drv_sample failed rc=%d (chain '%s'): %s" % (p.returncode, chain, (p.stdout or "")[-1000:]))


def run(prop, args):
    chk = vf.Check(prop, args.tier, args.seed)
    rng = random.Random(args.seed * 1000003 + 8)
    quick = args.tier == "quick"
    wd = vf.workdir("sample")
    # Deviations = ids of the OPEN known findings of C08 (none: the three defects found are fixed in /repo)
    cfg = vf.cfg_with_deviations(os.path.join(vf.SPEC, "trace", "SampleTrace.cfg"), "C08")

    if args.replay:
        exe, px = vf.build_driver("drv_sample", "plain")
        script = args.replay if args.replay.endswith(".script") else args.replay + ".script"
        chain = ""
        if os.path.exists(script + ".chain"):
            chain = open(script + ".chain").read().strip()
        tr = os.path.join(wd, "replay.ndjson")
        execute(exe, script, tr, chain)
        vf.validate_batches(chk, "SampleTrace", [tr], cfg=cfg, parallel=1)
        return chk.finish()

    # 1. design-level model checking
    mc(chk, args.tier)

    # 2. scripts
    execs = []
    behs, r = tlc_behaviours(40 if quick else 800, 12 if quick else 14, args.seed)
    chk.add_tlc(r, "behaviour generation (SampleGen, -generate)")
    chk.sample({"tlc_generated_behaviour": behs[0][:5]})
    for k, beh in enumerate(behs):
        execs.append(behaviour_script(beh, "gen%d" % k))
    execs += directed_execs()
    nrand = 200 if quick else 20000
    for i in range(nrand):
        if i % 4 == 3:
            execs.append(cover_exec(rng, "cov%d" % i))
        else:
            execs.append(random_exec(rng, "rnd%d" % i, thorough=not quick))
    # far from the origin (see far_geometries); rides in the same batches, hence under every implementation chain
    fstats = {"seed": args.seed}
    fex = []
    for rnd in range(1 if quick else 6):
        fex += [[e[0] + "_%d" % rnd] + e[1:] for e in far_execs(rng, not quick, fstats)]
    del fstats["seed"]
    chk.extra.update(fstats)
    chk.extra["far_executions"] = len(fex)
    if not fex or fstats.get("far_dropped", 0) > len(fex) // 4:
        raise vf.Infra("far-from-origin generator: %d executions, %s dropped" % (len(fex), fstats.get("far_dropped", 0)))
    chk.sample({"far_script_lines": [ln[:160] for ln in fex[0][:6]]})
    execs += fex
    rng.shuffle(execs)          # spread the kinds of execution evenly over the batches
    chk.extra["executions_per_chain"] = len(execs)
    chk.extra["tlc_generated_behaviours"] = len(behs)
    chk.extra["chains"] = ["PIXMAN_DISABLE='%s'" % c for c in CHAINS]

    # 3. execute on the real library (built from /repo's working tree), one process per implementation chain
    exe, px = vf.build_driver("drv_sample", "plain")
    chk.extra["build"] = px["hash"]
    nb = 2 if quick else 30
    traces = []
    chain_of = {}
    for bi in range(nb):
        part = execs[bi::nb]
        if not part:
            continue
        sp = os.path.join(wd, "b%d.script" % bi)
        with open(sp, "w") as f:
            for e in part:
                f.write("\n".join(e) + "\n")
        for ci, chain in enumerate(CHAINS):
            tr = os.path.join(wd, "b%d.c%d.ndjson" % (bi, ci))
            execute(exe, sp, tr, chain)
            traces.append(tr)
            chain_of[tr] = chain
            count_events(chk, tr, chain)
    chk.sample({"script_lines": [ln[:300] for ln in execs[-1][:7]]})

    # 3b. the wide (floating point) pipeline: systematic cross product (see wide_execs), general implementation
    # with and without the SIMD / fast-path layers above it
    wex = wide_execs(rng, 2 if quick else 5)
    execs += wex
    chk.extra["wide_executions"] = len(wex)
    wchains = ["", "fast mmx sse2 ssse3"] if quick else CHAINS
    wnb = 2 if quick else 3
    for bi in range(wnb):
        part = wex[bi::wnb]
        sp = os.path.join(wd, "w%d.script" % bi)
        with open(sp, "w") as f:
            for e in part:
                f.write("\n".join(e) + "\n")
        for chain in wchains:
            tr = os.path.join(wd, "w%d.c%d.ndjson" % (bi, CHAINS.index(chain)))
            execute(exe, sp, tr, chain)
            traces.append(tr)
            chain_of[tr] = chain
            count_events(chk, tr, chain)
    chk.sample({"wide_script_lines": [ln[:200] for ln in wex[len(wex) // 2][:6]]})

    # 4. trace validation (each chain's trace on its own)
    vf.validate_batches(chk, "SampleTrace", traces, cfg=cfg, parallel=8, timeout=2400)
    if any("far-skip" in nt for nt in chk.extra.get("policy_notes", [])):
        raise vf.Infra("a far-from-origin request left FetchFar's arithmetic domain (generator and Sample!FarInDomain "
                       "disagree): " + "; ".join(chk.extra["policy_notes"]))
    for v in chk.violations:
        try:
            lines = open(v["replay"]).read().splitlines()
            name = json.loads(lines[0]).get("scenario")
            note = open(v["replay"] + ".note").read()
            for e in execs:
                if e[0] == "R %s" % name:
                    open(v["replay"] + ".script", "w").write("\n".join(e) + "\n")
            for tr, chain in chain_of.items():
                if os.path.basename(tr) in note:
                    open(v["replay"] + ".script.chain", "w").write(chain + "\n")
        except Exception:
            pass
    chk.extra["rule"] = ("a case is one destination row of a recorded composite (evaluations); distinct = distinct "
                         "(image, transform, filter, repeat, request rectangle, role) among all composites, the "
                         "same request under another implementation chain counting once")
    chk.extra["domain"] = ("sources up to 17x4 in a8r8g8b8/x8r8g8b8/r5g6b5/a8, destination rows up to 24 pixels at "
                           "|x|,|y| <= 100, matrix entries up to 3.0 (w row up to 3.0, slopes 1/64 and 1/8), "
                           "sample positions within +-16000 pixels; projective matrices have even entries in "
                           "columns 0 and 1 (exact homogeneous coordinates); far suite (affine, NEAREST/BILINEAR): "
                           "translations up to +-32000 pixels on either axis, scales 1/8 .. 1000 and -3 .. -1, quarter "
                           "turn and shear, sources up to 32600 pixels wide / tall, requests up to 64000 pixels wide / "
                           "tall at coordinates within +-32700, sample positions within +-32700 pixels, SRC / OVER "
                           "into a8r8g8b8 / x8r8g8b8 / r5g6b5 without mask, with a solid or an a8 mask; windows of "
                           "the destination at the ends of the request and around the pre-image of the source corners")
    chk.assumptions += ["TLC/SANY and the CommunityModules Json/IOUtils readers are trusted",
                        "the a8r8g8b8 destination of an OP_SRC composite shows the fetched value unchanged "
                        "(as a component-alpha mask: white IN mask = mask)",
                        "projective transforms: any position within 2/65536 of the exact rational quotient is "
                        "admissible (the statement fixes no rounding for the homogeneous divide)",
                        "wide (floating point) pipeline: same positions, neighbours and repeat mapping; bilinear "
                        "weights may keep more than 7 bits of the fraction (any weight truncating to the 7-bit "
                        "weight); tolerance one step of the coarser of 8 bits and the destination depth",
                        "requests with a pixel centre (rectangle expanded by one pixel) mapped beyond +-16000 "
                        "pixels (far suite: +-32700 pixels) or with w = 0 are not judged",
                        "far suite: OVER onto a cleared destination, and an all-ones solid or a8 mask, show the fetched "
                        "value unchanged; an x8r8g8b8 destination shows its colour channels, an r5g6b5 destination "
                        "the most significant 5/6/5 bits of its colour channels"]
    return chk.finish()
