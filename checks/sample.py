# C08: transformed sampling against spec/Sample.tla.
#   MC   spec/mc/SampleMC        design-level: repeat modes vs their mathematical definition, bilinear weights,
#                                nearest/bilinear agreement, affine stepping, the homogeneous divide, small
#                                state machine; negative configurations (REFLECT off by one, ties rounding up)
#   GEN  spec/gen/SampleGen      TLC-generated call sequences (configuration history + fetches)
#   RND  seeded scripts          the transform/filter/repeat/size/format families of DESIGN.md 5 C08
#   EXEC harness/drv_sample      one driver process per implementation chain (PIXMAN_DISABLE)
#   WIDE the same samples through the floating point pipeline (DISJOINT_OVER on a8r8g8b8, rgba_float and
#        a2r10g10b10 destinations) x filters x repeats x affine/projective x 5x4 / 1xN / Nx1 sources
#   TV   spec/trace/SampleTrace  every recorded composite validated by TLC, each chain's trace on its own
import json
import os
import random

import vf

PROPS = {"C08": "C08"}

CLAIMS = {
    "C08": dict(
        technique="TLA+ Sample spec: TLC model checking of the sampling definitions + TLC-generated and seeded call "
                  "sequences executed on the real library under six implementation chains + trace validation by TLC",
        text="spec/Sample.tla defines the sample position of a destination pixel centre (affine: exact product rounded "
             "to 1/65536; projective: exact rational quotient with a band of 2 units), the nearest / bilinear (7-bit "
             "weights) / convolution / separable-convolution reference and the four repeat modes. TLC checks the "
             "definitions exhaustively on a small scope against their mathematical meaning (negative configurations "
             "rejected). Scripts covering the size/format/transform/filter/repeat families (pixel-boundary "
             "translations by k/65536, negative source coordinates, w changing sign, REFLECT on size-1 images, even "
             "kernels) are executed through pixman_image_composite32 under PIXMAN_DISABLE chains reaching the general, "
             "fast-path, SSE2 and SSSE3 fetchers; TLC validates every destination pixel of every recorded composite. "
             "The same samples are also requested through the wide (floating point) pipeline (DISJOINT_OVER on "
             "a8r8g8b8, rgba_float and a2r10g10b10 destinations) for every filter kind, repeat mode, affine and "
             "projective transforms and 1xN / Nx1 sources, and judged against the same positions, neighbours and "
             "repeat mapping with a one-step tolerance (bilinear: any weight that truncates to the 7-bit weight).",
        ref="5 C08"),
}

# the last chain leaves only the SSSE3 iterators above the general implementation
CHAINS = ["", "ssse3", "sse2 ssse3", "mmx sse2 ssse3", "fast mmx sse2 ssse3", "fast mmx sse2"]
ONE = 65536
REPEATS = ["none", "normal", "pad", "reflect"]
FORMATS = ["a8r8g8b8", "a8r8g8b8", "a8r8g8b8", "x8r8g8b8", "r5g6b5", "a8"]
SIZES = [(1, 1), (2, 1), (3, 2), (5, 4)]
SIZES_THOROUGH = SIZES + [(9, 3), (1, 3), (17, 2)]


# ------------------------------------------------------------------------------------------
# building blocks

def fx(v):
    """real -> 16.16 (round to nearest)"""
    return int(round(v * ONE))


def mat_mul(a, b):
    """3x3 integer matrices of 16.16 entries; exact product / 65536 must be integral for the families used"""
    r = [[0] * 3 for _ in range(3)]
    for i in range(3):
        for j in range(3):
            s = sum(a[i][k] * b[k][j] for k in range(3))
            r[i][j] = (s + 0x8000) >> 16
    return r


def image_pixels(rng, fmt, w, h):
    maxv = {"a8r8g8b8": 0xffffffff, "x8r8g8b8": 0xffffffff, "r5g6b5": 0xffff, "a8": 0xff}[fmt]
    style = rng.choice(["rand", "rand", "rand", "extreme", "ramp"])
    vals = []
    for i in range(w * h):
        if style == "rand":
            v = rng.getrandbits(32)
        elif style == "extreme":
            v = rng.choice([0, 0xffffffff, 0xff000000, 0x00ffffff, 0x80808080, 0xff0000ff, 0x01fe02fd])
        else:
            v = (0x11223344 * (i + 1) + 0x0f1e2d3c) & 0xffffffff
        vals.append(v & maxv)
    return vals


def affine_families(rng, w, h):
    """(name, matrix) list: the transform families of DESIGN.md 5 C08 for a w x h source"""
    I = [[ONE, 0, 0], [0, ONE, 0], [0, 0, ONE]]
    out = [("identity", I)]

    def T(tx, ty):
        return [[ONE, 0, tx], [0, ONE, ty], [0, 0, ONE]]

    def S(sx, sy):
        return [[sx, 0, 0], [0, sy, 0], [0, 0, ONE]]

    # translations by k/4 and by k/65536 around pixel boundaries and pixel centres
    for k in (-5, -2, -1, 1, 2, 3, 6):
        out.append(("trans_q", T(k * ONE // 4, rng.choice([0, ONE // 4, -ONE // 2]))))
    for base in (0, ONE // 2, -ONE // 2, ONE, w * ONE):
        for e in (-2, -1, 0, 1, 2):
            out.append(("trans_eps", T(base + e, rng.choice([0, base + e, e, -e]))))
    # scales
    for name, s in (("s1_3", ONE // 3), ("s1_2", ONE // 2), ("s2_3", 2 * ONE // 3 + 1), ("s3_2", 3 * ONE // 2),
                    ("s2", 2 * ONE), ("s3", 3 * ONE), ("s1", ONE)):
        sy = rng.choice([s, ONE, ONE // 2, 2 * ONE])
        m = S(s, sy)
        m[0][2] = rng.choice([0, 0, ONE // 2, -ONE // 4, 1, -1, ONE // 3])
        m[1][2] = rng.choice([0, 0, ONE // 2, -1, 1])
        out.append(("scale_" + name, m))
    # mirror: scale -1 with the translation that maps the image onto itself, +- eps
    for e in (-1, 0, 1):
        out.append(("flip_x", [[-ONE, 0, w * ONE + e], [0, ONE, 0], [0, 0, ONE]]))
    out.append(("flip_xy", [[-ONE, 0, w * ONE], [0, -ONE, h * ONE], [0, 0, ONE]]))
    out.append(("flip_y", [[ONE, 0, 0], [0, -ONE, h * ONE + rng.choice([-1, 0, 1])], [0, 0, ONE]]))
    # rotations by 90 / 180 / 270 (exact) and the (3,4,5) rotation
    out.append(("rot90", [[0, -ONE, w * ONE], [ONE, 0, 0], [0, 0, ONE]]))
    out.append(("rot90e", [[0, -ONE, w * ONE + rng.choice([-1, 1])], [ONE, 0, rng.choice([-1, 0, 1])], [0, 0, ONE]]))
    out.append(("rot180", [[-ONE, 0, w * ONE], [0, -ONE, h * ONE], [0, 0, ONE]]))
    out.append(("rot270", [[0, ONE, 0], [-ONE, 0, h * ONE], [0, 0, ONE]]))
    c, s = fx(0.6), fx(0.8)
    out.append(("rot345", [[c, -s, rng.choice([0, ONE, w * ONE // 2])], [s, c, rng.choice([0, -ONE])], [0, 0, ONE]]))
    out.append(("rot345s", [[c // 2, -s // 2, ONE], [s // 2, c // 2, 0], [0, 0, ONE]]))
    # shear
    out.append(("shear_x", [[ONE, ONE // 2, 0], [0, ONE, 0], [0, 0, ONE]]))
    out.append(("shear_y", [[ONE, 0, 0], [ONE // 4, ONE, rng.choice([0, 1, -1])], [0, 0, ONE]]))
    out.append(("shear_xy", [[ONE, -ONE // 3, ONE // 2], [ONE // 5, ONE // 2, 0], [0, 0, ONE]]))
    return out


def projective_families(rng, w, h):
    """projective matrices; columns 0 and 1 are even, so that the homogeneous coordinates of pixel centres are
    exact in 16.16 (the implementation's only rounding is then the divide, which the band of 2 units covers)"""
    out = []
    bases = [[[ONE, 0, 0], [0, ONE, 0]],
             [[ONE, 0, -2 * ONE], [0, ONE, 0]],                 # source x = -1.5 at destination x = 0
             [[ONE, 0, -ONE - ONE // 2], [0, ONE, -ONE // 2]],
             [[ONE // 2, 0, ONE // 4], [0, ONE // 2, 0]],
             [[2 * ONE, 0, -3 * ONE], [0, ONE, -ONE]],
             [[ONE, ONE // 2, -ONE], [ONE // 4, ONE, -2 * ONE]],
             [[-ONE, 0, w * ONE], [0, ONE, 0]],
             [[0, -ONE, w * ONE], [ONE, 0, -ONE]]]
    wrows = [("wx+", [ONE // 64, 0, ONE]), ("wx-", [-ONE // 64, 0, ONE]), ("wy+", [0, ONE // 64, ONE]),
             ("wy-", [0, -ONE // 64, ONE]), ("wxy", [ONE // 64, -ONE // 64, ONE]), ("w2", [0, 0, 2 * ONE]),
             ("w1_2", [0, 0, ONE // 2]), ("w3", [0, 0, 3 * ONE]), ("wneg", [0, 0, -ONE]), ("wneg3", [0, 0, -3 * ONE]),
             ("wx+3", [ONE // 64, 0, 3 * ONE]), ("wx8", [ONE // 8, 0, ONE]), ("wx-8", [-ONE // 8, 0, ONE + 2])]
    for name, wr in wrows:
        for b in rng.sample(bases, 3):
            k = 1
            if name in ("w2", "w3", "wneg", "wneg3", "wx+3"):
                # scale the affine part as well so that the quotient stays near the image
                k = wr[2] // ONE
            m = [[v * k for v in b[0]], [v * k for v in b[1]], list(wr)]
            out.append(("proj_" + name, m))
    return out


def kernels(rng):
    """(name, params) PIXMAN_FILTER_CONVOLUTION parameter blocks"""
    def K(w, h, coef):
        return [w * ONE, h * ONE] + coef
    ninth = ONE // 9
    res = [("box3x3", K(3, 3, [ninth] * 4 + [ONE - 8 * ninth] + [ninth] * 4)),
           ("even2x2", K(2, 2, [ONE // 4] * 4)),
           ("even2x2u", K(2, 2, [ONE // 2, ONE // 8, ONE // 4, ONE // 8])),
           ("sharpen3x3", K(3, 3, [0, -ONE, 0, -ONE, 5 * ONE, -ONE, 0, -ONE, 0])),
           ("edge3x3", K(3, 3, [-ONE // 8] * 4 + [2 * ONE] + [-ONE // 8] * 4)),
           ("row3x1", K(3, 1, [ONE // 4, ONE // 2, ONE // 4])),
           ("col1x3", K(1, 3, [ONE // 3, ONE // 3, ONE - 2 * (ONE // 3)])),
           ("even4x1", K(4, 1, [ONE // 8, 3 * ONE // 8, 3 * ONE // 8, ONE // 8])),
           ("even2x1", K(2, 1, [ONE // 2, ONE // 2])),
           ("one1x1", K(1, 1, [ONE])),
           ("asym3x3", K(3, 3, [rng.randrange(-ONE // 4, ONE // 2) for _ in range(9)])),
           ("bright2x2", K(2, 2, [ONE, ONE // 2, ONE // 2, ONE]))]
    return res


# separable filters made by the library itself: (reconstruct_x, reconstruct_y, sample_x, sample_y, scale_x, scale_y,
# subsample bits x, y).  kernel numbers: 0 impulse 1 box 2 linear 3 cubic 4 gaussian 5 lanczos2 6 lanczos3
SEPARABLE = [(2, 2, 0, 0, ONE, ONE, 1, 1), (2, 2, 0, 0, ONE, ONE, 2, 0), (1, 1, 1, 1, ONE, ONE, 2, 2),
             (1, 2, 1, 0, 2 * ONE, ONE, 1, 2), (2, 1, 1, 1, 3 * ONE // 2, 3 * ONE // 2, 0, 1),
             (5, 5, 0, 0, ONE, ONE, 1, 1), (3, 3, 0, 0, ONE, ONE, 2, 1), (5, 2, 1, 1, 2 * ONE, ONE, 1, 0),
             (2, 2, 2, 2, ONE, ONE, 3, 3), (1, 1, 0, 0, ONE, ONE, 0, 0), (4, 2, 0, 1, ONE, 2 * ONE, 1, 1),
             (6, 2, 0, 0, ONE, ONE, 1, 0)]


def inverse_bbox(m, w, h):
    """rough destination-space bounding box of the source rectangle (floating point; only steers the sweep)"""
    a = [[float(v) / ONE for v in r] for r in m]
    det = (a[0][0] * (a[1][1] * a[2][2] - a[1][2] * a[2][1]) - a[0][1] * (a[1][0] * a[2][2] - a[1][2] * a[2][0])
           + a[0][2] * (a[1][0] * a[2][1] - a[1][1] * a[2][0]))
    if abs(det) < 1e-9:
        return (-4, -4, 8, 8)
    inv = [[0.0] * 3 for _ in range(3)]
    for i in range(3):
        for j in range(3):
            i1, i2 = (i + 1) % 3, (i + 2) % 3
            j1, j2 = (j + 1) % 3, (j + 2) % 3
            inv[j][i] = (a[i1][j1] * a[i2][j2] - a[i1][j2] * a[i2][j1]) / det
    xs, ys = [], []
    for (sx, sy) in ((0, 0), (w, 0), (0, h), (w, h)):
        X = inv[0][0] * sx + inv[0][1] * sy + inv[0][2]
        Y = inv[1][0] * sx + inv[1][1] * sy + inv[1][2]
        Wv = inv[2][0] * sx + inv[2][1] * sy + inv[2][2]
        if abs(Wv) < 1e-6:
            continue
        xs.append(X / Wv)
        ys.append(Y / Wv)
    if not xs:
        return (-4, -4, 8, 8)
    clampi = lambda v: int(max(-70, min(70, v)))
    return (clampi(min(xs)) - 1, clampi(min(ys)) - 1, clampi(max(xs)) + 1, clampi(max(ys)) + 1)


def fetch_lines(rng, m, w, h, count, wide):
    """composite requests sweeping across (and beyond) the pre-image of the source rectangle"""
    x1, y1, x2, y2 = inverse_bbox(m, w, h)
    out = []
    for _ in range(count):
        n = rng.choice([1, 2, 3, 4, 5, 7, 8, 9, 12] + ([16, 19, 24] if wide else []))
        rows = rng.choice([1, 1, 1, 2, 3])
        mode = rng.random()
        if mode < 0.55:          # straddling the left or right / top or bottom edge
            x0 = rng.randint(x1 - n - 1, x2 + 1)
            y0 = rng.randint(y1 - rows, y2)
        elif mode < 0.8:         # inside
            x0 = rng.randint(x1, max(x1, x2 - n))
            y0 = rng.randint(y1, max(y1, y2 - rows))
        else:                    # anywhere (w changing sign near x = +-64 for the projective families)
            x0 = rng.randint(-75, 75)
            y0 = rng.randint(-70, 70)
        role = "mask" if rng.random() < 0.12 else "src"
        out.append("C %s %d %d %d %d %d" % (role, x0, y0, n, rows, rng.choice([0, 0, 1, 2, 3])))
    return out


def cover_exec(rng, name):
    """requests that lie inside the source (the COVER fast paths and the SSE2 / SSSE3 main loops): larger
    a8r8g8b8 / x8r8g8b8 / r5g6b5 / a8 sources, pure scale + translation, requests inside the pre-image"""
    fmt = rng.choice(["a8r8g8b8", "a8r8g8b8", "a8r8g8b8", "x8r8g8b8", "r5g6b5", "a8"])
    w, h = rng.choice([(8, 5), (12, 3), (17, 4), (33, 3)])
    out = ["R %s" % name, "I %s %d %d %s" % (fmt, w, h, " ".join(map(str, image_pixels(rng, fmt, w, h))))]
    for _ in range(rng.randint(2, 4)):
        sx = rng.choice([ONE // 3, ONE // 2, 2 * ONE // 3 + 1, ONE, ONE, 3 * ONE // 2, 2 * ONE, ONE - 1, ONE + 1, 52429])
        sy = rng.choice([sx, ONE, ONE // 2, 2 * ONE])
        tx = rng.choice([0, 1, -1, ONE // 2, ONE // 4, ONE // 3, 3 * ONE // 4 + 1])
        ty = rng.choice([0, 1, -1, ONE // 2, ONE // 4 + 1])
        m = [[sx, 0, tx], [0, sy, ty], [0, 0, ONE]]
        out.append("T " + " ".join(str(v) for r in m for v in r))
        out.append("F " + rng.choice(["nearest", "bilinear", "bilinear"]) + " 0")
        out.append("P " + rng.choice(REPEATS))
        # destination range whose samples (and bilinear neighbours) stay inside: 1 <= sx * (x + 1/2) + tx <= w - 1
        xlo = -((tx - ONE) // sx) + 1
        xhi = ((w - 1) * ONE - tx) // sx - 1
        ylo = -((ty - ONE) // sy) + 1
        yhi = ((h - 1) * ONE - ty) // sy - 1
        for _k in range(rng.randint(2, 4)):
            n = rng.choice([1, 2, 3, 4, 5, 7, 8, 9, 13, 16, 21])
            n = max(1, min(n, xhi - xlo + 1))
            rows = max(1, min(rng.choice([1, 2, 3]), yhi - ylo + 1))
            x0 = rng.randint(xlo, max(xlo, xhi - n + 1))
            y0 = rng.randint(ylo, max(ylo, yhi - rows + 1))
            role = "mask" if rng.random() < 0.2 else "src"
            out.append("C %s %d %d %d %d %d" % (role, x0, y0, n, rows, rng.choice([0, 0, 1, 2, 3])))
    return out


WIDE_MODES = ["op", "float", "a2r10"]


def wide_execs(rng, per_cell):
    """the wide (floating point) pipeline, systematically: {DISJOINT_OVER on a8r8g8b8, rgba_float destination,
    a2r10g10b10 destination} x {nearest, bilinear, small separable convolution} x the four repeat modes x
    {affine, projective} x sources {5x4, 1xN, Nx1}; every request spans the image and more than one pixel of
    its surroundings on all four sides, at fractional offsets"""
    ex = []
    k = 0
    for (w, h) in ((5, 4), (1, 3), (4, 1)):
        fmt = "a8r8g8b8" if (w, h) != (4, 1) else "x8r8g8b8"
        pix = image_pixels(random.Random(1000 + w * 10 + h), fmt, w, h)
        # distinct neighbours: force a ramp with large differences between adjacent columns / rows
        pix = [((0x40 + 0x5b * i) % 256) << 24 | ((0x10 + 0x77 * i) % 256) << 16 | ((0xf0 - 0x63 * i) % 256) << 8 |
               ((0x25 + 0x9d * i) % 256) for i in range(w * h)]
        aff = [[[ONE, 0, -3 * ONE - ONE // 4], [0, ONE, -2 * ONE - ONE // 2], [0, 0, ONE]],
               [[3 * ONE // 4, 0, -2 * ONE - 3 * ONE // 4], [0, 3 * ONE // 4, -ONE - ONE // 4], [0, 0, ONE]],
               [[ONE // 2, -ONE // 4, -ONE - ONE // 2], [ONE // 4, ONE // 2, -3 * ONE - 3 * ONE // 4], [0, 0, ONE]],
               [[ONE, 0, ONE + ONE // 2], [0, ONE, 3 * ONE // 4], [0, 0, ONE]],
               [[-ONE, 0, (w + 2) * ONE + ONE // 8], [0, 3 * ONE // 2, -2 * ONE - ONE // 3], [0, 0, ONE]]]
        proj = [[[ONE, 0, -3 * ONE - ONE // 4], [0, ONE, -2 * ONE - ONE // 2], [ONE // 64, 0, ONE]],
                [[2 * ONE, 0, -6 * ONE - ONE // 2], [0, 2 * ONE, -5 * ONE], [0, 0, 2 * ONE]],
                [[-ONE, 0, 3 * ONE + ONE // 4], [0, -ONE, 2 * ONE + ONE // 2], [0, -ONE // 64, -ONE]]]
        for mode in WIDE_MODES:
            for flt in ("F nearest 0", "F bilinear 0", "S 2 2 0 0 65536 65536 1 1"):
                for rep in REPEATS:
                    out = ["R wide%d" % k, "I %s %d %d %s" % (fmt, w, h, " ".join(map(str, pix))), flt, "P " + rep]
                    k += 1
                    mats = rng.sample(aff, min(per_cell, len(aff))) + rng.sample(proj, min(max(1, per_cell // 2), len(proj)))
                    for m in mats:
                        out.append("T " + " ".join(str(v) for r in m for v in r))
                        n = w + 8
                        rows = h + 6
                        role = "mask" if rng.random() < 0.15 else "src"
                        out.append("W %s %s %d %d %d %d" % (mode, role, rng.choice([-1, 0]), rng.choice([-1, 0]), n, rows))
                    ex.append(out)
    return ex


def filter_line(rng, kind, kers):
    if kind == "nearest":
        return "F nearest 0"
    if kind == "bilinear":
        return "F bilinear 0"
    if kind == "convolution":
        name, par = rng.choice(kers)
        return "F convolution %d %s" % (len(par), " ".join(map(str, par)))
    return "S %d %d %d %d %d %d %d %d" % rng.choice(SEPARABLE)


def random_exec(rng, name, thorough):
    """one execution: an image, then a history of configuration changes and fetches"""
    fmt = rng.choice(FORMATS)
    w, h = rng.choice(SIZES_THOROUGH if thorough else SIZES)
    out = ["R %s" % name, "I %s %d %d %s" % (fmt, w, h, " ".join(map(str, image_pixels(rng, fmt, w, h))))]
    aff = affine_families(rng, w, h)
    proj = projective_families(rng, w, h)
    kers = kernels(rng)
    steps = rng.randint(3, 6)
    m = [[ONE, 0, 0], [0, ONE, 0], [0, 0, ONE]]
    for s in range(steps):
        # change one to three aspects of the configuration, then fetch
        what = rng.sample(["T", "F", "P"], rng.randint(1, 3)) if s else ["T", "F", "P"]
        heavy = False
        for c in sorted(what):
            if c == "T":
                fam = proj if rng.random() < 0.3 else aff
                tname, m = rng.choice(fam)
                out.append("T " + " ".join(str(v) for r in m for v in r))
            elif c == "F":
                kind = rng.choice(["nearest", "nearest", "bilinear", "bilinear", "bilinear", "convolution", "separable"])
                heavy = kind in ("convolution", "separable")
                out.append(filter_line(rng, kind, kers))
            else:
                out.append("P " + rng.choice(REPEATS))
        out += fetch_lines(rng, m, w, h, 2 if heavy else rng.randint(2, 4), wide=(w >= 9))
    return out


def directed_execs():
    """fixed executions (independent of the seed) for the cases the statement's rationale names"""
    ex = []
    # negative source coordinates under a projective transform (w = 1 + x/64): destination pixel 0 maps to
    # source x = -1.5/1.0078, outside a REPEAT_NONE image -> transparent; pixels 2, 3 map inside
    ex.append(["R dir_proj_negative", "I a8r8g8b8 2 1 4294901760 4278255360",
               "T 65536 0 -131072 0 65536 0 1024 0 65536", "P none", "F nearest 0", "C src 0 0 6 1 0",
               "F bilinear 0", "C src 0 0 6 1 0", "C src -4 0 8 1 1", "P pad", "C src -4 0 8 1 0",
               "P reflect", "C src -6 0 12 1 0", "P normal", "F nearest 0", "C src -6 0 12 1 0"])
    # w changing sign inside the row (w = 1 - x/64 crosses 0 between destination x = 63 and 64), negative w
    ex.append(["R dir_proj_w_sign", "I a8r8g8b8 3 2 4294901760 4278255360 4278190335 2164260863 8421504 4294967295",
               "T 65536 0 0 0 65536 0 -1024 0 65536", "P normal", "F nearest 0", "C src 58 0 12 2 0",
               "F bilinear 0", "C src 58 0 12 1 0", "P reflect", "C src 60 -1 8 2 0", "P pad", "C src 61 0 6 1 0",
               "T -65536 0 0 0 -65536 0 0 0 -65536", "P none", "C src -1 -1 5 3 0",
               "T 65536 0 0 0 65536 0 0 -1024 65536", "P normal", "C src 0 60 3 8 0"])
    # kernels with negative coefficients: a negative total must clamp to 0
    ex.append(["R dir_conv_negative", "I a8r8g8b8 3 2 4294967295 0 4294967295 0 4294967295 0", "T 65536 0 1 0 65536 0 0 0 65536",
               "F convolution 11 196608 196608 0 -65536 0 -65536 327680 -65536 0 -65536 0", "P none", "C src -1 -1 5 4 0",
               "P pad", "C src -1 -1 5 4 0", "P normal", "C src -2 -1 7 3 0", "P reflect", "C src -2 -1 7 3 0",
               "S 5 5 0 0 65536 65536 1 1", "C src -2 -1 7 3 0", "P none", "C src -2 -1 7 3 0"])
    # the same through the wide (floating point) pipeline
    ex.append(["R dir_wide_conv_negative", "I a8r8g8b8 3 2 4294967295 0 4294967295 0 4294967295 0", "T 65536 0 1 0 65536 0 0 0 65536",
               "F convolution 11 196608 196608 0 -65536 0 -65536 327680 -65536 0 -65536 0", "P none", "W op src -1 -1 5 4",
               "W float src -1 -1 5 4", "P pad", "W a2r10 src -1 -1 5 4", "P reflect", "W op src -2 -1 7 3",
               "S 5 5 0 0 65536 65536 1 1", "W float src -2 -1 7 3", "P none", "W op src -2 -1 7 3"])
    # 1x1 images: REFLECT / NORMAL / PAD on size-1 axes; a kernel whose coefficients sum to 3
    ex.append(["R dir_size1", "I a8r8g8b8 1 1 2155888736", "P reflect", "F bilinear 0",
               "T 43691 0 1 0 65536 -1 0 0 65536", "C src -3 -2 7 3 0", "P normal", "C src -3 -2 7 3 0",
               "P none", "C src -3 -2 7 4 0", "F convolution 6 131072 131072 65536 32768 32768 65536", "C src -2 -2 5 4 0",
               "P pad", "C src -2 -2 5 4 0", "P reflect", "C mask -2 -2 5 4 0"])
    # sample positions exactly on pixel boundaries and one unit either side; even kernels
    for e in (-1, 0, 1):
        ex.append(["R dir_boundary_%d" % (e + 1), "I a8r8g8b8 3 2 4294901760 4278255360 4278190335 2164260863 8421504 4294967295",
                   "T 65536 0 %d 0 65536 %d 0 0 65536" % (32768 + e, -32768 + e), "F nearest 0", "P none", "C src -2 -1 7 4 0",
                   "P reflect", "C src -5 -3 12 3 1", "F bilinear 0", "C src -5 -3 12 3 1", "P none", "C src -2 -1 7 4 0",
                   "F convolution 6 131072 131072 16384 16384 16384 16384", "C src -2 -1 7 4 0", "P reflect", "C src -5 -3 12 3 0",
                   "F convolution 4 131072 65536 49152 16384", "P normal", "C src -5 -3 12 3 0"])
    return ex


# ------------------------------------------------------------------------------------------
# behaviours generated by TLC from the specification

def tlc_behaviours(n, depth, seed):
    path = os.path.join(vf.SPEC, "gen", "SampleGen.tla")
    cfg = os.path.join(vf.workdir("sgen"), "SampleGen.cfg")
    open(cfg, "w").write("SPECIFICATION GenSpec\nCONSTANTS\n  Depth = %d\nINVARIANT Emit\n" % depth)
    per = max(1, n // 4)
    r = vf.run_tlc(path, cfg=cfg, workers=4, timeout=600,
                   extra=["-generate", "num=%d" % per, "-depth", str(2 * depth + 1), "-seed", str(seed)], tag="sgen")
    behs = [json.loads(json.loads(b)) for b in r.vf("behaviour")]
    if not behs:
        raise vf.Infra("SampleGen produced no behaviours:\n" + r.out[-2000:])
    return behs, r


def behaviour_script(beh, name):
    out = ["R %s" % name]
    for c in beh:
        k = c["k"]
        if k == "I":
            vals = [p[0] * 65536 + p[1] for row in c["pix"] for p in row]
            out.append("I %s %d %d %s" % (c["fmt"], c["w"], c["h"], " ".join(map(str, vals))))
        elif k == "T":
            out.append("T " + " ".join(str(v) for r in c["m"] for v in r))
        elif k == "F":
            out.append("F %s %d %s" % (c["f"], len(c["params"]), " ".join(map(str, c["params"]))))
        elif k == "P":
            out.append("P " + c["r"])
        elif k == "C":
            out.append("C %s %d %d %d %d %d" % (c["role"], c["x0"], c["y0"], c["n"], c["rows"], c["dx"]))
    return out


# ------------------------------------------------------------------------------------------

def count_events(chk, tracefile, chain):
    cfg = None
    for line in open(tracefile):
        if line.startswith('{"e":"Fetch"') or line.startswith('{"e":"FetchWide"'):
            ev = json.loads(line)
            if ev["e"] == "FetchWide":
                wk = chk.extra.setdefault("wide_rows_by_mode", {})
                wk[ev["mode"]] = wk.get(ev["mode"], 0) + ev["rows"]
            chk.evaluations += ev["rows"]
            chk.extra["pixels"] = chk.extra.get("pixels", 0) + ev["rows"] * ev["n"]
            key = (cfg, ev["x0"], ev["y0"], ev["n"], ev["rows"], ev["role"], ev.get("mode", "narrow"))
            chk.distinct_keys.add(hash(key))
            by = chk.extra.setdefault("rows_by_chain", {})
            by[chain or "(all enabled)"] = by.get(chain or "(all enabled)", 0) + ev["rows"]
        elif line.startswith('{"e":"Reset"'):
            cfg = None
        elif line.startswith('{"e":"Image"'):
            cfg = (hash(line), None, None, None)
        elif line.startswith('{"e":"Transform"') and cfg:
            cfg = (cfg[0], hash(line), cfg[2], cfg[3])
            ev = json.loads(line)
            kinds = chk.extra.setdefault("transforms", {})
            k = "affine" if ev["m"][6:] == [[0, 0], [0, 0], [1, 0]] else "projective"
            kinds[k] = kinds.get(k, 0) + 1
        elif line.startswith('{"e":"Filter"') and cfg:
            cfg = (cfg[0], cfg[1], hash(line), cfg[3])
            f = line.split('"f":"')[1].split('"')[0]
            kinds = chk.extra.setdefault("filters", {})
            kinds[f] = kinds.get(f, 0) + 1
        elif line.startswith('{"e":"Repeat"') and cfg:
            cfg = (cfg[0], cfg[1], cfg[2], hash(line))


def mc(chk, tier):
    from concurrent.futures import ThreadPoolExecutor
    base = os.path.join(vf.SPEC, "mc")
    cfgs = [("SampleMC.cfg", False), ("SampleMC_neg_reflect.cfg", True), ("SampleMC_neg_tie.cfg", True),
            ("SampleMC_neg_kernel.cfg", True)]

    def one(c):
        cfg, neg = c
        return vf.tlc_mc(os.path.join(base, "SampleMC.tla"), cfg=os.path.join(base, cfg), workers=4 if not neg else 2,
                         timeout=1200, expect_violation=neg, tag=cfg[:-4])

    with ThreadPoolExecutor(max_workers=4) as ex:
        results = list(ex.map(one, cfgs))
    for (cfg, neg), r in zip(cfgs, results):
        chk.add_tlc(r, ("negative config (must be rejected) " if neg else "model check ") + cfg)
        if not neg and (r.inv_violation or r.deadlock):
            raise vf.Infra("the Sample model itself violates an invariant under %s:\n%s" % (cfg, r.out[-2500:]))


def execute(exe, script, trace, chain):
    env = dict(os.environ)
    env["PIXMAN_DISABLE"] = chain
    p = vf.sh([exe, script, trace], timeout=900, check=False, env=env)
    if p.returncode != 0:
        raise vf.Infra("drv_sample failed rc=%d (chain '%s'): %s" % (p.returncode, chain, (p.stdout or "")[-1000:]))


def run(prop, args):
    chk = vf.Check(prop, args.tier, args.seed)
    rng = random.Random(args.seed * 1000003 + 8)
    quick = args.tier == "quick"
    wd = vf.workdir("sample")
    # Deviations = ids of the OPEN known findings of C08 (none: the three defects found are fixed in /repo)
    cfg = vf.cfg_with_deviations(os.path.join(vf.SPEC, "trace", "SampleTrace.cfg"), "C08")

    if args.replay:
        exe, px = vf.build_driver("drv_sample", "plain")
        script = args.replay if args.replay.endswith(".script") else args.replay + ".script"
        chain = ""
        if os.path.exists(script + ".chain"):
            chain = open(script + ".chain").read().strip()
        tr = os.path.join(wd, "replay.ndjson")
        execute(exe, script, tr, chain)
        vf.validate_batches(chk, "SampleTrace", [tr], cfg=cfg, parallel=1)
        return chk.finish()

    # 1. design-level model checking
    mc(chk, args.tier)

    # 2. scripts
    execs = []
    behs, r = tlc_behaviours(40 if quick else 800, 12 if quick else 14, args.seed)
    chk.add_tlc(r, "behaviour generation (SampleGen, -generate)")
    chk.sample({"tlc_generated_behaviour": behs[0][:5]})
    for k, beh in enumerate(behs):
        execs.append(behaviour_script(beh, "gen%d" % k))
    execs += directed_execs()
    nrand = 200 if quick else 20000
    for i in range(nrand):
        if i % 4 == 3:
            execs.append(cover_exec(rng, "cov%d" % i))
        else:
            execs.append(random_exec(rng, "rnd%d" % i, thorough=not quick))
    rng.shuffle(execs)          # spread the kinds of execution evenly over the batches
    chk.extra["executions_per_chain"] = len(execs)
    chk.extra["tlc_generated_behaviours"] = len(behs)
    chk.extra["chains"] = ["PIXMAN_DISABLE='%s'" % c for c in CHAINS]

    # 3. execute on the real library (built from /repo's working tree), one process per implementation chain
    exe, px = vf.build_driver("drv_sample", "plain")
    chk.extra["build"] = px["hash"]
    nb = 2 if quick else 30
    traces = []
    chain_of = {}
    for bi in range(nb):
        part = execs[bi::nb]
        if not part:
            continue
        sp = os.path.join(wd, "b%d.script" % bi)
        with open(sp, "w") as f:
            for e in part:
                f.write("\n".join(e) + "\n")
        for ci, chain in enumerate(CHAINS):
            tr = os.path.join(wd, "b%d.c%d.ndjson" % (bi, ci))
            execute(exe, sp, tr, chain)
            traces.append(tr)
            chain_of[tr] = chain
            count_events(chk, tr, chain)
    chk.sample({"script_lines": [ln[:300] for ln in execs[-1][:7]]})

    # 3b. the wide (floating point) pipeline: systematic cross product (see wide_execs), general implementation
    # with and without the SIMD / fast-path layers above it
    wex = wide_execs(rng, 2 if quick else 5)
    execs += wex
    chk.extra["wide_executions"] = len(wex)
    wchains = ["", "fast mmx sse2 ssse3"] if quick else CHAINS
    wnb = 2 if quick else 3
    for bi in range(wnb):
        part = wex[bi::wnb]
        sp = os.path.join(wd, "w%d.script" % bi)
        with open(sp, "w") as f:
            for e in part:
                f.write("\n".join(e) + "\n")
        for chain in wchains:
            tr = os.path.join(wd, "w%d.c%d.ndjson" % (bi, CHAINS.index(chain)))
            execute(exe, sp, tr, chain)
            traces.append(tr)
            chain_of[tr] = chain
            count_events(chk, tr, chain)
    chk.sample({"wide_script_lines": [ln[:200] for ln in wex[len(wex) // 2][:6]]})

    # 4. trace validation (each chain's trace on its own)
    vf.validate_batches(chk, "SampleTrace", traces, cfg=cfg, parallel=8, timeout=2400)
    for v in chk.violations:
        try:
            lines = open(v["replay"]).read().splitlines()
            name = json.loads(lines[0]).get("scenario")
            note = open(v["replay"] + ".note").read()
            for e in execs:
                if e[0] == "R %s" % name:
                    open(v["replay"] + ".script", "w").write("\n".join(e) + "\n")
            for tr, chain in chain_of.items():
                if os.path.basename(tr) in note:
                    open(v["replay"] + ".script.chain", "w").write(chain + "\n")
        except Exception:
            pass
    chk.extra["rule"] = ("a case is one destination row of a recorded composite (evaluations); distinct = distinct "
                         "(image, transform, filter, repeat, request rectangle, role) among all composites, the "
                         "same request under another implementation chain counting once")
    chk.extra["domain"] = ("sources up to 17x4 in a8r8g8b8/x8r8g8b8/r5g6b5/a8, destination rows up to 24 pixels at "
                           "|x|,|y| <= 100, matrix entries up to 3.0 (w row up to 3.0, slopes 1/64 and 1/8), "
                           "sample positions within +-16000 pixels; projective matrices have even entries in "
                           "columns 0 and 1 (exact homogeneous coordinates)")
    chk.assumptions += ["TLC/SANY and the CommunityModules Json/IOUtils readers are trusted",
                        "the a8r8g8b8 destination of an OP_SRC composite shows the fetched value unchanged "
                        "(as a component-alpha mask: white IN mask = mask)",
                        "projective transforms: any position within 2/65536 of the exact rational quotient is "
                        "admissible (the statement fixes no rounding for the homogeneous divide)",
                        "wide (floating point) pipeline: same positions, neighbours and repeat mapping; bilinear "
                        "weights may keep more than 7 bits of the fraction (any weight truncating to the 7-bit "
                        "weight); tolerance one step of the coarser of 8 bits and the destination depth",
                        "requests with a pixel centre (rectangle expanded by one pixel) mapped beyond +-16000 "
                        "pixels or with w = 0 are not judged"]
    return chk.finish()
