# C04: no access outside the pixel storage the caller described.  spec/Bounds.tla, mc/BoundsMC, trace/BoundsTrace,
# harness/drv_bounds.c.
import os
import random

import vf
from dispatch import F, FX1

PROPS = {"C04": "C04"}
CLAIMS = {
    "C04": dict(
        technique="TLA+ Bounds spec: the library's samples-cover-clip test model-checked against its pointwise meaning; "
                  "every memory access of the general path (accessor callbacks) and every raised cover flag (hook) "
                  "validated by TLC; fast paths run between PROT_NONE guard regions (a fault ends the trace in an "
                  "event no action matches)",
        text="BoundsMC enumerates all scale factors, translations, extents and source widths of a scaled fixed-point "
             "grid and shows that whenever the transcribed analyze_extent test raises SAMPLES_COVER_CLIP_NEAREST / "
             "_BILINEAR every destination pixel samples inside the source (negative configuration rejected). On the "
             "real library requests over the geometry classes of the statement (0/1-pixel and >32767-pixel images, "
             "minimal/padded/negative strides, identity/fractional/scaled/rotated/sheared/projective transforms incl. "
             "w crossing 0 and positions outside the 16.16 range, all filters and repeats, rectangles straddling every "
             "edge, trapezoids up to +-32767.99) are run (a) through read/write accessors: TLC checks every accessed "
             "byte interval lies in the image's storage and that each raised cover flag is true at full resolution, "
             "(b) without accessors under each implementation chain with every image flush against 1 MiB PROT_NONE "
             "regions (alternately at its upper and lower end). Images of 32766 ... 65537 (thorough: ... 131072) pixels "
             "in one dimension - either side of every limit of the 16.16 representation - are requested as source "
             "(once per fast-path table entry that takes a transformed source: its operator, formats, filter, repeat "
             "and transform class), as mask and as destination, near both ends and across the representable range: a "
             "pixel index that is off by the wrapped width or by 65536 leaves the one-row storage. BoundsMC also shows "
             "on a small word why the refusal of such images must not depend on the repeat mode (end-relative "
             "addressing of the scaled main loops; negative configuration rejected).",
        ref="5 C04"),
}

CONFIGS = ["", "fast mmx sse2 ssse3", "sse2 ssse3", "mmx sse2 ssse3", "ssse3", "wholeops"]


def edge_aligned_trapezoids(rng):
    """trapezoids whose edges lie exactly on, one unit inside and one unit outside the image border, on alpha images
       whose rows are contiguous (no padding) and whose width is / is not a multiple of the word size: the last
       sample of a row is then adjacent to the next row resp. to the end of the storage"""
    out = []
    a8, a1, a4 = F["a8"], F["a1"], fmt4()
    for dfmt in (a8, a8, a4, a1):
        for dw in (4, 8, 3, 12, 32):
            dh = rng.choice([1, 2, 4])
            for rx in (dw * FX1, dw * FX1 - 1, dw * FX1 + 1, (dw + 3) * FX1):
                for lx in (0, -1, 1, -2 * FX1):
                    for (top, bot) in ((0, dh * FX1), (-FX1, (dh + 1) * FX1), (FX1 // 2, dh * FX1 - 1)):
                        for mode in (0, 1, 2):
                            for tk in (0, 1):
                                vals = [top, bot, lx, top, lx, bot, rx, top, rx, bot]
                                f = [mode, dfmt, dw, dh, 1] + vals + [0, 0, rng.randrange(1, 2 ** 31), tk | 8]
                                out.append("T %d %s" % (len(f), " ".join(str(int(x)) for x in f)))
    return out


def full_range_trapezoids(rng):
    """trapezoids whose edge lines run across the whole int32 coordinate range (end points more than 2^31 apart in
       y and/or x, so that the 33-bit differences of the end points wrap in 32-bit arithmetic), through every
       trapezoid entry point, on small alpha images"""
    out = []
    lo, hi = -2 ** 31, 2 ** 31 - 1
    lines = [(0, lo, lo, hi), (lo, lo, hi, hi), (hi, lo, lo, hi), (0, lo, 0, hi), (lo, lo, 0, hi), (21845, lo + 1, lo, hi - 1),
             (hi, -FX1, lo, 3 * FX1), (lo, 0, hi, FX1)]
    for dfmt in (F["a8"], F["a1"], fmt4()):
        for (lx1, ly1, lx2, ly2) in lines:
            for (rx1, ry1, rx2, ry2) in ((hi, lo, hi, hi), (12 * FX1, lo, 12 * FX1, hi), (lx2, ly2, lx1, ly1)):
                for (top, bot) in ((0, 3 * FX1), (lo, hi), (21845, 21848)):
                    for tk in (0, 1, 2, 3):
                        vals = [top, bot, lx1, ly1, lx2, ly2, rx1, ry1, rx2, ry2]
                        f = [rng.choice([0, 1, 2]), dfmt, 11, 3, 1] + vals + [0, 0, rng.randrange(1, 2 ** 31), tk]
                        out.append("T %d %s" % (len(f), " ".join(str(int(x)) for x in f)))
    return out


def extreme_row_trapezoids(rng):
    """trapezoids whose top / bottom lie in the outermost rows of the 16.16 range (where the sample-row rounding must
       saturate instead of wrapping), and ordinary tiny trapezoids moved there by the extreme offsets -32768 / 32767,
       through every trapezoid entry point, on small alpha images: nothing may be written outside the image"""
    out = []
    lo, hi = -2 ** 31, 2 ** 31 - 1
    spans = [(lo, lo + 1), (lo, lo + 2184), (lo, lo + 2185), (lo, lo + 32768), (lo + 1, lo + 65536), (lo, lo + 3 * 65536),
             (hi - 65536, hi), (hi - 1, hi), (hi - 2185, hi), (hi - 32768, hi - 1), (lo, hi)]
    tiny = [(0, 1), (0, 2185), (0, 32768), (0, 65536), (1, 3 * 65536), (-65536, 1)]
    for dfmt in (F["a8"], F["a1"], fmt4()):
        for tk in (0, 1, 2, 3):
            for (top, bot) in spans:
                vals = [top, bot, 0, top, 0, bot, 5 * FX1, top, 5 * FX1, bot]
                f = [rng.choice([0, 1, 2]), dfmt, 8, 3, 1] + vals + [0, 0, rng.randrange(1, 2 ** 31), tk]
                out.append("T %d %s" % (len(f), " ".join(str(int(x)) for x in f)))
            for (top, bot) in tiny:
                for (xo, yo) in ((0, -32768), (0, 32767), (0, -32767), (-32768, 0), (32767, 1), (-32768, -32768)):
                    vals = [top, bot, 0, top, 0, bot, 5 * FX1, top, 5 * FX1, bot]
                    f = [rng.choice([0, 1, 2]), dfmt, 8, 3, 1] + vals + [xo, yo, rng.randrange(1, 2 ** 31), tk]
                    out.append("T %d %s" % (len(f), " ".join(str(int(x)) for x in f)))
    return out


def blit_like(rng):
    """same-format, same-size, same-stride copies of whole images and of windows (the shape memcpy-style shortcuts
       are written for), with padded strides, in every observation mode"""
    out = []
    fmts = [F[k] for k in ("a8r8g8b8", "x8r8g8b8", "r5g6b5", "a8", "r8g8b8", "x1r5g5b5", "b8g8r8a8", "a1", "a4r4g4b4")]
    ident = [FX1, 0, 0, 0, FX1, 0, 0, 0, FX1]
    for fmt in fmts:
        for (w, h) in ((10, 4), (1, 3), (7, 1), (16, 2), (33, 3)):
            for mode in (0, 1, 2):
                for (x, y, cw, ch) in ((0, 0, w, h), (0, 0, w, max(1, h - 1)), (0, 1 if h > 1 else 0, w, 1), (1, 0, max(1, w - 1), h)):
                    for op in (1, 3):
                        f = [mode, op, fmt, w, h, 0, 0, 3] + ident + [0, 1, 1, fmt, w, h, 0, x, y, 0, 0, x, y, cw, ch,
                                                                    rng.randrange(1, 2 ** 31)]
                        out.append("C %d %s" % (len(f), " ".join(str(int(v)) for v in f)))
    return out


def fill_requests(rng):
    """pixman_image_fill_boxes / fill_rectangles: boxes inside, straddling and outside the image x destination clips
       (none, inside, reaching beyond the image on each side, multi-rectangle) x operators that take / do not take the
       direct-fill shortcut x strides of either sign"""
    out = []
    fm = [F[k] for k in ("a8r8g8b8", "x8r8g8b8", "r5g6b5", "a8", "a1", "r8g8b8", "b8g8r8a8")]
    for dfmt in fm:
        for (dw, dh) in ((8, 4), (5, 3)):
            clips = [[], [[1, 1, dw - 1, dh - 1]], [[-3, -2, dw + 4, dh + 3]], [[0, 0, dw, dh + 5]], [[0, -4, dw, dh]],
                     [[-6, 0, dw, dh]], [[0, 0, dw + 7, dh]], [[0, 0, 2, dh + 2], [3, -2, dw + 3, 2]]]
            boxes = [[[0, 0, dw, dh]], [[-2, -2, dw + 2, dh + 2]], [[1, 1, 3, 2], [2, dh - 1, dw + 3, dh + 4]],
                     [[dw - 1, 0, dw + 5, dh]], [[0, dh - 1, dw, dh + 6]], [[-5, -5, 1, 1]]]
            for clip in clips:
                for bx in boxes:
                    for (op, alpha) in ((1, 0xffff), (3, 0xffff), (0, 0x8000), (3, 0x8000), (12, 0xffff)):
                        mode = rng.choice([0, 1, 2])
                        f = [mode, dfmt, dw, dh, rng.choice([0, 0, 1]), op, rng.choice([0, 1]), len(clip)] + \
                            [c for b in clip for c in b] + [len(bx)] + [c for b in bx for c in b] + [alpha, rng.randrange(1, 2 ** 31)]
                        out.append("B %d %s" % (len(f), " ".join(str(int(v)) for v in f)))
    return out


def cover_boundary(rng):
    """requests whose extreme sample lands exactly on, one unit inside and one unit outside each edge of a
       non-repeating source, for nearest and bilinear filters and a few scale factors: the cases that decide whether
       SAMPLES_COVER_CLIP_* may be raised"""
    out = []
    fmt = F["a8r8g8b8"]
    for sfilt in (3, 4):
        half = FX1 // 2 if sfilt == 4 else 1          # bilinear reaches half a pixel further; nearest: floor (p - e)
        for m00 in (FX1, FX1 // 2, 2 * FX1, 3 * FX1 // 2, -FX1):
            for (sw, sh, dw, dh) in ((8, 3, 4, 2), (5, 4, 5, 3), (3, 2, 2, 1)):
                x1, x2 = 0, dw
                # centre of the last / first destination pixel, in 16.16, before translation
                last = (m00 * (2 * x2 - 1)) // 2
                first = (m00 * (2 * x1 + 1)) // 2
                hi_edge, lo_edge = max(first, last), min(first, last)
                for edge, want in ((hi_edge, sw * FX1), (lo_edge, 0)):
                    for delta in (-FX1, -half - 1, -half, -half + 1, -1, 0, 1, 2, half - 1, half, half + 1, FX1):
                        tx = want - edge + delta
                        for axis in (0, 1):
                            m = [FX1, 0, 0, 0, FX1, 0, 0, 0, FX1]
                            if axis == 0:
                                m[0], m[2] = m00, tx
                            else:
                                # same construction on the y axis
                                lasty = (m00 * (2 * dh - 1)) // 2
                                firsty = (m00 * 1) // 2
                                e2 = max(firsty, lasty) if want else min(firsty, lasty)
                                m[4], m[5] = m00, (sh * FX1 if want else 0) - e2 + delta
                            for mode in (0, 1, 2):
                                f = [mode, 1, fmt, sw, sh, 0, 0, sfilt] + m + [0, 1, 1, fmt, dw, dh, 0, 0, 0, 0, 0, 0, 0, dw, dh,
                                                                              rng.randrange(1, 2 ** 31)]
                                out.append("C %d %s" % (len(f), " ".join(str(int(v)) for v in f)))
    return out


_TABLES = {}


def library_tables(wd):
    """every fast-path table entry of the running library, over every implementation of every chain in CONFIGS
       (the Tables event of drv_dispatch), as dicts op / sf / mf / df ([hi16, lo16]) / sfl / mfl / dfl (bit lists)"""
    import json
    import dispatch
    if wd in _TABLES:
        return _TABLES[wd]
    exe, _ = vf.build_driver("drv_dispatch", "plain", cflags=["-pthread"])
    out = []
    for ci, dis in enumerate(CONFIGS):
        empty = os.path.join(wd, "empty.script")
        open(empty, "w").write("")
        tr = os.path.join(wd, "tables%d.ndjson" % ci)
        dispatch.run_config(exe, empty, tr, dis)
        for line in open(tr):
            if line.startswith('{"e":"Tables"'):
                for imp in json.loads(line)["imps"]:
                    out += imp
    _TABLES[wd] = out
    return out


def tight_table_requests(rng, wd):
    """One group of requests per fast-path table entry of the running library (every implementation, every chain):
       operator and formats of the entry, solid source / solid mask where the entry asks for one (1x1 repeating
       images), images whose rows are contiguous and end exactly at the end of their storage (widths for which
       width x bpp is a whole number of words), the request covering the image up to its last pixel - in guard mode
       at the upper and at the lower end: a routine that reads or writes a word where the format has a byte or
       three touches the PROT_NONE page"""
    keys = set()
    for e in library_tables(wd):
        if e["op"] < 0x3f:
            keys.add((e["op"], tuple(e["sf"]), tuple(e["mf"]), tuple(e["df"])))
    code = lambda hl: (hl[0] << 16) | hl[1]
    solid = 1 << 16
    known = set(F.values())
    ident = [FX1, 0, 0, 0, FX1, 0, 0, 0, FX1]
    out = []
    for (op, sf, mf, df) in sorted(keys):
        sfc, mfc, dfc = code(sf), code(mf), code(df)
        if dfc not in known or (sfc != solid and sfc not in known) or (mfc not in (0, solid) and mfc not in known):
            continue
        for (dw, dh) in ((4, 2), (8, 1), (12, 3), (32, 2), (64, 1)):
            for mode in (1, 2):
                if sfc == solid:
                    sfmt, sw, sh, srep = F["a8r8g8b8"], 1, 1, 1
                else:
                    sfmt, sw, sh, srep = sfc, dw, dh, 0
                if mfc == solid:
                    mfmt, mw, mh = F["a8"], 1, 1
                elif mfc:
                    mfmt, mw, mh = mfc, dw, dh
                else:
                    mfmt, mw, mh = 0, 1, 1
                for neg in (0, 1):
                    f = [mode | 4, op, sfmt, sw, sh, neg, srep, 3] + ident + [mfmt, mw, mh, dfc, dw, dh, neg,
                                                                            0, 0, 0, 0, 0, 0, dw, dh,
                                                                            rng.randrange(1, 2 ** 31)]
                    out.append("C %d %s" % (len(f), " ".join(str(int(v)) for v in f)))
    return out


# ---- very wide / very high images -------------------------------------------------------------------------------
# The library walks sources in 16.16 fixed point: a dimension of 32768 pixels or more is not representable, 65536
# wraps to 0.  Requests on such images must be dropped or clamped, never mis-addressed.  The images are one row high
# (or one column wide) so that a pixel index that is off by a multiple of 65536 (or by the wrapped width) leaves the
# storage and meets a PROT_NONE region; sizes sit on either side of each limit of the representation.
BIG_SIZES = [32766, 32767, 32768, 40000, 65535, 65536, 65537]          # quick and thorough
BIG_SIZES_MORE = [16384, 32765, 32769, 49152, 70000, 100000, 131072]   # thorough only
BIG_N = 40                                                             # pixels of the request along the long axis
BIG_PLACES = ["left", "start", "mid", "limit", "over", "end", "last", "flush", "past"]
IDENT9 = [FX1, 0, 0, 0, FX1, 0, 0, 0, FX1]


def _swap_axes(m):
    return [m[4], m[3], m[5], m[1], m[0], m[2], m[7], m[6], m[8]]


def _clamp(v, lo, hi):
    return max(lo, min(hi, v))


def big_place(place, size, span):
    """first source pixel (along the long axis) of a request that reads `span` source pixels"""
    return {"left": -(span // 4) - 1, "start": 2, "mid": 16000,
            "limit": 32766 - span - 2,            # ends just below the largest representable coordinate
            "over": 32768 - span // 2,            # crosses it: cannot be represented, must be dropped or clamped
            "end": size - (span * 3) // 4,        # straddles the far edge of the image
            "last": size - span - 1,              # inside, at the far end
            "flush": size - span,                 # the last sample is the last pixel of the image (cover flags may be raised)
            "past": size - span + 1}[place]       # ... one pixel beyond it (they may not)


def big_geometry(tclass, place, size, k):
    """Transform and request offsets for a one-row image `size` pixels wide (the caller exchanges the axes for a
       one-column image): destination pixel i along the request samples near source pixel p0 + scale * i.
       Returns (matrix, sx, sy, along_y): along_y = the destination runs along y (rotations by 90 / 270 degrees)."""
    n = BIG_N
    frac = [0, FX1 // 2, 1, FX1 - 1][k % 4]
    m = list(IDENT9)
    sx = sy = 0
    along_y = False
    scale = {"up": FX1 // 2, "down": [2 * FX1, 3 * FX1 // 2][k % 2], "down100": 100 * FX1,
             "near1": [FX1 + 1, FX1 - 1][k % 2], "flip": -FX1, "rot180": -FX1}.get(tclass, FX1)
    span = max(1, n * abs(scale) // FX1)
    p0 = big_place(place, size, span)

    def offset(p, s):
        # p * 1.0 ~ s * sx + m02: through the request offset, through the translation of the matrix, or (when
        # neither can hold it) through the largest request offset there is
        q = (p * FX1) // s
        if (k // 4) % 2 == 0 and abs(q) <= 32000:
            return q, frac
        if -32768 <= p <= 32766:
            return 0, p * FX1 + frac
        return _clamp(q, -32700, 32700), frac

    if tclass == "id":
        sx = _clamp(p0, -32700, 32700)
    elif tclass == "trans":
        m[2], sx = 3 * FX1, _clamp(p0 - 3, -32700, 32700)
    elif tclass == "frac":
        m[2], sx = [FX1 // 2, 1, FX1 - 1, -FX1 // 2][k % 4], _clamp(p0, -32700, 32700)
    elif tclass in ("up", "down", "down100", "near1"):
        sx, m[2] = offset(p0, scale)
        m[0] = scale
        if tclass != "down100" and (k // 2) % 2:
            m[4] = scale
    elif tclass == "flip":
        sx, m[2] = offset(p0 + n, -FX1)
        m[0] = -FX1
    elif tclass == "rot180":
        sx, m[2] = offset(p0 + n, -FX1)
        m[0], m[4], m[5] = -FX1, -FX1, FX1
    elif tclass == "rot90":
        sy, t = offset(p0 + n, -FX1)
        m = [0, -FX1, t, FX1, 0, 0, 0, 0, FX1]
        along_y = True
    elif tclass == "rot270":
        sy, t = offset(p0, FX1)
        m = [0, FX1, t, -FX1, 0, FX1, 0, 0, FX1]
        along_y = True
    elif tclass == "shear":
        sx, m[2] = offset(p0, FX1)
        m[1] = [FX1 // 4, -FX1 // 2][k % 2]
    elif tclass == "proj":
        sx, m[2] = offset(p0, FX1)
        m[6] = [1, -1, FX1 // 1024][k % 3]
    else:
        raise ValueError(tclass)
    return m, sx, sy, along_y


def big_request(rng, role, size, high, op, sfmt, mkind, dfmt, rep, filt, tclass, place, mode, k):
    """one composite request whose source (role 's') or mask (role 'm') is `size` x 1 (1 x `size` if high)"""
    n = BIG_N
    m, sx, sy, along_y = big_geometry(tclass, place, size, k)
    dw, dh = (2, n) if along_y else (n, 1 + (k // 8) % 2)
    bw, bh = size, 1
    if high:
        m, sx, sy, dw, dh, bw, bh = _swap_axes(m), sy, sx, dh, dw, bh, bw
    neg = (k // 16) % 2
    if role == "s":
        if mkind == "solid":
            mfmt, mw, mh = F["a8"], 1, 1
        elif mkind:
            mfmt, mw, mh = mkind, dw, dh
        else:
            mfmt, mw, mh = 0, 1, 1
        f = [mode, op, sfmt, bw, bh, neg, rep, filt] + m + [mfmt, mw, mh, dfmt, dw, dh, (k // 32) % 2,
                                                            sx, sy, 0, 0, 0, 0, dw, dh, rng.randrange(1, 2 ** 31)]
    else:
        # the geometry attributes go to the mask (mode + 8); the source is a plain image of the destination's size
        f = [mode | 8, op, sfmt, dw, dh, neg, rep, filt] + m + [mkind, bw, bh, dfmt, dw, dh, (k // 32) % 2,
                                                                0, 0, sx, sy, 0, 0, dw, dh, rng.randrange(1, 2 ** 31)]
    return "C %d %s" % (len(f), " ".join(str(int(v)) for v in f))


def transformed_source_routes(wd):
    """(op, source format, mask kind, destination format, filter, transform class, repeat) of every fast-path table
       entry of the running library that takes a transformed BITS source: what the entry's source flags demand"""
    code = lambda hl: (hl[0] << 16) | hl[1]
    solid = 1 << 16
    known = set(F.values())
    routes = set()
    for e in library_tables(wd):
        sfl = set(e["sfl"])
        sfc, mfc, dfc = code(e["sf"]), code(e["mf"]), code(e["df"])
        if e["op"] >= 0x3f or 0 in sfl or sfc not in known or dfc not in known or (mfc not in (0, solid) and mfc not in known):
            continue
        filt = 4 if 19 in sfl else 3
        tclass = "rot90" if 20 in sfl else "rot180" if 21 in sfl else "rot270" if 22 in sfl else "scale"
        for rep, bit in ((0, 15), (1, 14), (2, 3), (3, 4)):
            if bit not in sfl:
                routes.add((e["op"], sfc, "solid" if mfc == solid else mfc, dfc, filt, tclass, rep))
    return sorted(routes, key=str)


def big_image_requests(rng, wd, quick):
    """Systematic suite over very wide / very high images (see BIG_SIZES):
       A  per fast-path table entry that takes a transformed source (C, MMX, SSE2, SSSE3 tables of every chain): the
          entry's operator / formats / filter / repeat / transform class x sizes x both orientations, guard mode;
       B  general path and scanline fetchers: formats incl. a1, a8, wide x all repeats x NEAREST / BILINEAR /
          CONVOLUTION x transforms (identity, integer and fractional translation, scale up / down / by 100, flip,
          rotations, shear, projective) x sizes, accessor and guard modes;
       C  the same image as the MASK of the request (transform, filter and repeat set on the mask);
       D  very wide / very high DESTINATIONS: composites, fill_boxes / fill_rectangles and trapezoids at the near
          end, across 32767 / 32768 and at the far end.
       Scale factor, placement of the request along the image, observation mode, stride sign and the second row of
       the destination rotate with a counter (every value meets every size); the thorough tier takes every placement
       of part A, more sizes and every format pair of parts B - D."""
    out = []
    sizes = BIG_SIZES if quick else BIG_SIZES + BIG_SIZES_MORE
    places = BIG_PLACES
    k = 0
    stats = {}

    # A
    routes = transformed_source_routes(wd)
    stats["A_routes"] = len(routes)
    for (op, sfc, mk, dfc, filt, tclass, rep) in routes:
        for size in sizes:
            for high in (0, 1):
                for place in ([places[k % len(places)]] if quick else places if size in BIG_SIZES else places[k % 3::3]):
                    tc = tclass if tclass != "scale" else ["down", "up", "near1", "down100"][(k // 2) % 4]
                    out.append(big_request(rng, "s", size, high, op, sfc, mk, dfc, rep, filt, tc, place, 1 + k % 2, k))
                    k += 1
    stats["A"] = len(out)

    # B
    pairs = [(1, F["a8"], 0, F["a8"]), (12, F["a8"], F["a8"], F["a8"]), (3, F["r5g6b5"], 0, F["a8r8g8b8"]),
             (1, F["a1"], 0, F["a1"]), (3, F["a8r8g8b8"], "solid", F["r5g6b5"]), (1, F["x2r10g10b10"], 0, F["a8r8g8b8"]),
             (3, F["a8r8g8b8"], 0, F["a8r8g8b8"]), (0x13, F["a8r8g8b8"], 0, F["x8r8g8b8"])]
    tclasses = ["id", "trans", "frac", "up", "down", "down100", "near1", "flip", "rot90", "rot180", "rot270", "shear", "proj"]
    n0 = len(out)
    for rep in (0, 1, 2, 3):
        for filt in (3, 4, 5):
            for tclass in tclasses:
                for size in sizes:
                    for pi in ([k % len(pairs)] if quick else range(len(pairs))):
                        (op, sfc, mk, dfc) = pairs[pi]
                        for place in [places[(k // 3) % len(places)]]:
                            out.append(big_request(rng, "s", size, (k // 2) % 2, op, sfc, mk, dfc, rep, filt, tclass, place,
                                                   [0, 1, 0, 2][k % 4], k))
                            k += 1
    stats["B"] = len(out) - n0

    # C
    mpairs = [(3, F["a8r8g8b8"], F["a8"], F["a8r8g8b8"]), (12, F["a8"], F["a8"], F["a8"]),
              (3, F["a8r8g8b8"], F["a8r8g8b8"], F["r5g6b5"]), (1, F["x8r8g8b8"], F["a1"], F["a8r8g8b8"])]
    n0 = len(out)
    for rep in (0, 1, 2, 3):
        for filt in (3, 4):
            for tclass in ("id", "trans", "up", "down", "flip", "rot90"):
                for size in sizes:
                    for pi in ([k % len(mpairs)] if quick else range(len(mpairs))):
                        (op, sfc, mk, dfc) = mpairs[pi]
                        for place in [places[(k // 3) % len(places)]]:
                            out.append(big_request(rng, "m", size, (k // 2) % 2, op, sfc, mk, dfc, rep, filt, tclass, place,
                                                   [1, 0, 2, 0][k % 4], k))
                            k += 1
    stats["C"] = len(out) - n0

    # D
    n0 = len(out)
    for size in sizes:
        for high in (0, 1):
            ends = [0, -3, 32760, 32767 - 4, 32768 - 4, size - 8, size - 3, 65536 - 4]
            # composites of a small / a solid source onto the big destination, and one across its whole length
            dfmts = [F["a8r8g8b8"], F["r5g6b5"], F["a8"], F["a1"]]
            for dfmt in ([dfmts[k % 4]] if quick else dfmts):
                for pos in ends + [None]:
                    op = [1, 3, 12][k % 3]
                    solid = k % 2
                    sfmt = F["a8r8g8b8"] if dfmt != F["a8"] or op != 12 else F["a8"]
                    ln = size if pos is None else 8
                    (sw, sh) = (1, 1) if solid else ((8, 1) if not high else (1, 8))
                    srep = 1 if solid or pos is None else 0
                    d = (size, 1) if not high else (1, size)
                    at = (pos or 0, 0) if not high else (0, pos or 0)
                    wh = (ln, 1) if not high else (1, ln)
                    f = [[1, 2, 0][k % 3], op, sfmt, sw, sh, 0, srep, 3] + IDENT9 + \
                        [0, 1, 1, dfmt, d[0], d[1], (k // 4) % 2, 0, 0, 0, 0, at[0], at[1], wh[0], wh[1], rng.randrange(1, 2 ** 31)]
                    out.append("C %d %s" % (len(f), " ".join(str(int(v)) for v in f)))
                    k += 1
            # fills
            for dfmt in ([dfmts[(k + 1) % 4]] if quick else dfmts):
                for pos in ends + [None]:
                    lo, hi = (0, size) if pos is None else (pos, pos + 8)
                    bx = [lo, 0, hi, 1] if not high else [0, lo, 1, hi]
                    d = (size, 1) if not high else (1, size)
                    (op, alpha) = [(1, 0xffff), (3, 0xffff), (3, 0x8000), (12, 0xffff)][k % 4]
                    f = [[1, 2, 0][k % 3], dfmt, d[0], d[1], (k // 4) % 2, op, (k // 2) % 2, 0, 1] + bx + [alpha, rng.randrange(1, 2 ** 31)]
                    out.append("B %d %s" % (len(f), " ".join(str(int(v)) for v in f)))
                    k += 1
            # trapezoids (coordinates reach 32767.99 only): at the near end, across the whole representable range, at
            # the far representable end
            afmts = [F["a8"], F["a1"], fmt4()]
            for dfmt in ([afmts[k % 3]] if quick else afmts):
                for (a, b) in ((0, 8 * FX1), (-3 * FX1, 2 ** 31 - 1), (32760 * FX1, 2 ** 31 - 1), (-(2 ** 31), 2 ** 31 - 1),
                               ((min(size, 32767) - 6) * FX1, min(size, 32767) * FX1 + 3)):
                    d = (size, 1) if not high else (1, size)
                    if not high:
                        vals = [0, FX1, a, 0, a, FX1, b, 0, b, FX1]
                    else:
                        vals = [a, b, 0, a, 0, b, FX1, a, FX1, b]
                    f = [[1, 2, 0][k % 3], dfmt, d[0], d[1], 1] + vals + [0, 0, rng.randrange(1, 2 ** 31), k % 4]
                    out.append("T %d %s" % (len(f), " ".join(str(int(v)) for v in f)))
                    k += 1
    stats["D"] = len(out) - n0
    return out, stats


def gen(rng, n):
    out = []
    fm = [F[k] for k in ("a8r8g8b8", "x8r8g8b8", "r5g6b5", "a8", "a1", "r8g8b8", "a4r4g4b4", "x2r10g10b10", "r3g3b2")]
    dfm = [F[k] for k in ("a8r8g8b8", "x8r8g8b8", "r5g6b5", "a8", "a1", "r8g8b8")]
    while len(out) < n:
        mode = rng.choice([0, 0, 1, 2])
        seed = rng.randrange(1, 2 ** 31)
        if rng.random() < 0.12:
            # trapezoids with extreme coordinates on a small alpha image
            dfmt = rng.choice([F["a8"], F["a1"], fmt4()])
            dw, dh = rng.randint(1, 12), rng.randint(1, 6)
            nt = rng.randint(1, 3)
            vals = []
            for _ in range(nt):
                def co():
                    return rng.choice([0, FX1, -FX1, 3 * FX1 + 7, 32767 * FX1 + 65535, -32768 * FX1,
                                       rng.randrange(-8 * FX1, 16 * FX1), rng.randrange(-2 ** 31, 2 ** 31)])
                top = rng.choice([0, -FX1, FX1 // 3, co()])
                bot = rng.choice([dh * FX1, top + FX1, top + 3, co()])
                vals += [top, bot, co(), co() if rng.random() < .5 else top - 5, co(), co() if rng.random() < .5 else bot + 5,
                         co(), top - 1, co(), bot + 1]
            f = [mode, dfmt, dw, dh, nt] + vals + [rng.choice([0, 0, 1, -3]), rng.choice([0, 0, 2, -1]), seed,
                                                   rng.choice([0, 1, 2, 3])]
            out.append("T %d %s" % (len(f), " ".join(str(int(x)) for x in f)))
            continue
        op = rng.choice([1, 3, 3, 12, 5, 0x13, 0x36])
        sfmt = rng.choice(fm)
        dfmt = rng.choice(dfm)
        dw, dh = rng.choice([1, 2, 7, 16, 33]), rng.randint(1, 4)
        sw, sh = rng.choice([(1, 1), (2, 1), (3, 2), (5, 4), (dw + 4, dh + 2), (40000, 1), (1, 33000), (17, 3)])
        if sw * sh > 50000 and sfmt not in (F["a8"], F["a1"]):
            sfmt = F["a8"]
        srep = rng.choice([0, 0, 1, 2, 3])
        sfilt = rng.choice([3, 3, 4, 4, 0, 2, 5])       # NEAREST, BILINEAR, FAST, BEST, CONVOLUTION
        cls = rng.choice(["id", "trans", "frac", "scale", "scale", "rot", "shear", "proj", "huge", "flip"])
        m = [FX1, 0, 0, 0, FX1, 0, 0, 0, FX1]
        if cls == "trans":
            m[2], m[5] = rng.randint(-3, 3) * FX1, rng.randint(-2, 2) * FX1
        elif cls == "frac":
            m[2], m[5] = rng.choice([1, -1, FX1 // 2, FX1 // 2 - 1, FX1 - 1, -FX1 // 2]), rng.choice([0, 1, -1, FX1 // 2])
        elif cls == "scale":
            m[0] = rng.choice([FX1 // 2, FX1 // 3, FX1 * 2, FX1 * 3 // 2, FX1 + 1, FX1 - 1, 1, 100 * FX1])
            m[4] = rng.choice([FX1, m[0]])
            m[2] = rng.choice([0, FX1 // 2, -FX1, 3])
        elif cls == "rot":
            k = rng.choice([90, 180, 270])
            if k == 90:
                m = [0, -FX1, (sh) * FX1, FX1, 0, 0, 0, 0, FX1]
            elif k == 180:
                m = [-FX1, 0, sw * FX1, 0, -FX1, sh * FX1, 0, 0, FX1]
            else:
                m = [0, FX1, 0, -FX1, 0, sw * FX1, 0, 0, FX1]
        elif cls == "shear":
            m[1] = rng.choice([FX1 // 4, -FX1 // 2, FX1])
            m[3] = rng.choice([0, FX1 // 8])
        elif cls == "proj":
            m[6] = rng.choice([FX1 // 64, -FX1 // 64, FX1 // 4, -FX1 // 4, 1])
            m[7] = rng.choice([0, FX1 // 64, -FX1 // 16])
            m[8] = rng.choice([FX1, FX1 // 2, 0, -FX1])
        elif cls == "huge":
            m[0] = rng.choice([32767 * FX1, -32768 * FX1, 2 ** 31 - 1, 20000 * FX1])
            m[2] = rng.choice([0, 32767 * FX1, -(2 ** 31), 2 ** 31 - 1])
            m[5] = rng.choice([0, 2 ** 31 - 1])
        elif cls == "flip":
            m[0], m[2] = -FX1, sw * FX1
        mfmt = rng.choice([0, 0, F["a8"], F["a1"], F["a8r8g8b8"]])
        mw, mh = dw + 2, dh + 1
        w, h = rng.randint(1, dw + 2), rng.randint(1, dh + 1)
        dx, dy = rng.randint(-2, dw), rng.randint(-1, dh)
        sx, sy = rng.randint(-3, 6), rng.randint(-2, 3)
        if rng.random() < 0.1:
            w, h, dx = 40000, 2, -20000
        f = [mode, op, sfmt, sw, sh, rng.choice([0, 0, 1]), srep, sfilt] + m + [mfmt, mw, mh, dfmt, dw, dh,
                                                                                rng.choice([0, 0, 1]), sx, sy,
                                                                                rng.randint(0, 2), 0, dx, dy, w, h, seed]
        out.append("C %d %s" % (len(f), " ".join(str(int(x)) for x in f)))
    return out


def fmt4():
    return (4 << 24) | (1 << 16) | (4 << 12)      # PIXMAN_a4


def run(prop, args):
    chk = vf.Check(prop, args.tier, args.seed)
    quick = args.tier == "quick"
    rng = random.Random(args.seed * 4001 + 4)
    wd = vf.workdir("bounds")
    base = os.path.join(vf.SPEC, "mc")
    r = vf.tlc_mc(os.path.join(base, "BoundsMC.tla"), cfg=os.path.join(base, "BoundsMC.cfg"), workers=8)
    chk.add_tlc(r, "model check BoundsMC (cover test => all samples inside)")
    if "violated" in r.out:
        raise vf.Infra("BoundsMC violated:\n" + r.out[-2000:])
    rn = vf.tlc_mc(os.path.join(base, "BoundsMC.tla"), cfg=os.path.join(base, "BoundsMC_neg.cfg"), workers=4,
                   expect_violation=True)
    chk.add_tlc(rn, "negative config (<= width; must be rejected)")
    rw = vf.tlc_mc(os.path.join(base, "BoundsMC.tla"), cfg=os.path.join(base, "BoundsMC_negw.cfg"), workers=4,
                   expect_violation=True)
    chk.add_tlc(rw, "negative config (size refusal limited to repeating images; must be rejected)")
    if "WidthSound" not in rw.out:
        raise vf.Infra("BoundsMC_negw rejected for another reason than WidthSound:\n" + rw.out[-1500:])

    exe, px = vf.build_driver("drv_bounds", "plain")
    chk.extra["build"] = px["hash"]
    reqs = gen(rng, 700 if quick else 200000)
    cov = cover_boundary(rng)
    reqs += cov if not quick else rng.sample(cov, 900)
    chk.extra["cover_boundary_requests"] = len(cov)
    fills = fill_requests(rng)
    reqs += fills if not quick else rng.sample(fills, 700)
    chk.extra["fill_requests"] = len(fills)
    blits = blit_like(rng)
    reqs += blits if not quick else rng.sample(blits, 500)
    chk.extra["blit_like_requests"] = len(blits)
    edge = edge_aligned_trapezoids(rng)
    reqs += edge if not quick else rng.sample(edge, 700)
    chk.extra["edge_aligned_trapezoid_requests"] = len(edge)
    full = full_range_trapezoids(rng)
    reqs += full if not quick else rng.sample(full, 300)
    chk.extra["full_range_trapezoid_requests"] = len(full)
    ext = extreme_row_trapezoids(rng)
    reqs += ext
    chk.extra["extreme_row_trapezoid_requests"] = len(ext)
    tight = tight_table_requests(rng, wd)
    reqs += tight if (not quick or len(tight) <= 1500) else rng.sample(tight, 1500)
    chk.extra["tight_fast_path_table_requests"] = len(tight)
    big, bigstats = big_image_requests(rng, wd, quick)
    reqs += big
    chk.extra["big_image_requests"] = len(big)
    chk.extra["big_image_suite"] = bigstats
    chk.sample({"request_script_lines": reqs[:2]})
    configs = CONFIGS[:3] if quick else CONFIGS
    traces = []
    nb = 4 if quick else 24
    for ci, dis in enumerate(configs):
        for b in range(nb):
            part = reqs[b::nb]
            sp = os.path.join(wd, "c%d_%d.script" % (ci, b))
            open(sp, "w").write("\n".join(part) + "\n")
            tr = os.path.join(wd, "c%d_%d.ndjson" % (ci, b))
            env = dict(os.environ)
            env["PIXMAN_DISABLE"] = dis
            vf.run_driver([exe, sp, tr], tr, env={"PIXMAN_DISABLE": dis}, timeout=900)
            traces.append(tr)
            for line in open(tr):
                if line.startswith('{"e":"Done"'):
                    chk.evaluations += 1
                elif line.startswith('{"e":"Dispatch"'):
                    if ",23" in line or ",24" in line:
                        chk.extra["dispatches_with_cover_flag"] = chk.extra.get("dispatches_with_cover_flag", 0) + 1
                    chk.distinct_keys.add(hash(line))
    chk.extra["configurations"] = configs
    vf.validate_batches(chk, "BoundsTrace", traces, cfg=os.path.join(vf.SPEC, "trace", "BoundsTrace.cfg"),
                        parallel=12, timeout=1500)
    for v in chk.violations:
        pass
    chk.extra["rule"] = ("evaluations = requests completed; distinct non-trivial = distinct (extents, flag sets) "
                         "dispatches observed")
    chk.assumptions += ["accesses of the general path are observed through pixman's accessor callbacks; fast paths "
                        "cannot run with accessors and are observed only through the guard regions (an access inside "
                        "the storage but outside the rows a request may read is not detected there)",
                        "the cover flags (source and mask) are evaluated at full resolution for affine matrices with "
                        "entries <= 16.0 and extents / request offsets within the 16-bit range (split arithmetic, "
                        "BoundsMC!SplitExact); a pixel index that is wrong but stays inside the rows of a very wide image "
                        "is not detected in guard mode (the images of the big-image suite are one row / one column so "
                        "that an error of the wrapped width or of 65536 pixels leaves the storage)"]
    return chk.finish()
