# C19 / C03: blt, fill, fill_boxes and the frame condition of every drawing entry point, against
# spec/Composite.tla.
#   MC   spec/mc/FillMC        byte-buffer algebra of Fill/Blt/FrameOK vs a per-pixel reading (C19)
#        spec/mc/CompositeMC   CompositeRegion vs the pointwise definition of the statement (C03)
#   GEN  spec/gen/CompositeGen TLC-generated behaviours (image configuration + requests) replayed under
#                              coordinate embeddings                                           (C03)
#   RND  seeded scripts        depth/alignment/stride sweeps, formats x operators x colours, glyphs, traps
#   TV   spec/trace/CompositeTrace   every recorded call validated by TLC
import json
import os
import random

import vf

PROPS = {"C19": "C19", "C03": "C03"}

CLAIMS = {
    "C19": dict(
        technique="TLA+ Composite spec (byte-buffer model of blt/fill, fill_boxes = compositing a solid): TLC model "
                  "checking of the buffer algebra + trace validation by TLC of sweeps on the real library under four "
                  "implementation chains",
        text="spec/Composite.tla models storage as the byte sequence of the whole allocation (guard bytes and row padding "
             "included) with pixman's little-endian bit layout for 1/4/8/16/24/32 bpp. TLC checks the byte-level result "
             "functions against a per-pixel reading exhaustively on a 2-row buffer (off-by-one-width model rejected). "
             "On the real library pixman_fill/pixman_blt are swept over depth, x, width, alignment, stride (padded, "
             "negative) and height under PIXMAN_DISABLE chains; TLC requires: TRUE and exactly the rectangle set/copied, "
             "or FALSE and every byte unchanged. pixman_image_fill_boxes/_rectangles: TLC requires the logged buffer to "
             "equal, on every channel bit, the buffer obtained by pixman_image_composite32 with a solid source per box on "
             "a twin destination, no bit to change outside boxes-in-clip-in-bounds, and for SRC/opaque OVER/CLEAR the "
             "pixel value the statement's colour->pixel rule gives. Evidence counts TRUE returns per depth and chain. " + 'pixman_blt within one buffer (flip about a line, spread / pack lines, disjoint scroll, copy onto itself) is judged by Composite!BltInPlace.' + "",
        ref="5 C19"),
    "C03": dict(
        technique="TLA+ Composite spec (composite region as Region-algebra intersection; bit-granular frame condition): "
                  "TLC model checking vs the pointwise definition + TLC-generated behaviours replayed + trace validation",
        text="CompositeRegion is the intersection (spec/Region.tla algebra) of request rectangle, destination bounds, "
             "destination clip, destination alpha-map bounds at its origin and source/mask clips enabled for sources, "
             "translated by dest-src. TLC checks it exhaustively against the pointwise definition on a 3x2 destination "
             "(three wrong models rejected). TLC-generated configurations/requests are replayed on the real library under "
             "near and far coordinate embeddings, plus seeded scenarios (a1/a4/24bpp destinations, alpha maps, glyphs, "
             "trapezoids); TLC validates that pixman_compute_composite_region reports exactly that region and FALSE iff "
             "empty, and that every drawing entry point changes no bit of the logged allocation (guard bytes, row "
             "padding, sub-byte neighbours, alpha-map buffer) outside the region's pixels. " + 'Every third composite request whose arguments fit goes through pixman_image_composite, the 16-bit entry point. ' + 'The clip of a source\'s or mask\'s alpha map, when enabled for sources on the alpha-map image, takes part placed at the alpha origin (Composite!ClipByAlphaMap; role x origin x flags x own clips). Extra stage: the root specification spec/Pixman.tla (pool of regions + pool of images with formats, masks, repeat modes, integer translations, fills, reference counts) - PixmanSysMC explores its call histories with eight relations evaluated in every state and two negative configurations, and generated histories are replayed and validated pixel for pixel (PixmanTrace).' + "",
        ref="5 C03"),
}

CHAINS = ["", "sse2 ssse3", "mmx sse2 ssse3", "fast mmx sse2 ssse3"]

OPS_BASIC = ["CLEAR", "SRC", "DST", "OVER", "OVER_REVERSE", "IN", "IN_REVERSE", "OUT", "OUT_REVERSE", "ATOP",
             "ATOP_REVERSE", "XOR", "ADD", "SATURATE"]
OPS_ALL = OPS_BASIC + [
    "DISJOINT_CLEAR", "DISJOINT_SRC", "DISJOINT_DST", "DISJOINT_OVER", "DISJOINT_OVER_REVERSE", "DISJOINT_IN",
    "DISJOINT_IN_REVERSE", "DISJOINT_OUT", "DISJOINT_OUT_REVERSE", "DISJOINT_ATOP", "DISJOINT_ATOP_REVERSE", "DISJOINT_XOR",
    "CONJOINT_CLEAR", "CONJOINT_SRC", "CONJOINT_DST", "CONJOINT_OVER", "CONJOINT_OVER_REVERSE", "CONJOINT_IN",
    "CONJOINT_IN_REVERSE", "CONJOINT_OUT", "CONJOINT_OUT_REVERSE", "CONJOINT_ATOP", "CONJOINT_ATOP_REVERSE", "CONJOINT_XOR",
    "MULTIPLY", "SCREEN", "OVERLAY", "DARKEN", "LIGHTEN", "COLOR_DODGE", "COLOR_BURN", "HARD_LIGHT", "SOFT_LIGHT",
    "DIFFERENCE", "EXCLUSION", "HSL_HUE", "HSL_SATURATION", "HSL_COLOR", "HSL_LUMINOSITY"]

BPP = {"a8r8g8b8": 32, "x8r8g8b8": 32, "a8b8g8r8": 32, "x8b8g8r8": 32, "b8g8r8a8": 32, "b8g8r8x8": 32, "r8g8b8a8": 32,
       "r8g8b8x8": 32, "x14r6g6b6": 32, "a2r10g10b10": 32, "x2r10g10b10": 32, "a2b10g10r10": 32, "x2b10g10r10": 32,
       "r8g8b8": 24, "b8g8r8": 24, "r5g6b5": 16, "b5g6r5": 16, "a1r5g5b5": 16, "x1r5g5b5": 16, "a4r4g4b4": 16,
       "x4b4g4r4": 16, "a8": 8, "r3g3b2": 8, "a2r2g2b2": 8, "x4a4": 8, "a4": 4, "r1g2b1": 4, "a1r1g1b1": 4, "a1": 1,
       "rgba_float": 128, "rgb_float": 96,
       "a8r8g8b8_sRGB": 32, "a1b5g5r5": 16, "x1b5g5r5": 16, "x4r4g4b4": 16, "a4b4g4r4": 16, "b2g3r3": 8, "a2b2g2r2": 8,
       "b1g2r1": 4, "a1b1g1r1": 4, "c8": 8, "g8": 8, "c4": 4, "g4": 4, "g1": 1}
# every destination format of pixman.h (x4c4 / x4g4 share the codes of c8 / g8; yuy2 / yv12 cannot be destinations)
ALL_FORMATS = sorted(BPP, key=lambda f: (-BPP[f], f))
DIRECT = ["a8r8g8b8", "x8r8g8b8", "a8b8g8r8", "x8b8g8r8", "b8g8r8a8", "b8g8r8x8", "r8g8b8a8", "r8g8b8x8", "r5g6b5",
          "b5g6r5", "a8", "a1"]
CHANVALS = [0, 0x00ff, 0x0100, 0x7fff, 0x8000, 0xff00, 0xffff]


def min_stride(fmt, w):
    return ((w * BPP[fmt] + 31) // 32) * 4


# ------------------------------------------------------------------------------------------
# C19 scripts

def fill_scenarios(rng, quick):
    """pixman_fill / pixman_blt sweeps.  Each scenario: one raw buffer pair, ~24 calls."""
    execs = []
    k = 0
    per_bpp = 9 if quick else 260
    for bpp in (1, 4, 8, 16, 24, 32):
        for si in range(per_bpp):
            lines = ["R fill%d_%d" % (bpp, k)]
            k += 1
            big = (si % 5 == 4)               # wide rows: the 64/128-byte loops of the SIMD fills
            maxpx = {1: 200, 4: 60, 8: 170, 16: 90, 24: 20, 32: 44}[bpp] if big else 41
            rowbits = maxpx * 2 * bpp
            minwords = (rowbits + 31) // 32
            pad = rng.choice([0, 0, 1, 2, 3])
            sw = minwords + pad                # stride in uint32 units
            rows = 4
            neg = rng.random() < 0.25
            base = rng.choice([16, 20, 24, 28, 32, 36, 48, 64])      # byte offset of row 0; allocation is 64-aligned
            dlen = base + rows * sw * 4 + 32
            boff = base + (rows - 1) * sw * 4 if neg else base
            stride = -sw if neg else sw
            lines.append("B %d %d %d" % (dlen, dlen, rng.randrange(1 << 30)))
            ncalls = 24 if quick else 30
            for _ in range(ncalls):
                kind = rng.random()
                h = rng.choice([0, 1, 1, 2, 3])
                y = rng.randint(0, rows - h) if h else rng.randint(0, rows - 1)
                if big and rng.random() < 0.7:
                    x = rng.randint(0, 20)
                    w = rng.randint(max(0, maxpx - 25), maxpx)
                else:
                    x = rng.randint(0, 40)
                    w = rng.choice([0, 1, 2, 3]) if rng.random() < 0.2 else rng.randint(0, 40)
                if (x + w) * bpp > sw * 32:
                    w = max(0, (sw * 32) // bpp - x)
                if kind < 0.62:
                    v = rng.choice([0, 0xffffffff, 0x00000001, 0x80000000, rng.getrandbits(32), rng.getrandbits(32)])
                    lines.append("fill %d %d %d %d %d %d %d %d %d" % (bpp, stride, boff, x, y, w, h, v >> 16, v & 0xffff))
                else:
                    sbpp = bpp if rng.random() < 0.85 else rng.choice([b for b in (1, 4, 8, 16, 24, 32) if b != bpp])
                    sx = rng.randint(0, 40)
                    if (sx + w) * sbpp > sw * 32:
                        sx = max(0, (sw * 32) // sbpp - w)
                        if (sx + w) * sbpp > sw * 32:
                            w = 0
                    sy = rng.randint(0, rows - h) if h else 0
                    # the source buffer uses the same geometry (positive stride, its own base)
                    lines.append("blt %d %d %d %d %d %d %d %d %d %d %d %d" %
                                 (sbpp, bpp, sw, stride, base, boff, sx, sy, x, y, w, h))
            execs.append(lines)
    return execs


def inplace_blt_scenarios(rng, quick):
    """pixman_blt within one buffer (Composite!BltInPlace): flipping a frame about a line (negated stride, same origin),
       spreading / packing its lines (different strides, same origin), scrolling to a disjoint place (same strides).
       The caller's precondition - a source row is the very destination row or touches none - is established here
       and asserted before a call is emitted."""
    execs = []
    k = 0
    for bpp in (32, 16, 8, 24, 1):
        for variant in ("flip", "spread", "pack", "scroll", "same"):
            for rep in range(1 if quick else 6):
                S = rng.choice([2, 3, 5])                 # words per destination row
                P = (32 * S) // bpp
                rows = 3
                mid = 64 + 4 * S * 12
                dlen = mid + 4 * S * 14 + 64
                lines = ["R bin%d_%s_%d" % (bpp, variant, k), "B %d %d %d" % (dlen, 16, rng.randrange(1 << 30))]
                k += 1
                for _ in range(6 if quick else 10):
                    h = rng.choice([1, 2, 2, 3, 3])
                    x = rng.randint(0, min(5, P - 1))
                    w = rng.choice([0, 1, 2, P - x, max(0, P - x - 1), rng.randint(0, P - x)])
                    w = max(0, min(w, P - x))
                    if variant == "flip":
                        c = (bpp, bpp, -S, S, mid, mid, x, 0, x, 0, w, h)
                    elif variant == "spread":            # source lines far apart, packed together at the origin
                        c = (bpp, bpp, S * rng.choice([3, 4]), S, mid, mid, x, 0, x, 0, w, h)
                    elif variant == "pack":              # source lines adjacent, spread apart from the origin on
                        c = (bpp, bpp, S, S * rng.choice([3, 4]), mid, mid, x, 0, x, 0, w, h)
                    elif variant == "same":              # a copy onto itself (equal strides): nothing may change
                        c = (bpp, bpp, S, S, mid, mid, x, 0, x, 0, w, h)
                    else:                                # scroll by more than the height
                        c = (bpp, bpp, S, S, mid, mid, x, rng.choice([3, 4, 5]), rng.randint(0, min(5, P - w)), 0, w, h)
                    sb, db, ss, ds, so, do, sx, sy, dx, dy, w, h = c
                    dsp = [(8 * (do + (dy + j) * ds * 4) + dx * db, 8 * (do + (dy + j) * ds * 4) + (dx + w) * db) for j in range(h)]
                    ssp = [(8 * (so + (sy + j) * ss * 4) + sx * sb, 8 * (so + (sy + j) * ss * 4) + (sx + w) * sb) for j in range(h)]
                    apart = lambda a, b: a[1] <= b[0] or b[1] <= a[0] or a[0] == a[1] or b[0] == b[1]
                    assert all(0 <= a and b <= 8 * dlen for a, b in dsp + ssp), c
                    assert all((j == i and ssp[j] == dsp[i]) or apart(ssp[j], dsp[i]) for j in range(h) for i in range(h)), c
                    assert all(apart(dsp[i], dsp[j]) for i in range(h) for j in range(i)), c
                    lines.append("blti " + " ".join(map(str, c)))
                execs.append(lines)
    return execs


def all_format_scenarios(rng, quick):
    """fill_boxes / fill_rectangles against compositing on EVERY destination format pixman can create (the whole list
       of pixman.h: sRGB, 10-bit, float, 24-bit, 4/2/1-bit channels, palette formats), for the operators that may take the
       direct-fill shortcut and for others, with mid-range colour channels (where a transfer function or a
       palette shows)."""
    execs = []
    k = 0
    for fmt in ALL_FORMATS:
        for rep in range(1 if quick else 4):
            w, h = (6, 3) if BPP[fmt] >= 64 else (9, 4)
            st = min_stride(fmt, w)
            if BPP[fmt] == 128:
                st = (st + 15) // 16 * 16
            lines = ["R af_%s_%d" % (fmt, k)]
            k += 1
            lines.append("D %s %d %d %d %d %d %d" % (fmt, w, h, st, 16, 32, rng.randrange(1 << 30)))
            lines.append("C -1" if (k + rep) % 3 else "C 2 0 0 5 %d 6 1 %d %d" % (h, w, h))
            lines.append("S")
            mid = [0x8000, 0x4000, 0x2000]
            calls = [("SRC", mid + [0xffff]), ("OVER", [0x4000, 0x8000, 0xc000, 0xffff]), ("CLEAR", mid + [0x8000]),
                     ("SRC", [0x3000, 0x1000, 0x2000, 0x4000]), ("OVER", [0x2000, 0x3000, 0x1000, 0x8000]),
                     ("ADD", [0x1000, 0x2000, 0x0800, 0x3000]), ("SRC", [rng.choice(CHANVALS[1:]) for _ in range(3)] + [0xffff]),
                     (rng.choice(["IN", "XOR", "ATOP", "SCREEN", "DISJOINT_OVER"]), colour(rng))]
            boxes = [[0, 0, w // 2, h], [w // 2, 0, w, h - 1], [1, 1, w - 1, h], [0, 0, w, h], [2, 0, w, h], [0, 0, w - 1, h],
                     [-1, -1, w + 1, 2], [1, 0, w, h]]
            for i, (op, col) in enumerate(calls):
                b = boxes[i]
                if i % 3 == 2:
                    lines.append("fillrects %s %s 1 %d %d %d %d" % (op, " ".join(map(str, col)), max(b[0], 0), max(b[1], 0),
                                                                  b[2] - max(b[0], 0), b[3] - max(b[1], 0)))
                else:
                    lines.append("fillboxes %s %s 1 %s" % (op, " ".join(map(str, col)), " ".join(map(str, b))))
            execs.append(lines)
    return execs


def far_boxes(w, h):
    """boxes whose coordinates a composite request cannot carry (beyond 16 bits, near the int32 limits), empty and
       inverted ones; as [x1, y1, x2, y2]"""
    B = 1 << 30
    M = (1 << 31) - 1
    return [[-40000, -40000, 40000, 40000], [2, 1, 40000, h - 1], [-70000, 0, w - 2, 2], [1, -32769, w, 32768],
            [0, 0, 32768, 1], [-32768, -32768, 32767, 32767], [-B - 5, -B - 5, B + 5, B + 5], [0, 0, M, M],
            [-M, -M, 3, 2], [-M, -M, M, M], [1, 1, M, 2], [w - 1, -B, w + B, h], [40000, 0, 80000, h],
            [-80000, -80000, -40000, -40000], [B, B, M, M],
            [3, 1, 3, h], [1, 2, w, 2], [w, h, w, h], [5, 4, 2, 1], [40000, 0, -40000, h], [M, M, -M, -M]]


def far_box_scenarios(rng, quick, formats):
    """fill_boxes / fill_rectangles with boxes beyond +-32767 and beyond +-2^30, empty and inverted boxes, alone and mixed
       with ordinary boxes in one call, for shortcut and non-shortcut operators, with and without a clip region;
       fill_rectangles (int16 x, y; uint16 width, height) with rectangles ending beyond 32767."""
    execs = []
    k = 0
    ops = [("SRC", None), ("CLEAR", None), ("OVER", 0xffff), ("OVER", 0x8000), ("ADD", None), ("IN", 0x4000), ("XOR", 0xc000),
           ("OUT_REVERSE", 0x8000), ("DISJOINT_OVER", 0x8000), ("MULTIPLY", 0xffff)]
    for fmt in formats:
        for clip in (None, [[1, 0, 4, 3], [5, 1, 9, 4]], [[-50000, 1, 50000, 3]]):
            w, h = (10, 4)
            st = min_stride(fmt, w)
            if BPP[fmt] == 128:
                st = (st + 15) // 16 * 16
            lines = ["R fb_far_%s_%d" % (fmt, k)]
            k += 1
            lines.append("D %s %d %d %d %d %d %d" % (fmt, w, h, st, 16 + (4 * (k % 4) if BPP[fmt] != 128 else 0), 32, rng.randrange(1 << 30)))
            lines.append("C -1" if clip is None else "C %d %s" % (len(clip), " ".join(str(c) for b in clip for c in b)))
            lines.append("S")
            fars = far_boxes(w, h)
            if quick:
                fars = rng.sample(fars[:15], 8) + rng.sample(fars[15:], 3)
            for i, fb in enumerate(fars):
                for op, alpha in ([ops[i % 3], ops[3 + (i + k) % 7]] if quick else ops):
                    col = colour(rng)
                    col = [c or 0x4000 for c in col]
                    if alpha is not None:
                        col[3] = alpha
                    n = rng.choice([1, 1, 2, 3])
                    boxes = [fb] + [near_box(rng, w, h) if rng.random() < 0.6 else rng.choice(far_boxes(w, h)) for _ in range(n - 1)]
                    rng.shuffle(boxes)
                    lines.append("fillboxes %s %s %d %s" % (op, " ".join(map(str, col)), n, " ".join(str(c) for b in boxes for c in b)))
            # fill_rectangles: x, y in int16, width, height in uint16
            rects = [[-32768, -32768, 65535, 65535], [0, 0, 65535, 65535], [2, 1, 40000, 2], [-5, 0, 32773, h], [w - 1, 0, 65535, 1],
                     [32767, 0, 65535, 65535], [-32768, 1, 32768, 1], [0, h - 1, 32768, 40000], [1, 1, 0, 50000], [3, 0, 60000, 0]]
            for i, rc in enumerate(rects if not quick else rng.sample(rects, 6)):
                for op, alpha in ([ops[i % 3], ops[3 + (i + k) % 7]] if quick else ops):
                    col = [c or 0x4000 for c in colour(rng)]
                    if alpha is not None:
                        col[3] = alpha
                    n = rng.choice([1, 2])
                    rs = [rc]
                    if n == 2:
                        b = near_box(rng, w, h)
                        rs.append([b[0], b[1], max(0, b[2] - b[0]), max(0, b[3] - b[1])])
                        rng.shuffle(rs)
                    lines.append("fillrects %s %s %d %s" % (op, " ".join(map(str, col)), n, " ".join(str(c) for r in rs for c in r)))
            execs.append(lines)
    return execs


def fill_structure_scenarios(rng, quick):
    """pixman_fill / pixman_blt along the structure of the fill code: for every depth x stride (1..3 words and a large
       one) x x in {0, 1, word boundary -1/0/+1} x width {ending at each of the last 10 positions of the scanline, the
       whole scanline, 0..3, word boundary -1/0/+1} x height {1, 2, 3} x positive / negative stride, with a guard row above
       and below and guard bytes around.  ("Complete scanlines are contiguous" and the per-row head/tail steps are where
       the implementations special-case.)"""
    execs = []
    k = 0
    for bpp in (1, 8, 16, 32, 4, 24):
        supported = bpp in (1, 8, 16, 32)
        for sw in ((1, 2, 3, 9) if supported else (2,)):
            P = (32 * sw) // bpp                       # pixels per scanline
            wb = max(1, 32 // bpp)                     # pixels per 32-bit word
            for neg in (False, True):
                xs = sorted(set(x for x in (0, 1, wb - 1, wb, wb + 1) if 0 <= x < P))
                if neg or not supported:
                    xs = [x for x in xs if x <= 1]
                for x in xs:
                    ends = set(range(max(x, P - 9), P + 1))             # x + w: the last byte / word of the scanline
                    ws = set(e - x for e in ends) | {0, 1, 2, 3} | {wb - 1, wb, wb + 1} | {2 * wb - x, 2 * wb - x + 1}
                    ws = sorted(w for w in ws if 0 <= w and x + w <= P)
                    if quick and x > 1:
                        ws = [w for w in ws if x + w >= P - 9 or w <= 1]
                    rows = 5
                    base = rng.choice([16, 20, 24, 28])
                    dlen = base + rows * sw * 4 + 16
                    boff = base + (rows - 1) * sw * 4 if neg else base
                    stride = -sw if neg else sw
                    lines = ["R fs%d_%d_%s_x%d_%d" % (bpp, sw, "n" if neg else "p", x, k), "B %d %d %d" % (dlen, dlen, rng.randrange(1 << 30))]
                    k += 1
                    n = 0
                    for w in ws:
                        for h in ((1, 2, 3) if (x <= 1 or not quick) else (2,)):
                            v = rng.getrandbits(32) | (rng.getrandbits(1))
                            if bpp == 1:
                                v = rng.getrandbits(1)
                            lines.append("fill %d %d %d %d %d %d %d %d %d" % (bpp, stride, boff, x, 1, w, h, v >> 16, v & 0xffff))
                            n += 1
                            if n % 24 == 0:          # fresh random contents, so that a stray write stays visible
                                lines.append("B %d %d %d" % (dlen, dlen, rng.randrange(1 << 30)))
                    execs.append(lines)
                    # blt between buffers of the same geometry (rows contiguous on both sides) and with a wider source
                    if bpp in (16, 32) or (bpp == 8 and sw == 2 and not neg):
                        lines = ["R bs%d_%d_%s_x%d_%d" % (bpp, sw, "n" if neg else "p", x, k), "B %d %d %d" % (dlen, dlen + 5 * 8, rng.randrange(1 << 30))]
                        k += 1
                        n = 0
                        for w in ws:
                            if quick and not (x + w >= P - 3 or w <= 1):
                                continue
                            for h in (1, 2, 3):
                                for ssw, sx in ((sw, x), (sw, 0), (sw + 2, 1)):
                                    if sx + w > (32 * ssw) // bpp or (quick and ssw != sw and h == 1):
                                        continue
                                    lines.append("blt %d %d %d %d %d %d %d %d %d %d %d %d" %
                                                 (bpp, bpp, ssw, stride, base, boff, sx, 1, x, 1, w, h))
                                    n += 1
                                    if n % 24 == 0:
                                        lines.append("B %d %d %d" % (dlen, dlen + 5 * 8, rng.randrange(1 << 30)))
                        execs.append(lines)
    return execs


def colour(rng):
    c = [rng.choice(CHANVALS) for _ in range(4)]
    r = rng.random()
    if r < 0.35:
        c[3] = 0xffff
    elif r < 0.45:
        c[3] = 0
    return c


def near_box(rng, w, h, allow_out=True):
    """a box inside, straddling or just outside a w x h image (at most 2 pixels beyond any edge)"""
    lo = -2 if allow_out else 0
    xs = sorted([rng.randint(lo, w + (2 if allow_out else 0)) for _ in range(2)])
    ys = sorted([rng.randint(lo, h + (2 if allow_out else 0)) for _ in range(2)])
    r = rng.random()
    if r < 0.08:
        return [w, rng.randint(0, h), w + 2, h + 1]          # wholly right of the image
    if r < 0.14:
        return [rng.randint(0, w), h, w, h + 2]              # wholly below
    if r < 0.18:
        return [-2, 0, 0, h]                                 # wholly left
    if xs[0] == xs[1] and rng.random() < 0.7:
        xs[1] += 1
    if ys[0] == ys[1] and rng.random() < 0.7:
        ys[1] += 1
    return [xs[0], ys[0], xs[1], ys[1]]


def dst_geometry(rng, fmt, maxbytes=360):
    bpp = BPP[fmt]
    for _ in range(100):
        w = rng.choice([1, 2, 3, 4, 5, 7, 8, 9, 13, 16, 17, 31, 33, 40])
        h = rng.randint(1, 5)
        st = min_stride(fmt, w) + (16 if bpp == 128 else 4) * rng.choice([0, 0, 1, 2])
        if h * st <= maxbytes:
            break
    else:
        w, h, st = 2, 2, min_stride(fmt, 2)
    # guards large enough that a write up to two rows / two pixels outside stays inside the logged allocation
    gb = 2 * st + 16 + 4 * rng.randint(0, 3)
    ga = 2 * st + 32
    return w, h, st, gb, ga


def fillboxes_scenarios(rng, quick, formats, nper):
    execs = []
    k = 0
    ops_cycle = list(OPS_ALL)
    for fmt in formats:
        for si in range(nper):
            w, h, st, gb, ga = dst_geometry(rng, fmt)
            lines = ["R fb_%s_%d" % (fmt, k)]
            k += 1
            lines.append("D %s %d %d %d %d %d %d" % (fmt, w, h, st, gb, ga, rng.randrange(1 << 30)))
            r = rng.random()
            if r < 0.45:
                lines.append("C -1")
            else:
                n = rng.choice([0, 1, 1, 2, 3])
                boxes = []
                for _ in range(n):
                    boxes += near_box(rng, w, h)
                lines.append("C %d %s" % (n, " ".join(map(str, boxes))))
            lines.append("S")
            for ci in range(7 if quick else 10):
                rr = rng.random()
                if rr < 0.45:
                    op = rng.choice(["SRC", "OVER", "CLEAR"])
                else:
                    op = ops_cycle[(k * 11 + ci * 7 + si) % len(ops_cycle)]
                col = colour(rng)
                n = rng.choice([0, 1, 1, 1, 2, 3, 7 if ci == 3 else 2])
                if rng.random() < 0.3:
                    vals = []
                    for _ in range(n):
                        b = near_box(rng, w, h)
                        vals += [b[0], b[1], max(0, b[2] - b[0]), max(0, b[3] - b[1])]
                    lines.append("fillrects %s %s %d %s" % (op, " ".join(map(str, col)), n, " ".join(map(str, vals))))
                else:
                    vals = []
                    for _ in range(n):
                        vals += near_box(rng, w, h)
                    # boxes far outside / beyond what a composite request can carry
                    if n and rng.random() < 0.3:
                        vals[0:4] = rng.choice([[-100000, -5, 100000, 2], [1000, 1000, 2000, 2000],
                                                [-(1 << 30), -(1 << 30), (1 << 30), (1 << 30)], [w - 1, -70000, w + 70000, 1]])
                    lines.append("fillboxes %s %s %d %s" % (op, " ".join(map(str, col)), n, " ".join(map(str, vals))))
            execs.append(lines)
    return execs


# ------------------------------------------------------------------------------------------
# C03 scripts

GEN_DW, GEN_DH = 4, 3
FRAME_FORMATS_QUICK = ["a1", "a4", "r8g8b8", "r5g6b5", "a8r8g8b8", "a8"]
FRAME_FORMATS_ALL = FRAME_FORMATS_QUICK + ["x8r8g8b8", "b8g8r8a8", "a8b8g8r8", "r3g3b2", "a1r1g1b1", "a1r5g5b5",
                                           "a2r10g10b10", "b8g8r8", "x4a4", "r1g2b1"]
A_FORMATS = ["a1", "a4", "a8"]
GLYPHS = [(0, "a8", 3, 3, 1, 1), (1, "a8", 5, 2, 0, 2), (2, "a1", 4, 4, 2, 0), (3, "a8r8g8b8", 2, 3, 0, 0),
          (4, "a8", 1, 1, 0, 0), (5, "a4", 3, 2, -1, 1)]


def tlc_behaviours(n, depth, seed):
    path = os.path.join(vf.SPEC, "gen", "CompositeGen.tla")
    cfg = os.path.join(vf.workdir("cgen"), "CompositeGen.cfg")
    open(cfg, "w").write("SPECIFICATION GenSpec\nCONSTANTS\n  DW = %d\n  DH = %d\n  Depth = %d\nINVARIANT Emit\n"
                         % (GEN_DW, GEN_DH, depth))
    per = max(1, n // 4)
    r = vf.run_tlc(path, cfg=cfg, workers=4, timeout=600,
                   extra=["-generate", "num=%d" % per, "-depth", str(depth + 8), "-seed", str(seed)], tag="cgen")
    behs = [json.loads(json.loads(b)) for b in r.vf("behaviour")]
    if not behs:
        raise vf.Infra("CompositeGen produced no behaviours:\n" + r.out[-2000:])
    return behs, r


def embedding(rng, size, absn, far):
    """monotone map of abstract coordinates -2 .. absn+2 to real ones; 0 -> 0, absn -> size"""
    inner = sorted(rng.sample(range(1, size), absn - 1))
    if far:
        lo2, lo1 = rng.choice([(-30000, -7), (-1000, -999), (-32768 + 40, -3)])
        hi1, hi2 = rng.choice([(size + 5, 30000 - 40), (size + 1, size + 1000), (size + 2, 20000)])
    else:
        lo2, lo1 = rng.choice([(-2, -1), (-3, -1), (-5, -2)])
        hi1, hi2 = rng.choice([(size + 1, size + 2), (size + 1, size + 3), (size + 2, size + 5)])
    tab = {-2: lo2, -1: lo1, 0: 0, absn: size, absn + 1: hi1, absn + 2: hi2}
    for i, v in enumerate(inner):
        tab[i + 1] = v
    return tab


def trapezoid_for(rng, b, slant=True):
    """a trapezoid (10 fixed-point ints) roughly covering box b (pixel coordinates)"""
    f = 65536
    x1, y1, x2, y2 = [max(-2000, min(2000, c)) for c in b]
    top, bot = y1 * f + rng.choice([0, 0, 1, 32768, -20000]), y2 * f + rng.choice([0, 0, -1, 32768, 20000])
    s1, s2 = (rng.randint(-f, f), rng.randint(-f, f)) if slant and rng.random() < 0.6 else (0, 0)
    return [top, bot, x1 * f, top - rng.choice([0, f]), x1 * f + s1, bot + rng.choice([0, f]),
            x2 * f, top - rng.choice([0, f // 2]), x2 * f + s2, bot + rng.choice([0, 3])]


def trap_for(rng, b):
    f = 65536
    x1, y1, x2, y2 = [max(-2000, min(2000, c)) for c in b]
    return [x1 * f, x2 * f + rng.choice([0, 40000]), y1 * f + rng.choice([0, 30000]),
            x1 * f + rng.choice([0, -50000, 70000]), x2 * f, y2 * f + rng.choice([0, -1, 9000])]


def triangle_for(rng, b):
    f = 65536
    x1, y1, x2, y2 = [max(-2000, min(2000, c)) for c in b]
    pts = [(x1 * f, y1 * f), (x2 * f, y1 * f + rng.choice([0, f])), ((x1 + x2) * f // 2, y2 * f)]
    rng.shuffle(pts)
    return [c for p in pts for c in p]


def draw_request(rng, api, fmt, w, h, box, soff, moff, have_mask, far, ops):
    """script line(s) for one request; box in real destination coordinates"""
    x1, y1, x2, y2 = box
    rw, rh = max(0, x2 - x1), max(0, y2 - y1)
    op = rng.choice(ops)
    sx, sy = x1 - soff[0], y1 - soff[1]            # so that dest - src = soff
    mx, my = x1 - moff[0], y1 - moff[1]
    if api == "composite":
        return "composite %s %d %d %d %d %d %d %d %d" % (op, sx, sy, mx, my, x1, y1, rw, rh)
    if api == "region":
        c16 = lambda v: max(-32768, min(32767, v))
        return "region %d %d %d %d %d %d %d %d" % (c16(sx), c16(sy), c16(mx), c16(my), c16(x1), c16(y1),
                                                   min(65535, rw), min(65535, rh))
    if api == "fillboxes":
        col = colour(rng)
        if far:       # see fillboxes_scenarios: no far boxes through the direct-fill shortcut on the unfixed tree
            return "composite %s %d %d %d %d %d %d %d %d" % (op, sx, sy, mx, my, x1, y1, rw, rh)
        n = rng.choice([1, 1, 2])
        vals = [x1, y1, x2, y2]
        for _ in range(n - 1):
            vals += near_box(rng, w, h)
        if rng.random() < 0.25:
            q = []
            for i in range(n):
                b = vals[4 * i:4 * i + 4]
                q += [b[0], b[1], max(0, b[2] - b[0]), max(0, b[3] - b[1])]
            return "fillrects %s %s %d %s" % (rng.choice(["SRC", "OVER", "CLEAR", op]), " ".join(map(str, col)), n,
                                             " ".join(map(str, q)))
        return "fillboxes %s %s %d %s" % (rng.choice(["SRC", "OVER", "CLEAR", op]), " ".join(map(str, col)), n,
                                          " ".join(map(str, vals)))
    if api in ("glyphs", "glyphsnm"):
        n = rng.randint(1, 4)
        gl = []
        for _ in range(n):
            g = rng.choice(GLYPHS)
            if api == "glyphs":
                gl += [g[0], rng.randint(-2, min(rw, 40) + 1), rng.randint(-2, min(rh, 40) + 1)]
            else:
                gl += [g[0], rng.randint(-3, w + 2), rng.randint(-3, h + 2)]
        if api == "glyphs":
            return "glyphs %s %s %d %d %d %d %d %d %d %d %d %s" % (
                op, rng.choice(["a8", "a8", "a8r8g8b8", "a1"]), sx, sy, rng.randint(-1, 2), rng.randint(-1, 2), x1, y1,
                min(rw, 40), min(rh, 40), n, " ".join(map(str, gl)))
        # no-mask glyphs: positions are relative to (dest_x, dest_y); keep them on the image
        dx, dy = rng.randint(-2, 3), rng.randint(-2, 3)
        return "glyphsnm %s %d %d %d %d %d %s" % (op, dx - soff[0], dy - soff[1], dx, dy, n, " ".join(map(str, gl)))
    if api in ("ctraps", "ctris"):
        # pixman_composite_trapezoids hands (x_src + box.x1 ...) to the int16 pixman_image_composite: stay in that range
        soff = (max(-20000, min(20000, soff[0])), max(-20000, min(20000, soff[1])))
        xd, yd = rng.randint(-2, 2), rng.randint(-2, 2)
        n = rng.randint(1, 3)
        shapes = []
        bb = [x1 - xd, y1 - yd, x2 - xd, y2 - yd]
        for _ in range(n):
            shapes += (triangle_for(rng, bb) if api == "ctris" else trapezoid_for(rng, bb))
            bb = near_box(rng, w, h)
        return "%s %s %s %d %d %d %d %d %s" % (api, op, rng.choice(["a8", "a8", "a1", "a4"] + ([fmt] if fmt in A_FORMATS else [])),
                                               xd - soff[0], yd - soff[1], xd, yd, n, " ".join(map(str, shapes)))
    if api == "raster":
        kind = rng.choice(["addtraps", "addtrapezoids", "addtris", "rasterize"])
        xo, yo = rng.randint(-2, 2), rng.randint(-2, 2)
        n = 1 if kind == "rasterize" else rng.randint(1, 3)
        shapes = []
        bb = [x1 - xo, y1 - yo, x2 - xo, y2 - yo]
        for _ in range(n):
            if kind == "addtraps":
                shapes += trap_for(rng, bb)
            elif kind == "addtris":
                shapes += triangle_for(rng, bb)
            else:
                shapes += trapezoid_for(rng, bb)
            bb = near_box(rng, w, h)
        return "%s %d %d %d %s" % (kind, xo, yo, n, " ".join(map(str, shapes)))
    raise ValueError(api)


def source_lines(rng, role, w, h, clip, flags, opaque=False):
    """image + clip + flags for src / mask; clip: list of boxes or None"""
    out = []
    r = rng.random()
    if opaque:          # FAST_PATH_IS_OPAQUE: opaque solid, or a format without alpha that repeats
        if r < 0.5:
            c = colour(rng)
            out.append("I src solid %d %d %d 65535" % (c[0], c[1], c[2]))
        else:
            out.append("I src bits %s %d %d %d %d" % (rng.choice(["x8r8g8b8", "r5g6b5"]), w + 1, h + 1,
                                                     rng.randrange(1 << 30), rng.choice([1, 2, 3])))
    elif role == "src" and r < 0.35:
        out.append("I src solid %s" % " ".join(map(str, colour(rng))))
    else:
        fmt = rng.choice(["a8r8g8b8", "a8r8g8b8", "x8r8g8b8", "r5g6b5", "a8", "a1"]) if role == "src" else \
            rng.choice(["a8", "a8", "a1", "a8r8g8b8"])
        out.append("I %s bits %s %d %d %d %d" % (role, fmt, w + rng.randint(0, 4), h + rng.randint(0, 4),
                                                 rng.randrange(1 << 30), rng.choice([0, 1, 2, 3])))
        if rng.random() < 0.15 and fmt != "a1":
            out.append("A %s a8 %d %d %d %d" % (role, w + 2, h + 2, rng.randint(-1, 1), rng.randint(-1, 1)))
    if clip is not None:
        flat = [c for b in clip for c in b]
        out.append("C %s %d %s" % (role, len(clip), " ".join(map(str, flat))))
    if flags is not None:
        out.append("F %s %d %d" % (role, flags[0], flags[1]))
    return out


def embed_behaviour(rng, beh, name, fmt, far, ops):
    """TLC-generated abstract behaviour -> script for drv_frame"""
    trapadd = any(s["k"] == "opt" and s["v"] == "trapadd" for s in beh)
    if trapadd:
        fmt = rng.choice(A_FORMATS)
    bpp = BPP[fmt]
    for _ in range(100):
        w = rng.choice([5, 6, 7, 8, 9, 11, 13, 16])
        h = rng.choice([4, 5, 6])
        st = min_stride(fmt, w) + 4 * rng.choice([0, 0, 1])
        if h * st <= 330:
            break
    ex = embedding(rng, w, GEN_DW, far)
    ey = embedding(rng, h, GEN_DH, far)
    mapbox = lambda b: [ex[b[0]], ey[b[1]], ex[b[2]], ey[b[3]]]
    gb = 2 * st + 16 + 4 * rng.randint(0, 3)
    ga = 2 * st + 32
    lines = ["R %s" % name, "I dst %s %d %d %d %d %d %d" % (fmt, w, h, st, gb, ga, rng.randrange(1 << 30))]
    dclip = sclip = mclip = None
    sflags = mflags = None
    alpha = None
    for s in beh:
        if s["k"] == "clip" and s["role"] == "dst":
            dclip = [mapbox(b) for b in s["v"]]
        elif s["k"] == "clip" and s["role"] == "src":
            sclip = [mapbox(b) for b in s["v"]]
        elif s["k"] == "flags":
            sflags = (s["v"][0][0], s["v"][0][1])
        elif s["k"] == "maskclip":
            mclip = [mapbox(s["v"][0])]
            mflags = (s["v"][1][0], s["v"][1][1])
        elif s["k"] == "alpha":
            alpha = mapbox(s["v"][0])
    if dclip is not None:
        lines.append("C dst %d %s" % (len(dclip), " ".join(str(c) for b in dclip for c in b)))
    if alpha is not None:
        aw, ah = min(alpha[2] - alpha[0], 48), min(alpha[3] - alpha[1], 8)
        lines.append("A dst %s %d %d %d %d %d" % (rng.choice(["a8", "a8", "a1", "a4"]), aw, ah, alpha[0], alpha[1],
                                                  rng.randrange(1 << 30)))
    lines += source_lines(rng, "src", w, h, sclip, sflags, opaque=trapadd)
    have_mask = mclip is not None or rng.random() < 0.2
    if have_mask:
        lines += source_lines(rng, "mask", w, h, mclip, mflags)
    for g in GLYPHS:
        lines.append("G %d %s %d %d %d %d %d" % (g[0], g[1], g[2], g[3], g[4], g[5], rng.randrange(1 << 30)))
    lines.append("S")
    scale = rng.choice([1, 1, 2, 3]) if not far else rng.choice([1, 7, 1000, 20000])
    for s in beh:
        if s["k"] != "req":
            continue
        api = s["role"]
        box = mapbox(s["v"][0])
        soff = (s["v"][1][0] * scale, s["v"][1][1] * scale)
        moff = (s["v"][1][2] * scale, s["v"][1][3] * scale)
        if api == "raster" and (fmt not in A_FORMATS):
            api = "ctraps"
        if api == "ctraps" and rng.random() < 0.3:
            api = "ctris"
        if api == "composite" and rng.random() < 0.06:       # huge request rectangles (sums stay inside int32)
            box = rng.choice([[-(1 << 29), -(1 << 29), 1 << 29, 1 << 29], [-5, -5, 1 << 30, 1 << 30],
                              [box[0], box[1], box[0] + (1 << 30), box[1] + 1], [-(1 << 30), 0, 3, (1 << 30)]])
        ln = draw_request(rng, api, fmt, w, h, box, soff, moff, have_mask, far, ops)
        if trapadd and api in ("ctraps", "ctris"):
            # pixman_composite_trapezoids' direct-rasterisation shortcut: ADD, opaque source, mask format = destination format
            t = ln.split()
            t[1], t[2] = "ADD", fmt
            ln = " ".join(t)
        lines.append(ln)
    return lines


def random_behaviour(rng):
    """implementation-shaped abstract behaviour (same vocabulary as the TLC-generated ones), biased to
       clip edges inside the image and non-empty regions"""
    DW, DH = GEN_DW, GEN_DH

    def gbox(inside):
        lo, hix, hiy = (0, DW, DH) if inside else (-2, DW + 2, DH + 2)
        if rng.random() < 0.55:          # a large box: regions stay non-empty after several intersections
            return [rng.randint(lo, 1), rng.randint(lo, 1), rng.randint(DW - 1, hix), rng.randint(DH - 1, hiy)]
        while True:
            xs = sorted([rng.randint(lo, hix), rng.randint(lo, hix)])
            ys = sorted([rng.randint(lo, hiy), rng.randint(lo, hiy)])
            if xs[0] < xs[1] and ys[0] < ys[1]:
                return [xs[0], ys[0], xs[1], ys[1]]
    beh = []
    if rng.random() < 0.1:
        # composite_trapezoids with ADD of an opaque source onto an alpha-only destination without clip
        beh.append({"k": "opt", "role": "", "v": "trapadd"})
        if rng.random() < 0.4:
            beh.append({"k": "alpha", "role": "dst", "v": [gbox(rng.random() < 0.7)]})
        if rng.random() < 0.75:
            beh.append({"k": "clip", "role": "src", "v": [gbox(False) for _ in range(rng.choice([1, 2]))]})
            beh.append({"k": "flags", "role": "src", "v": [[1, 1, 0, 0] if rng.random() < 0.8 else [1, 0, 0, 0]]})
        for _ in range(rng.randint(4, 6)):
            off = lambda: rng.choice([0, 0, 1, -1])
            beh.append({"k": "req", "role": rng.choice(["ctraps", "ctraps", "ctraps", "composite", "region"]),
                        "v": [gbox(rng.random() < 0.5), [off(), off(), 0, 0], [0, 0, 0, 0]]})
        return beh
    if rng.random() < 0.6:
        beh.append({"k": "clip", "role": "dst", "v": [gbox(rng.random() < 0.7) for _ in range(rng.choice([1, 2, 2, 3]))]})
    if rng.random() < 0.3:
        beh.append({"k": "alpha", "role": "dst", "v": [gbox(rng.random() < 0.5)]})
    if rng.random() < 0.5:
        beh.append({"k": "clip", "role": "src", "v": [gbox(False) for _ in range(rng.choice([1, 2]))]})
        on = rng.random() < 0.7
        beh.append({"k": "flags", "role": "src", "v": [[1, 1, 0, 0] if on else rng.choice([[0, 1, 0, 0], [1, 0, 0, 0], [0, 0, 0, 0]])]})
    if rng.random() < 0.3:
        beh.append({"k": "maskclip", "role": "mask", "v": [gbox(False), [1, rng.choice([0, 1, 1]), 0, 0]]})
    for _ in range(rng.randint(5, 8)):
        api = rng.choice(["composite", "composite", "composite", "region", "region", "fillboxes", "fillboxes", "glyphs",
                          "glyphsnm", "ctraps", "raster"])
        r = rng.random()
        box = gbox(False) if r < 0.8 else rng.choice([[0, 0, 0, DH], [1, 1, DW, 1], [2, 2, 1, 1], [-2, -2, DW + 2, DH + 2]])
        off = lambda: rng.choice([0, 0, 0, 1, -1, 2, -2])
        beh.append({"k": "req", "role": api, "v": [box, [off(), off(), off(), off()], [0, 0, 0, 0]]})
    return beh


# ------------------------------------------------------------------------------------------
# directed matrices: {one vs several boxes / glyphs / shapes} x {no / one-rectangle / multi-rectangle clip}
# (implementations special-case "a single box" and "a single-rectangle region"; extents are not the region)

MW, MH = 12, 6


def clip_kinds():
    W, H = MW, MH
    return [("none", None),
            ("one", [[2, 1, 10, 5]]),
            ("two_h", [[1, 1, 4, 5], [8, 1, 11, 5]]),               # gap: columns 4..7
            ("two_v", [[1, 0, 11, 2], [1, 4, 11, 6]]),              # gap: rows 2..3
            ("three", [[0, 0, 3, 3], [5, 1, 8, 5], [9, 3, 12, 6]]),
            ("ell", [[1, 1, 4, 6], [4, 4, 11, 6]]),                 # L shape: the upper right of its extents is outside
            ("ell3", [[1, 0, 3, 6], [3, 0, 11, 2], [9, 2, 11, 4]]),
            ("beyond", [[-2, -1, 5, 3], [7, 2, W + 2, H + 2]])]     # reaches outside the image


def extents_of(clip):
    if not clip:
        return [0, 0, MW, MH]
    return [min(b[0] for b in clip), min(b[1] for b in clip), max(b[2] for b in clip), max(b[3] for b in clip)]


def placed_box(rng, clip, how):
    e = extents_of(clip)
    if how == "inside":                     # inside the first clip rectangle
        b = clip[0] if clip else e
        b = [max(b[0], 0), max(b[1], 0), min(b[2], MW), min(b[3], MH)]
        return [b[0] + rng.choice([0, 1]), b[1] + rng.choice([0, 1]), b[2] - rng.choice([0, 1]), b[3]]
    if how == "exact":                      # exactly the bounding box of the clip
        return list(e)
    if how == "span":                       # inside the bounding box, across the gaps between the clip rectangles
        return [e[0] + rng.choice([0, 0, 1]), e[1] + rng.choice([0, 0, 1]), e[2] - rng.choice([0, 0, 1]), e[3] - rng.choice([0, 1])]
    if how == "out":                        # sticks out of the bounding box (and perhaps of the image) on one side
        b = list(e)
        i = rng.randrange(4)
        b[i] += -1 if i < 2 else 1
        return [max(b[0], -2), max(b[1], -2), min(b[2], MW + 2), min(b[3], MH + 2)]
    return [0, 0, MW, MH]                   # "all": the whole image


FILL_OPS = [("SRC", None), ("OVER", 0xffff), ("CLEAR", None), ("OVER", 0x8000), ("ADD", None), ("IN", 0xffff)]


def fill_matrix_scenarios(rng, quick, formats, drv):
    """fill_boxes / fill_rectangles: n in {1, 2, 3, 7} x clip kind x box placement x operator.
       drv: "fill" (drv_fill, C19) or "frame" (drv_frame, C03)"""
    execs = []
    k = 0
    for fmt in formats:
        st = min_stride(fmt, MW) + (4 if k % 2 else 0)
        gb, ga = 2 * st + 16 + 4 * (k % 4), 2 * st + 32
        for cname, clip in clip_kinds():
            lines = ["R fm_%s_%s_%d" % (fmt, cname, k)]
            k += 1
            seed = rng.randrange(1 << 30)
            if drv == "fill":
                lines.append("D %s %d %d %d %d %d %d" % (fmt, MW, MH, st, gb, ga, seed))
                lines.append("C -1" if clip is None else "C %d %s" % (len(clip), " ".join(str(c) for b in clip for c in b)))
            else:
                lines.append("I dst %s %d %d %d %d %d %d" % (fmt, MW, MH, st, gb, ga, seed))
                if clip is not None:
                    lines.append("C dst %d %s" % (len(clip), " ".join(str(c) for b in clip for c in b)))
            lines.append("S")
            for how in ("inside", "span", "exact", "out", "all"):
                for n in (1, 2, 3, 7):
                    if n == 7 and how != "span":
                        continue
                    if n == 1 or not quick:
                        ops = FILL_OPS                      # the single-box case gets every operator class
                    else:
                        ops = rng.sample(FILL_OPS, 2)
                    for op, alpha in ops:
                        col = colour(rng)
                        if alpha is not None:
                            col[3] = alpha
                        boxes = [placed_box(rng, clip, how)] + [near_box(rng, MW, MH) for _ in range(n - 1)]
                        rng.shuffle(boxes)
                        if rng.random() < 0.35:
                            vals = [c for b in boxes for c in (b[0], b[1], max(0, b[2] - b[0]), max(0, b[3] - b[1]))]
                            lines.append("fillrects %s %s %d %s" % (op, " ".join(map(str, col)), n, " ".join(map(str, vals))))
                        else:
                            vals = [c for b in boxes for c in b]
                            lines.append("fillboxes %s %s %d %s" % (op, " ".join(map(str, col)), n, " ".join(map(str, vals))))
            execs.append(lines)
    return execs


ALPHAS = [0xffff, 0xfffe, 0xff80, 0xff00, 0xfeff, 0x8000, 0x00ff, 0]      # around every threshold a shortcut could test
DEEP = ["a2r10g10b10", "x2r10g10b10", "a2b10g10r10", "x2b10g10r10", "rgba_float", "rgb_float"]


def alpha_matrix_scenarios(rng, quick, formats):
    """fill_boxes / fill_rectangles: colour alpha around the opacity thresholds x operator x destination format
       (including formats deeper than 8 bits per channel, where an "almost opaque" 16-bit alpha is not opaque),
       each on fresh non-zero destination contents (random bytes; OVER first)."""
    execs = []
    k = 0
    W, H = 6, 3
    for fmt in formats:
        st = min_stride(fmt, W)
        if BPP[fmt] == 128:
            st = (st + 15) // 16 * 16
        for a in ALPHAS:
            lines = ["R am_%s_%04x_%d" % (fmt, a, k)]
            k += 1
            lines.append("D %s %d %d %d %d %d %d" % (fmt, W, H, st, 16 + 4 * (k % 4) * (0 if BPP[fmt] == 128 else 1), 32,
                                                    rng.randrange(1 << 30)))
            lines.append("C -1" if k % 3 else "C 2 0 0 4 %d 3 1 %d %d" % (H, W, H))
            lines.append("S")
            boxes = [[0, 0, 3, H], [3, 0, W, 2], [1, 1, 5, H], [-1, -1, W + 1, H + 1], [0, 0, W, H], [2, 0, 4, H]]
            ops = ["OVER", "OVER", "ADD", "ATOP", "SRC", "CLEAR"]
            if not quick:
                ops += ["OVER_REVERSE", "XOR", "DISJOINT_OVER", "SCREEN"]
                boxes += [[0, 1, W, 2], [1, 0, 2, H], [0, 0, W, H], [3, 1, W, H]]
            for i, op in enumerate(ops):
                b = boxes[i]
                # non-zero colour channels (a translucent colour is given premultiplied or not: both are legal inputs)
                col = [rng.choice([0x00ff, 0x0100, 0x7fff, 0x8000, 0xff00, 0xffff, a]) for _ in range(3)] + [a]
                if i % 2:
                    lines.append("fillrects %s %s 1 %d %d %d %d" % (op, " ".join(map(str, col)), max(b[0], 0), max(b[1], 0),
                                                                  b[2] - max(b[0], 0), b[3] - max(b[1], 0)))
                else:
                    lines.append("fillboxes %s %s 1 %s" % (op, " ".join(map(str, col)), " ".join(map(str, b))))
            execs.append(lines)
    return execs


def draw_matrix_scenarios(rng, quick, formats):
    """composite32 / compute_composite_region / glyphs / trapezoids / rasterisers:
       destination clip kind x source clip kind (x mask clip kind) x {one, several} glyphs / shapes"""
    execs = []
    k = 0
    srckinds = [("none", None, None), ("one_on", [[1, 0, 9, 6]], (1, 1)), ("multi_on", [[0, 0, 12, 2], [0, 3, 5, 6], [7, 3, 12, 6]], (1, 1)),
                ("multi_off", [[0, 0, 2, 2], [6, 3, 8, 6]], (1, 0))]
    maskkinds = [("nomask", None, None), ("mask_one", [[0, 1, 11, 6]], (1, 1)), ("mask_multi", [[0, 0, 6, 6], [8, 0, 12, 3]], (1, 1))]
    for fmt in formats:
        st = min_stride(fmt, MW) + (4 if k % 2 else 0)
        gb, ga = 2 * st + 16 + 4 * (k % 4), 2 * st + 32
        for cname, clip in clip_kinds():
            if quick and cname in ("ell3", "beyond", "two_v") and k % 2:
                k += 1
                continue
            for sname, sclip, sflags in srckinds:
                mname, mclip, mflags = maskkinds[(k // 2) % 3] if sname != "none" or k % 3 == 0 else maskkinds[0]
                lines = ["R dm_%s_%s_%s_%s_%d" % (fmt, cname, sname, mname, k)]
                k += 1
                lines.append("I dst %s %d %d %d %d %d %d" % (fmt, MW, MH, st, gb, ga, rng.randrange(1 << 30)))
                if clip is not None:
                    lines.append("C dst %d %s" % (len(clip), " ".join(str(c) for b in clip for c in b)))
                if rng.random() < 0.5:
                    lines.append("I src solid %d %d %d 65535" % tuple(colour(rng)[:3]))
                else:
                    lines.append("I src bits %s %d %d %d %d" % (rng.choice(["a8r8g8b8", "x8r8g8b8", "a8"]), MW + 2, MH + 2,
                                                              rng.randrange(1 << 30), rng.choice([0, 1])))
                if sclip is not None:
                    lines.append("C src %d %s" % (len(sclip), " ".join(str(c) for b in sclip for c in b)))
                    lines.append("F src %d %d" % sflags)
                if mname != "nomask":
                    lines.append("I mask bits a8 %d %d %d 1" % (MW + 1, MH + 1, rng.randrange(1 << 30)))
                    lines.append("C mask %d %s" % (len(mclip), " ".join(str(c) for b in mclip for c in b)))
                    lines.append("F mask %d %d" % mflags)
                for g in GLYPHS:
                    lines.append("G %d %s %d %d %d %d %d" % (g[0], g[1], g[2], g[3], g[4], g[5], rng.randrange(1 << 30)))
                lines.append("S")
                soff = rng.choice([(0, 0), (1, 0), (-1, 1)])
                moff = rng.choice([(0, 0), (0, -1)])
                for how in ("span", "exact", "out", "all"):
                    b = placed_box(rng, clip, how)
                    args = (b[0] - soff[0], b[1] - soff[1], b[0] - moff[0], b[1] - moff[1], b[0], b[1], b[2] - b[0], b[3] - b[1])
                    lines.append("region %d %d %d %d %d %d %d %d" % args)
                    lines.append("composite %s %d %d %d %d %d %d %d %d" % ((rng.choice(["SRC", "SRC", "OVER", "CLEAR", "ADD", "IN"]),) + args))
                # glyphs: one glyph across the gaps, then several
                wide = [1, 3, 3]                       # glyph 1 is 5x2 with origin (0,2): covers columns 3..7, rows 1..2
                many = [1, 3, 3, 0, 6, 4, 2, 9, 1, 3, 1, 2]
                for gl in (wide, many):
                    n = len(gl) // 3
                    lines.append("glyphsnm %s %d %d 0 0 %d %s" % (rng.choice(["OVER", "SRC", "ADD"]), -soff[0], -soff[1], n,
                                                                 " ".join(map(str, gl))))
                    lines.append("glyphs %s a8 %d %d 0 0 0 0 %d %d %d %s" % (rng.choice(["OVER", "ADD", "SRC"]), -soff[0], -soff[1],
                                                                           MW, MH, n, " ".join(map(str, gl))))
                # trapezoids / triangles: one shape across the whole image, then three
                mf = fmt if fmt in A_FORMATS else "a8"
                for n in (1, 3):
                    shapes = trapezoid_for(rng, [0, 0, MW, MH], slant=False)
                    for _ in range(n - 1):
                        shapes += trapezoid_for(rng, near_box(rng, MW, MH))
                    for op in ("ADD", rng.choice(["OVER", "SRC", "IN"])):
                        lines.append("ctraps %s %s %d %d 0 0 %d %s" % (op, mf, -soff[0], -soff[1], n, " ".join(map(str, shapes))))
                    tri = triangle_for(rng, [-1, -1, MW + 1, MH + 1])
                    for _ in range(n - 1):
                        tri += triangle_for(rng, near_box(rng, MW, MH))
                    lines.append("ctris %s %s %d %d 0 0 %d %s" % (rng.choice(["ADD", "OVER"]), mf, -soff[0], -soff[1], n,
                                                                 " ".join(map(str, tri))))
                    if fmt in A_FORMATS:
                        kind = rng.choice(["addtraps", "addtrapezoids", "addtris", "rasterize"])
                        m = 1 if kind == "rasterize" else n
                        sh = []
                        for i in range(m):
                            bb = [0, 0, MW, MH] if i == 0 else near_box(rng, MW, MH)
                            sh += trap_for(rng, bb) if kind == "addtraps" else triangle_for(rng, bb) if kind == "addtris" \
                                else trapezoid_for(rng, bb)
                        lines.append("%s 0 0 %d %s" % (kind, m, " ".join(map(str, sh))))
                execs.append(lines)
    return execs


def presentation_matrix_scenarios(rng, quick, formats):
    """composite32 / compute_composite_region: every presentation of a mask (and of a source) -- in particular the
       OPAQUE ones, which implementations replace by "no mask" / reduce operators for -- x its clip {none, one
       rectangle, several} x {clip_sources, has_client_clip} x offsets x operators.  A clip that is enabled for sources
       must bound the region whatever the image holds."""
    W, H = MW, MH
    kinds = [("a8", "bits a8 %d %d %%d 0" % (W + 1, H + 1)),
             ("argb", "bits a8r8g8b8 %d %d %%d 0" % (W, H + 2)),
             ("solid_opaque", "solid 65535 32768 255 65535"),
             ("solid_half", "solid 32768 0 16384 32768"),
             ("x888_normal", "bits x8r8g8b8 %d %d %%d 1" % (W - 3, H - 2)),
             ("x888_pad", "bits x8r8g8b8 %d %d %%d 2" % (W - 2, H - 1)),
             ("x888_1x1", "bits x8r8g8b8 1 1 %d 1"),
             ("a8_1x1", "bits a8 1 1 %d 1"),
             ("a8_reflect", "bits a8 5 3 %d 3"),
             ("r565_normal", "bits r5g6b5 4 4 %d 1"),
             ("grad_opaque", "linear 1 65535 65535"),
             ("grad_opaque_pad", "linear 2 65535 65535"),
             ("grad_half", "linear 1 65535 16384")]
    clips = [("noclip", None), ("one", [[2, 1, 9, 4]]), ("multi", [[0, 0, 4, 3], [6, 2, 12, 6], [3, 4, 5, 6]])]
    flagsets = [(1, 1), (1, 0), (0, 1)]
    ops = ["SRC", "OVER", "IN", "ADD", "CLEAR", "OUT", "ATOP", "XOR"]
    execs = []
    k = 0
    for fmt in formats:
        st = min_stride(fmt, W) + (4 if k % 2 else 0)
        gb, ga = 2 * st + 16, 2 * st + 32
        for role in ("mask", "src"):
            for kname, kdef in kinds:
                for cname, clip in clips:
                    for flags in (flagsets if clip is not None else [(0, 0)]):
                        if quick and flags != (1, 1) and (k % 3):     # quick: the disabled-clip variants for a third
                            k += 1
                            continue
                        k += 1
                        lines = ["R pm_%s_%s_%s_%s_%d%d_%d" % (fmt, role, kname, cname, flags[0], flags[1], k)]
                        lines.append("I dst %s %d %d %d %d %d %d" % (fmt, W, H, st, gb, ga, rng.randrange(1 << 30)))
                        if k % 4 == 0:
                            lines.append("C dst 2 0 0 7 6 8 1 12 5")
                        other = "src" if role == "mask" else "mask"
                        if role == "mask":
                            lines.append(rng.choice(["I src solid 65535 0 32768 65535", "I src solid 4096 8192 0 16384",
                                                     "I src bits a8r8g8b8 %d %d %d 1" % (W, H, rng.randrange(1 << 30))]))
                        lines.append("I %s %s" % (role, (kdef % rng.randrange(1 << 30)) if "%d" in kdef else kdef))
                        if role == "src" and k % 2:
                            lines.append("I mask bits a8 %d %d %d 0" % (W + 1, H + 1, rng.randrange(1 << 30)))
                        if clip is not None:
                            lines.append("C %s %d %s" % (role, len(clip), " ".join(str(c) for b in clip for c in b)))
                            lines.append("F %s %d %d" % (role, flags[0], flags[1]))
                        lines.append("S")
                        for off in [(0, 0), rng.choice([(1, -1), (-2, 0), (3, 2), (0, 1)])]:
                            for b in ([0, 0, W, H], rng.choice([[1, 0, 11, 6], [-1, -1, W + 1, H + 1], [3, 1, 10, 5]])):
                                # role's image offset: dest - image = off; the other image aligned with the destination
                                ix, iy = b[0] - off[0], b[1] - off[1]
                                if role == "mask":
                                    a = (b[0], b[1], ix, iy, b[0], b[1], b[2] - b[0], b[3] - b[1])
                                else:
                                    a = (ix, iy, b[0], b[1], b[0], b[1], b[2] - b[0], b[3] - b[1])
                                lines.append("region %d %d %d %d %d %d %d %d" % a)
                                for op in rng.sample(ops[:4], 2) + [rng.choice(ops[4:])]:
                                    lines.append("composite %s %d %d %d %d %d %d %d %d" % ((op,) + a))
                        execs.append(lines)
    return execs


def history_scenarios(rng, quick, formats, n_per_format):
    """multi-step property histories before the judged requests: the same alpha map set again at another origin
       (including new_y == old_x, new_x == old_y, swapped, unchanged), detached and re-attached, replaced by another
       map; clips replaced by smaller / larger / disjoint / empty / NULL ones; source clipping and client-clip toggled
       repeatedly; transform / repeat changed on the sources.  The Setup event logs the FINAL properties, from which the
       specification computes the region; two rounds of requests per execution."""
    W, H = MW, MH
    execs = []
    k = 0

    def clip_line(role):
        r = rng.random()
        if r < 0.2:
            return "%s %s -1" % (rng.choice(["C", "C16"]), role)
        if r < 0.27:
            return "C %s 0" % role
        c = rng.choice([[[2, 1, 10, 5]], [[4, 2, 7, 4]], [[-1, -1, W + 1, H + 1]], [[0, 0, 3, 6], [9, 0, 12, 6]],
                        [[0, 0, 12, 2], [0, 4, 6, 6]], [[W, 0, W + 3, H]], [[1, 1, 5, 5], [3, 2, 11, 6], [6, 0, 8, 1]]])
        return "%s %s %d %s" % (rng.choice(["C", "C", "C16"]), role, len(c), " ".join(str(v) for b in c for v in b))

    for fmt in formats:
        st = min_stride(fmt, W) + (4 if k % 2 else 0)
        gb, ga = 2 * st + 16, 2 * st + 32
        for si in range(n_per_format):
            k += 1
            lines = ["R hi_%s_%d" % (fmt, k)]
            lines.append("I dst %s %d %d %d %d %d %d" % (fmt, W, H, st, gb, ga, rng.randrange(1 << 30)))
            lines.append(rng.choice(["I src solid 65535 16384 255 65535", "I src solid 8192 0 4096 32768",
                                     "I src bits a8r8g8b8 %d %d %d 1" % (W, H, rng.randrange(1 << 30)),
                                     "I src bits x8r8g8b8 5 4 %d 2" % rng.randrange(1 << 30), "I src linear 1 65535 65535"]))
            have_mask = rng.random() < 0.4
            if have_mask:
                lines.append(rng.choice(["I mask bits a8 %d %d %d 0" % (W + 1, H + 1, rng.randrange(1 << 30)),
                                         "I mask solid 0 0 0 65535", "I mask bits x8r8g8b8 3 3 %d 1" % rng.randrange(1 << 30)]))
            for g in GLYPHS:
                lines.append("G %d %s %d %d %d %d %d" % (g[0], g[1], g[2], g[3], g[4], g[5], rng.randrange(1 << 30)))
            ox, oy = rng.randint(0, 4), rng.randint(0, 3)
            have_alpha = False
            roles = ["src"] + (["mask"] if have_mask else [])
            for rnd in range(2):
                steps = rng.randint(3, 6)
                if rnd == 0 or rng.random() < 0.7:
                    # alpha-map history on the destination
                    if not have_alpha:
                        lines.append("A dst %s %d %d %d %d %d" % (rng.choice(["a8", "a8", "a4", "a1"]), rng.randint(4, 10),
                                                                  rng.randint(2, 5), ox, oy, rng.randrange(1 << 30)))
                        have_alpha = True
                    for _ in range(rng.randint(1, 3)):
                        how = rng.choice(["yx", "xy", "swap", "same", "rand", "rand", "detach", "replace"])
                        if how == "detach":
                            lines.append("AD dst")
                            if rng.random() < 0.8:
                                how = rng.choice(["yx", "xy", "swap", "same", "rand"])
                            else:
                                have_alpha = False
                                continue
                        if how == "replace":
                            ox, oy = rng.randint(-1, 4), rng.randint(-1, 3)
                            lines.append("A dst %s %d %d %d %d %d" % (rng.choice(["a8", "a4"]), rng.randint(3, 12), rng.randint(2, 6),
                                                                      ox, oy, rng.randrange(1 << 30)))
                            continue
                        if how == "yx":
                            oy = ox                      # new y takes the old x
                        elif how == "xy":
                            ox = oy
                        elif how == "swap":
                            ox, oy = oy, ox
                        elif how == "rand":
                            ox, oy = rng.randint(-2, 5), rng.randint(-2, 4)
                        lines.append("AO dst %d %d" % (ox, oy))
                for _ in range(steps):
                    what = rng.choice(["cdst", "cdst", "csrc", "csrc", "flags", "flags", "flags", "T", "P", "asrc"])
                    role = rng.choice(roles)
                    if what == "cdst":
                        lines.append(clip_line("dst"))
                    elif what == "csrc":
                        lines.append(clip_line(role))
                    elif what == "flags":
                        lines.append("F %s %d %d" % (role, rng.choice([0, 1, 1]), rng.choice([0, 1, 1])))
                    elif what == "T":
                        lines.append("T %s %d %d" % (role, rng.choice([0, 0, 1, -2]), rng.choice([0, 1, 0])))
                    elif what == "P":
                        lines.append("P %s %d" % (role, rng.choice([0, 1, 2, 3])))
                    elif what == "asrc" and "bits a8r8g8b8" in lines[2]:
                        lines.append("A src a8 %d %d %d %d" % (W, H, rng.randint(-1, 2), rng.randint(-1, 2)))
                        lines.append("AO src %d %d" % (rng.randint(-1, 2), rng.randint(-1, 2)))
                # make sure the final source clip state is decided by the last setters, then log it
                if rng.random() < 0.25:
                    lines.append("F src 1 1")
                lines.append("S")
                soff = rng.choice([(0, 0), (1, 0), (-1, 2)])
                for b in ([0, 0, W, H], [-1, -1, W + 1, H + 1], rng.choice([[2, 1, 11, 5], [0, 2, 12, 6]])):
                    a = (b[0] - soff[0], b[1] - soff[1], b[0], b[1], b[0], b[1], b[2] - b[0], b[3] - b[1])
                    lines.append("region %d %d %d %d %d %d %d %d" % a)
                    lines.append("composite %s %d %d %d %d %d %d %d %d" % ((rng.choice(["SRC", "SRC", "OVER", "CLEAR", "IN", "ADD"]),) + a))
                col = colour(rng)
                lines.append("fillboxes %s %s 1 0 0 %d %d" % (rng.choice(["SRC", "CLEAR", "OVER"]), " ".join(map(str, col)), W, H))
                lines.append("glyphsnm %s %d %d 0 0 3 1 3 3 0 6 4 2 9 1" % (rng.choice(["OVER", "SRC", "ADD"]), -soff[0], -soff[1]))
                lines.append("ctraps %s a8 %d %d 0 0 1 %s" % (rng.choice(["OVER", "SRC", "ADD"]), -soff[0], -soff[1],
                                                             " ".join(map(str, trapezoid_for(rng, [0, 0, W, H], slant=False)))))
            execs.append(lines)
    return execs


def clip_flag_history_scenarios(rng, quick, formats):
    """clip set -> dropped with NULL -> set again (16- and 32-bit setters) on source and mask, with set_source_clipping /
       set_has_client_clip called before, between or after: the flags are independent properties that only their own
       setters change, so the final clip is enabled for sources iff both flags were last set to TRUE."""
    W, H = MW, MH
    clipA = [[0, 0, 5, 6], [7, 1, 12, 5]]
    clipB = [[2, 1, 9, 4]]
    clipC = [[3, 0, 6, 6], [8, 2, 11, 6], [0, 4, 2, 6]]

    def C(role, clip, bits16=False):
        if clip is None:
            return "%s %s -1" % ("C16" if bits16 else "C", role)
        return "%s %s %d %s" % ("C16" if bits16 else "C", role, len(clip), " ".join(str(v) for b in clip for v in b))
    orders = [  # (description, list of steps); F = set both flags TRUE; f10 / f01 / f00 other settings
        ("flags_set_null_set", ["F11", "A", "N", "B"]),
        ("set_flags_null_set", ["A", "F11", "N", "B"]),
        ("null_flags_set", ["N", "F11", "B"]),
        ("flags_null_null_set", ["F11", "N", "N", "C"]),
        ("flags_set_null_cs_again_set", ["F11", "A", "N", "F1x", "B"]),
        ("flags_set_null_set_flags_again", ["F11", "A", "N", "B", "F11"]),
        ("flags_off_set_null_set", ["F10", "A", "N", "B"]),
        ("flags_set_null_set_then_off", ["F11", "A", "N", "B", "F01"]),
        ("flags_set_empty_set", ["F11", "A", "E", "C"]),
        ("flags_set_null_final_none", ["F11", "A", "N"])]
    execs = []
    k = 0
    for fmt in formats:
        st = min_stride(fmt, W) + (4 if k % 2 else 0)
        gb, ga = 2 * st + 16, 2 * st + 32
        for role in ("src", "mask"):
            for oname, steps in orders:
                for bits16 in ((False, True) if not quick else ((k % 2 == 0),)):
                    k += 1
                    lines = ["R cf_%s_%s_%s_%d_%d" % (fmt, role, oname, 16 if bits16 else 32, k)]
                    lines.append("I dst %s %d %d %d %d %d %d" % (fmt, W, H, st, gb, ga, rng.randrange(1 << 30)))
                    if k % 3 == 0:
                        lines.append(C("dst", [[0, 0, 8, 6], [9, 1, 12, 5]]))
                    lines.append(rng.choice(["I src solid 65535 0 32768 65535", "I src bits a8r8g8b8 %d %d %d 1" % (W, H, rng.randrange(1 << 30)),
                                             "I src bits x8r8g8b8 4 3 %d 1" % rng.randrange(1 << 30)]))
                    if role == "mask" or k % 4 == 0:
                        lines.append(rng.choice(["I mask bits a8 %d %d %d 0" % (W + 1, H + 1, rng.randrange(1 << 30)),
                                                 "I mask solid 0 0 0 65535", "I mask bits a8r8g8b8 %d %d %d 1" % (W, H, rng.randrange(1 << 30))]))
                    if "bits a8r8g8b8" in lines[-1] or ("bits a8r8g8b8" in lines[-2] and role == "src"):
                        # an alpha map on the image, with a clip of its own that is set, dropped and set again (inert: flags off)
                        tgt = "mask" if lines[-1].startswith("I mask bits a8r8g8b8") else "src" if lines[-1].startswith("I src") or lines[-2].startswith("I src bits a8r8g8b8") else None
                        if tgt:
                            lines.append("A %s a8 %d %d 0 0" % (tgt, W, H))
                            lines += ["CA %s 1 1 1 4 4" % tgt, "CA %s -1" % tgt, "CA %s 1 0 0 3 3" % tgt]
                    for g in GLYPHS:
                        lines.append("G %d %s %d %d %d %d %d" % (g[0], g[1], g[2], g[3], g[4], g[5], rng.randrange(1 << 30)))
                    for stp in steps:
                        if stp == "A":
                            lines.append(C(role, clipA, bits16))
                        elif stp == "B":
                            lines.append(C(role, clipB, bits16 and k % 4 != 1))
                        elif stp == "C":
                            lines.append(C(role, clipC, bits16))
                        elif stp == "N":
                            lines.append(C(role, None, bits16 if k % 3 else not bits16))
                        elif stp == "E":
                            lines.append(C(role, [], bits16))
                        elif stp == "F11":
                            lines.append("F %s 1 1" % role)
                        elif stp == "F10":
                            lines.append("F %s 1 0" % role)
                        elif stp == "F01":
                            lines.append("F %s 0 1" % role)
                        elif stp == "F1x":          # set_source_clipping (TRUE) again; has_client_clip stays as it is (TRUE)
                            lines.append("F %s 1 1" % role)
                    lines.append("S")
                    off = rng.choice([(0, 0), (1, 0), (-1, 1)])
                    for b in ([0, 0, W, H], [-1, -1, W + 1, H + 1]):
                        ix, iy = b[0] - off[0], b[1] - off[1]
                        a = (ix, iy, b[0], b[1], b[0], b[1], b[2] - b[0], b[3] - b[1]) if role == "src" else \
                            (b[0], b[1], ix, iy, b[0], b[1], b[2] - b[0], b[3] - b[1])
                        lines.append("region %d %d %d %d %d %d %d %d" % a)
                        lines.append("composite %s %d %d %d %d %d %d %d %d" % ((rng.choice(["SRC", "OVER", "ADD", "IN"]),) + a))
                    if role == "src":
                        lines.append("glyphsnm %s %d %d 0 0 3 1 3 3 0 6 4 2 9 1" % (rng.choice(["OVER", "SRC", "ADD"]), -off[0], -off[1]))
                        lines.append("glyphs %s a8 %d %d 0 0 0 0 %d %d 2 1 3 3 0 6 4" % (rng.choice(["OVER", "ADD"]), -off[0], -off[1], W, H))
                        mf = fmt if fmt in A_FORMATS else "a8"
                        for op in ("ADD", "OVER"):
                            lines.append("ctraps %s %s %d %d 0 0 1 %s" % (op, mf, -off[0], -off[1],
                                                                         " ".join(map(str, trapezoid_for(rng, [0, 0, W, H], slant=False)))))
                    execs.append(lines)
    return execs


def alpha_map_clip_scenarios(rng, quick, formats):
    """The alpha map of a source or mask is part of that source: a clip carried by the ALPHA-MAP image takes part in the
       composite region exactly when it is enabled for sources on that image (clip set + set_source_clipping +
       set_has_client_clip), placed at the alpha origin.  Walked: role x alpha origin (equal / different on source and mask,
       zero and non-zero in x and y) x the four flag settings on the map x the role's own clip (on / enabled / absent) x
       request offsets.  A mask whose alpha map has an enabled clip always carries a clip region of its own (see
       Composite.tla: the combination without one is left out by the statement and not generated)."""
    W, H = MW, MH
    amclips = [[[1, 1, 7, 5]], [[0, 0, 4, 6], [6, 1, 11, 4]], [[2, 0, 10, 2], [3, 3, 9, 6]], []]
    origins = [(0, 0), (2, 0), (0, 3), (-1, 2), (3, -2)]
    flags = [(1, 1), (1, 0), (0, 1), (0, 0)]
    execs = []
    k = 0

    def C(role, clip):
        return "C %s %d %s" % (role, len(clip), " ".join(str(v) for b in clip for v in b))
    for fmt in formats:
        st = min_stride(fmt, W) + (4 if k % 2 else 0)
        gb, ga = 2 * st + 16, 2 * st + 32
        for role in ("src", "mask"):
            other = "mask" if role == "src" else "src"
            for oi, (ox, oy) in enumerate(origins):
                for fl in (flags if not quick else [flags[0], flags[(oi % 3) + 1]]):
                    k += 1
                    lines = ["R amclip_%s_%s_%d_%d_%d%d_%d" % (fmt, role, ox, oy, fl[0], fl[1], k)]
                    lines.append("I dst %s %d %d %d %d %d %d" % (fmt, W, H, st, gb, ga, rng.randrange(1 << 30)))
                    if k % 4 == 0:
                        lines.append(C("dst", [[0, 0, 9, 6], [10, 1, 12, 5]]))
                    lines.append("I src bits a8r8g8b8 %d %d %d %d" % (W + 2, H + 2, rng.randrange(1 << 30), k % 2))
                    lines.append("I mask bits a8r8g8b8 %d %d %d %d" % (W + 2, H + 2, rng.randrange(1 << 30), (k // 2) % 2))
                    # the role's alpha map, its clip and flags
                    lines.append("A %s a8 %d %d %d %d" % (role, W + 1, H + 1, ox, oy))
                    lines.append("CA %s %d %s" % (role, len(amclips[k % 4]), " ".join(str(v) for b in amclips[k % 4] for v in b)))
                    lines.append("FA %s %d %d" % (role, fl[0], fl[1]))
                    # the other role: sometimes an alpha map of its own at ANOTHER origin (clip enabled or inert)
                    if k % 3 == 0:
                        o2 = origins[(oi + 2) % len(origins)]
                        lines.append("A %s a8 %d %d %d %d" % (other, W + 1, H + 1, o2[0], o2[1]))
                        lines.append("CA %s 1 0 1 10 5" % other)
                        lines.append("FA %s %d %d" % (other, 1, 1 if k % 2 else 0))
                    # own clips: a mask always has a clip region (any flags); a source in two of three cases
                    own = [[0, 0, W + 2, H + 2]] if k % 2 else [[1, 0, 11, 6]]
                    lines.append(C("mask", own))
                    lines.append("F mask %d %d" % ((1, 1) if k % 3 else (0, 1)))
                    if k % 3 != 1:
                        lines.append(C("src", [[0, 1, 12, 7]]))
                        lines.append("F src %d %d" % ((1, 1) if k % 2 else (1, 0)))
                    if k % 5 == 0:       # re-attach the same map at another origin: the last origin counts
                        lines.append("AO %s %d %d" % (role, oy, ox))
                    lines.append("S")
                    for off in ((0, 0), (1, -1), (-2, 1)):
                        for b in ([0, 0, W, H], [-1, -1, W + 1, H + 1], [2, 1, 7, 4]):
                            a = (b[0] - off[0], b[1] - off[1], b[0] + off[1], b[1] + off[0], b[0], b[1], b[2] - b[0], b[3] - b[1])
                            lines.append("region %d %d %d %d %d %d %d %d" % a)
                            lines.append("composite %s %d %d %d %d %d %d %d %d" % ((rng.choice(["SRC", "OVER", "ADD", "IN", "XOR"]),) + a))
                    execs.append(lines)
    return execs


# ------------------------------------------------------------------------------------------

def entry16(line, k):
    """every third composite request whose arguments fit goes through pixman_image_composite, the 16-bit entry point"""
    if k % 3 or not line.startswith("composite "):
        return line
    a = line.split()
    v = [int(x) for x in a[2:10]]
    if all(-32768 <= x <= 32767 for x in v[:6]) and all(0 <= x <= 65535 for x in v[6:]):
        return "composite16 " + " ".join(a[1:])
    return line


def run_driver(exe, script_lines, wd, tag, chain):
    sp = os.path.join(wd, tag + ".ndjson.script")
    with open(sp, "w") as f:
        k = 0
        for e in script_lines:
            if exe.find("drv_frame") >= 0:
                e = [entry16(ln, k + j) for j, ln in enumerate(e)]
                k += len(e)
            f.write("\n".join(e) + "\n")
    tr = os.path.join(wd, tag + ".ndjson")
    # an abnormal end (signal, abort, timeout) leaves a Crash event in the trace and is judged by TLC;
    # exit code 3 is the driver's own "cannot read the script / create the image" = a fault of this orchestrator
    rc, out = vf.run_driver([exe, sp, tr], tr, env={"PIXMAN_DISABLE": chain}, timeout=900)
    if rc == 3:
        raise vf.Infra("%s could not execute its script: %s" % (os.path.basename(exe), out[-1000:]))
    return tr, out


def tally(chk, tracefile, chain, prop):
    fills = chk.extra.setdefault("returned_true_by_chain_and_bpp", {})
    kinds = chk.extra.setdefault("events_by_kind", {})
    changed = chk.extra.setdefault("drawing_calls_that_changed_bits", {})
    ch = fills.setdefault(chain or "(all implementations)", {})
    prev = None
    for line in open(tracefile):
        if not line.startswith('{"e":"'):
            continue
        try:
            ev = json.loads(line)
        except ValueError:
            continue
        e = ev["e"]
        if e == "Setup":
            prev = ev["dbuf"]
            continue
        if e in ("Reset", "Crash"):
            continue
        chk.evaluations += 1
        name = e
        if e in ("Fill", "Blt"):
            key = "%s %dbpp" % (e.lower(), ev["bpp"] if e == "Fill" else ev["dbpp"])
            if e == "Blt" and ev["sbpp"] != ev["dbpp"]:
                key = "blt mixed depth"
            t = ch.setdefault(key, [0, 0])
            t[1] += 1
            if ev["ret"]:
                t[0] += 1
                if ev["w"] > 0 and ev["h"] > 0:
                    chk.distinct_keys.add(hash((e, ev.get("bpp", ev.get("dbpp")), ev.get("x", ev.get("dx")), ev["w"], ev["h"],
                                                ev.get("stride", ev.get("dstride")), ev.get("off", ev.get("doff")))))
        elif e == "FillBoxes":
            name = "FillBoxes/" + ev["api"]
            t = ch.setdefault("fill_boxes", [0, 0])
            t[1] += 1
            t[0] += 1 if ev["ret"] else 0
            ops = chk.extra.setdefault("fill_boxes_calls_by_operator", {})
            ops[ev["op"]] = ops.get(ev["op"], 0) + 1
        elif e == "Draw":
            name = "Draw/" + ev["api"]
        elif e == "Region":
            if ev["rects"]:
                chk.distinct_keys.add(hash(line))
        kinds[name] = kinds.get(name, 0) + 1
        if "after" in ev and prev is not None:
            if ev["after"] != prev:
                changed[name] = changed.get(name, 0) + 1
                if e in ("FillBoxes", "Draw"):
                    chk.distinct_keys.add(hash((name, ev.get("op"), json.dumps(ev.get("rq", ev.get("boxes"))), len(prev),
                                                sum(1 for a, b in zip(prev, ev["after"]) if a != b))))
            prev = ev["after"]


def mc(chk, prop, tier):
    base = os.path.join(vf.SPEC, "mc")
    if prop == "C19":
        cfgs = [("FillMC", "FillMC.cfg", False), ("FillMC", "FillMC_neg_width.cfg", True)]
    else:
        cfgs = [("CompositeMC", "CompositeMC.cfg" if tier == "quick" else "CompositeMC_full.cfg", False),
                ("CompositeMC", "CompositeMC_neg_srcclip_always.cfg", True),
                ("CompositeMC", "CompositeMC_neg_shift_sign.cfg", True),
                ("CompositeMC", "CompositeMC_neg_no_alpha.cfg", True)]
    for mod, cfg, neg in cfgs:
        r = vf.tlc_mc(os.path.join(base, mod + ".tla"), cfg=os.path.join(base, cfg), workers=8, timeout=1500,
                      expect_violation=neg)
        chk.add_tlc(r, ("negative config (must be rejected) " if neg else "model check ") + cfg)
        if not neg and (r.inv_violation or r.deadlock):
            raise vf.Infra("the model itself violates an invariant under %s:\n%s" % (cfg, r.out[-2500:]))


def save_scripts(chk, execs_by_name):
    """keep the script next to a saved replay so that --replay can re-execute it"""
    for v in chk.violations:
        try:
            lines = open(v["replay"]).read().splitlines()
            name = json.loads(lines[0]).get("scenario")
            base = name.split("@", 1)[0]
            if base in execs_by_name:
                with open(v["replay"] + ".script", "w") as f:
                    chain = name.split("@", 1)[1] if "@" in name else "default"
                    f.write("# PIXMAN_DISABLE=%s\n" % ("" if chain == "default" else chain.replace("+", " ")))
                    f.write("\n".join(execs_by_name[base]) + "\n")
        except Exception:
            pass


def header_rev():
    """harness/frame_common.h is shared by both drivers but not part of vf.build_driver's hash: make it one"""
    import hashlib
    return ("-DFC_REV=0x%s" % hashlib.sha1(open(os.path.join(vf.HARNESS, "frame_common.h"), "rb").read()).hexdigest()[:8],)


def rename(e, suffix):
    return ["R %s@%s" % (e[0][2:], suffix)] + e[1:]


def run(prop, args):
    chk = vf.Check(prop, args.tier, args.seed)
    rng = random.Random(args.seed * 1000003 + {"C19": 19, "C03": 3}[prop])
    quick = args.tier == "quick"
    wd = vf.workdir("frame-" + prop)
    # CONSTANT Deviations = ids of the open records of KNOWN_FINDINGS.jsonl for this property (proposed: fixes/C03.known_findings.jsonl)
    cfg = vf.cfg_with_deviations(os.path.join(vf.SPEC, "trace", "CompositeTrace_%s.cfg" % prop), prop)
    chk.extra["deviations_enabled"] = vf.open_findings(prop)
    drv = "drv_fill" if prop == "C19" else "drv_frame"

    if args.replay:
        exe, px = vf.build_driver(drv, "plain", cflags=header_rev())
        script = args.replay if args.replay.endswith(".script") else args.replay + ".script"
        first = open(script).readline()
        chain = first.split("=", 1)[1].strip() if first.startswith("# PIXMAN_DISABLE=") else ""
        body = [l for l in open(script).read().splitlines() if not l.startswith("#")]
        tr, _ = run_driver(exe, [body], wd, "replay", chain)
        vf.validate_batches(chk, "CompositeTrace", [tr], cfg=cfg, parallel=1)
        return chk.finish()

    # 1. design-level model checking
    mc(chk, prop, args.tier)

    # 2. scripts
    if prop == "C19":
        execs = fill_scenarios(rng, quick)
        ib = inplace_blt_scenarios(rng, quick)
        chk.extra["inplace_blt_executions"] = len(ib)
        execs += ib
        fmts = DIRECT + ["r8g8b8", "a4", "a2r10g10b10", "a1r5g5b5", "a4r4g4b4", "r3g3b2", "x14r6g6b6", "rgba_float"]
        if not quick:
            fmts = list(ALL_FORMATS)
        execs += fillboxes_scenarios(rng, quick, fmts, 3 if quick else 50)
        mfm = [DIRECT[args.seed % len(DIRECT)], rng.choice(["a1", "a8", "r5g6b5", "r8g8b8"])] if quick else \
            DIRECT + ["r8g8b8", "a4", "a2r10g10b10"]
        mx = fill_matrix_scenarios(rng, quick, mfm, "fill")
        chk.extra["directed_fill_matrix_executions"] = len(mx)
        nbase = len(execs)
        execs += mx
        am = alpha_matrix_scenarios(rng, quick, DEEP + (["a8r8g8b8", "r5g6b5"] if quick else
                                                        ["a8r8g8b8", "x8r8g8b8", "b8g8r8a8", "r5g6b5", "a8", "a1", "r8g8b8", "a4"]))
        chk.extra["directed_alpha_matrix_executions"] = len(am)
        execs += am
        fb = far_box_scenarios(rng, quick, [DIRECT[(args.seed + 5) % len(DIRECT)], rng.choice(["r8g8b8", "a4", "a2r10g10b10"])] if quick
                               else DIRECT + ["r8g8b8", "a4", "a2r10g10b10", "rgba_float"])
        chk.extra["far_box_executions"] = len(fb)
        execs += fb
        af = all_format_scenarios(rng, quick)
        chk.extra["destination_formats_covered"] = len(ALL_FORMATS)
        execs += af
        # structural sweep of fill / blt (depth x stride x x x width x height x stride sign): under every chain that has
        # a fill (each implementation has its own head / tail steps); a quarter of it where nothing is implemented
        fs = fill_structure_scenarios(rng, quick)
        chk.extra["structural_fill_blt_executions"] = len(fs)
        chains = CHAINS
        # quick: everything under the full and the general-only chain; half of the sweeps under the two in between
        per_chain = lambda ci: (execs if (not quick or ci in (0, 3)) else execs[ci:nbase:2]) + (fs if ci < 3 else fs[::4])
    else:
        behs, r = tlc_behaviours(200 if quick else 4800, 11 if quick else 13, args.seed)
        chk.add_tlc(r, "behaviour generation (CompositeGen, -generate)")
        chk.sample({"tlc_generated_behaviour": behs[0][:5]})
        chk.extra["tlc_generated_behaviours"] = len(behs)
        formats = FRAME_FORMATS_QUICK if quick else FRAME_FORMATS_ALL
        execs = []
        k = 0
        for beh in behs:
            fmt = formats[k % len(formats)]
            far = (k % 3 == 2)
            execs.append(embed_behaviour(rng, beh, "gen%d" % k, fmt, far, OPS_BASIC if k % 4 else OPS_ALL))
            k += 1
        for i in range(550 if quick else 14000):
            fmt = formats[(i * 7 + 3) % len(formats)] if i % 5 else rng.choice(A_FORMATS)
            execs.append(embed_behaviour(rng, random_behaviour(rng), "rnd%d" % i, fmt, i % 7 == 6,
                                         ["SRC", "SRC", "CLEAR", "OVER", "IN", "OUT", "ADD", "XOR"] if i % 3 else OPS_BASIC))
        chains = ["", "fast mmx sse2 ssse3"]
        # directed matrices: always with every implementation enabled (the shortcuts live there); thorough: both chains
        mfm = [rng.choice(["a8r8g8b8", "x8r8g8b8", "r5g6b5"]), rng.choice(["a8", "a1"])] if quick else DIRECT + ["r8g8b8", "a4"]
        dfm = [rng.choice(["a1", "a4"]), rng.choice(["a8", "a8r8g8b8", "r5g6b5", "r8g8b8"])] if quick else \
            ["a1", "a4", "a8", "r8g8b8", "r5g6b5", "a8r8g8b8", "x8r8g8b8", "a1r1g1b1"]
        pfm = [rng.choice(["a8r8g8b8", "r5g6b5", "a8", "x8r8g8b8"])] if quick else ["a8r8g8b8", "x8r8g8b8", "r5g6b5", "a8", "a4", "r8g8b8"]
        directed = fill_matrix_scenarios(rng, quick, mfm, "frame") + draw_matrix_scenarios(rng, quick, dfm) \
            + presentation_matrix_scenarios(rng, quick, pfm) \
            + clip_flag_history_scenarios(rng, quick, [rng.choice(["a8r8g8b8", "r5g6b5"]), "a8"] if quick
                                          else ["a8r8g8b8", "x8r8g8b8", "r5g6b5", "a8", "a4", "r8g8b8"]) \
            + history_scenarios(rng, quick, [rng.choice(["a8r8g8b8", "r5g6b5"]), rng.choice(["a8", "a4", "r8g8b8"])] if quick
                                else ["a8r8g8b8", "x8r8g8b8", "r5g6b5", "a8", "a4", "a1", "r8g8b8"], 30 if quick else 150) \
            + alpha_map_clip_scenarios(rng, quick, [rng.choice(["a8r8g8b8", "r5g6b5", "a8"])] if quick
                                       else ["a8r8g8b8", "x8r8g8b8", "r5g6b5", "a8"])
        chk.extra["directed_matrix_executions"] = len(directed)
        nrand = len(execs)
        execs += directed
        per_chain = lambda ci: execs[ci:nrand:2] + (directed if (ci == 0 or not quick) else [])
    chk.extra["executions_per_chain"] = {(c or "(all implementations)"): len(per_chain(i)) for i, c in enumerate(chains)}
    by_name = {e[0][2:]: e for ci in range(len(chains)) for e in per_chain(ci)}

    # 3. execute on the real library (built from /repo's working tree), one process per implementation chain
    exe, px = vf.build_driver(drv, "plain", cflags=header_rev())
    chk.extra["build"] = px["hash"]
    traces = []
    nb = (4 if prop == "C19" else 6) * (1 if quick else 4)
    for ci, chain in enumerate(chains):
        part = [rename(e, chain.replace(" ", "+") or "default") for e in per_chain(ci)]
        nbc = nb * 2 if (prop == "C19" and ci == 0) else nb      # successful fills cost TLC more: smaller batches
        for bi in range(nbc):
            sub = part[bi::nbc]
            if not sub:
                continue
            tr, out = run_driver(exe, sub, wd, "c%d_b%d" % (ci, bi), chain)
            want = len(chain.split())
            crashed = '"e":"Crash"' in open(tr).read()[-200:]
            if out.count("pixman: Disabled") != want and not crashed:
                raise vf.Infra("PIXMAN_DISABLE=%r not honoured by the driver process (stdout: %r)" % (chain, out[:300]))
            traces.append(tr)
            tally(chk, tr, chain, prop)
    chk.sample({"script_lines": execs[-1][:8]})
    chk.sample({"script_lines": execs[0][:6]})

    if prop == "C19":
        # "always FALSE" must not pass silently: with every implementation enabled the depths that the C fast path
        # implements have to be served
        t = chk.extra["returned_true_by_chain_and_bpp"]["(all implementations)"]
        served = [k for k, v in t.items() if k.startswith("fill ") and v[0] > 0]
        if not served:
            raise vf.Infra("vacuous run: pixman_fill never returned TRUE with all implementations enabled: %r" % t)

    # 4. trace validation
    vf.validate_batches(chk, "CompositeTrace", traces, cfg=cfg, parallel=12, timeout=1500)
    save_scripts(chk, by_name)
    if prop == "C19":
        chk.extra["rule"] = ("a case is one logged call; distinct = distinct (call, depth, x, width, height, stride, "
                             "buffer offset) of a successful non-empty fill/blt, or distinct (operator, boxes, number of "
                             "bytes changed) of a fill_boxes call that changed the destination")
        chk.assumptions += ["little-endian host (bit layout of 1/4/24-bpp pixels as pixman defines it for !WORDS_BIGENDIAN)",
                            "rows of a fill/blt rectangle do not overlap and lie inside the buffer; source and destination "
                            "of a blt are different buffers, or (in-place blt) every source row is its own destination row or "
                            "touches no destination row",
                            "the reference for fill_boxes is pixman_image_composite32 of the same library build with a "
                            "solid source (the statement is that equivalence); unused (x) bits of a pixel are not compared",
                            "TLC/SANY and the CommunityModules Json/IOUtils readers are trusted"]
    else:
        chk.extra["rule"] = ("a case is one logged call; distinct = distinct non-empty region report, or distinct (entry "
                             "point, operator, request, number of bytes changed) of a drawing call that changed the "
                             "destination")
        chk.assumptions += ["little-endian host", "coordinates and offsets such that no int32 sum overflows",
                            "alpha-map clip regions are not set (not in the statement)",
                            "a write that stores the value already present is invisible to a before/after comparison",
                            "TLC/SANY and the CommunityModules Json/IOUtils readers are trusted"]
        # root specification (spec/Pixman.tla): clips built by region operations, consumed by composites; the changed
        # pixels are exactly those of the composite region (nothing outside it: C03)
        import pipeline
        pipeline.stage(chk, args)
    return chk.finish()
