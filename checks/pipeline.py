# Root specification spec/Pixman.tla: region operations -> clip -> composite, checked end to end.
# Not a property of its own: `stage(chk, args)` is run as an extra stage of C01 (every pixel of the composite
# region receives the operator's value) and C03 (nothing outside it changes); `bin/check PIPE` runs it alone.
import os
import random

import vf

PROPS = {}
CLAIMS = {}

EXACT_OPS = list(range(0, 13))


def gen(rng, nexec):
    """Histories of the root specification: images 1 (destination), 2 (source), 3 (mask), 4 (solid fill), 5 (second
    destination, a copy of a reference-counted life), region variables 1..3.  The generator keeps the reference counts
    so that no call names an image that has gone (the specification would refuse the event)."""
    execs = []
    shapes = [
        [[0, 0, 3, 2]], [[1, 0, 4, 1], [0, 1, 2, 3]], [[0, 0, 2, 2], [3, 0, 5, 2], [0, 3, 5, 4]],
        [[0, 0, 6, 1], [0, 1, 1, 3], [5, 1, 6, 3], [0, 3, 6, 4]], [], [[2, 1, 3, 2]],
        [[-3, -2, 2, 2], [4, 2, 12, 9]],
    ]
    chan16 = [0, 0xff, 0x100, 0x7fff, 0x8000, 0xff00, 0xfeff, 0xffff, 0x1234, 0xabcd]
    for e in range(nexec):
        out = ["R pipe%d" % e]
        dw, dh = rng.randint(3, 8), rng.randint(2, 5)
        sw, sh = rng.randint(1, 8), rng.randint(1, 5)
        mw, mh = rng.randint(1, 8), rng.randint(1, 5)
        rich = e % 3 != 0               # every third execution stays in the original scope (a8r8g8b8, no mask)
        dfmt = rng.choice([0, 0, 1, 2]) if rich else 0
        sfmt = rng.choice([0, 1, 2, 0]) if rich else 0
        mfmt = rng.choice([2, 2, 0, 1])
        out.append("I 1 %d %d %d %d" % (dw, dh, rng.randrange(1, 2 ** 31), dfmt))
        out.append("I 2 %d %d %d %d" % (sw, sh, rng.randrange(1, 2 ** 31), sfmt))
        refs = {1: 1, 2: 1}
        dims = {1: (dw, dh), 2: (sw, sh)}
        if rich:
            out.append("I 3 %d %d %d %d" % (mw, mh, rng.randrange(1, 2 ** 31), mfmt))
            out.append("F 4 %d %d %d %d" % tuple(rng.choice(chan16) for _ in range(4)))
            refs[3] = refs[4] = 1
            dims[3] = (mw, mh)
            if mfmt != 2 and rng.random() < 0.7:
                out.append("A 3 1")
            if e % 4 in (1, 2):       # a mask (or source) clip in force from the start: later requests differ in offsets
                sh0 = rng.choice(shapes[:4])
                out.append("r init 1 %d %s" % (len(sh0), " ".join(str(c) for b in sh0 for c in b)))
                out.append("K %d 1" % (3 if e % 4 == 1 else 2))
                out.append("S %d 1" % (3 if e % 4 == 1 else 2))
        kinds = ["init", "init", "algebra", "translate", "clipd", "clips", "srcclip", "comp", "comp", "comp"]
        if rich and e % 5 in (1, 3):        # image 5: an alpha map for the source and / or the mask (never unreferenced itself)
            out.append("I 5 %d %d %d %d" % (rng.randint(1, 8), rng.randint(1, 5), rng.randrange(1, 2 ** 31), rng.choice([2, 2, 0, 1])))
            out.append("M %d 5 %d %d" % (rng.choice([2, 2, 3]), rng.randint(-2, 3), rng.randint(-1, 2)))
            kinds += ["amap", "amap", "amapoff", "comp", "comp"]
        if rich:
            kinds += ["clipm", "mclip", "repeat", "repeat", "shift", "shift", "ca", "ref", "unref", "fill", "fill",
                      "comp", "comp", "comp", "solidcomp"]
        for step in range(rng.randint(4, 12 if rich else 9)):
            k = rng.choice(kinds)
            if k == "init":
                v = rng.randint(1, 3)
                sh_ = rng.choice(shapes)
                if rng.random() < 0.4:
                    sh_ = [[rng.randint(-1, dw), rng.randint(-1, dh), rng.randint(0, dw + 2), rng.randint(0, dh + 2)]
                           for _ in range(rng.randint(1, 4))]
                flat = [c for b in sh_ for c in b]
                out.append("r init %d %d %s" % (v, len(sh_), " ".join(map(str, flat))))
            elif k == "algebra":
                out.append("r %s %d %d %d" % (rng.choice(["union", "intersect", "subtract"]), rng.randint(1, 3),
                                              rng.randint(1, 3), rng.randint(1, 3)))
            elif k == "translate":
                out.append("r translate %d %d %d" % (rng.randint(1, 3), rng.randint(-2, 2), rng.randint(-1, 1)))
            elif k == "clipd":
                out.append("K 1 %d" % rng.choice([0, 1, 2, 3, 1, 2]))
            elif k == "clips" and refs.get(2):
                out.append("K 2 %d" % rng.choice([0, 1, 2, 3]))
            elif k == "srcclip" and refs.get(2):
                out.append("S 2 %d" % rng.randint(0, 1))
            elif k == "clipm" and refs.get(3):
                out.append("K 3 %d" % rng.choice([0, 1, 2, 3]))
            elif k == "mclip" and refs.get(3):
                out.append("S 3 %d" % rng.randint(0, 1))
            elif k == "repeat":
                i = rng.choice([2, 3])
                if refs.get(i):
                    out.append("P %d %d" % (i, rng.randint(0, 3)))
            elif k == "shift":
                i = rng.choice([2, 2, 3])
                if refs.get(i):
                    out.append("T %d %d %d" % (i, rng.choice([-9, -2, -1, 0, 1, 2, 3, 17]), rng.choice([-5, -1, 0, 1, 2])))
            elif k == "amap":
                i = rng.choice([2, 2, 3])
                if refs.get(i):
                    out.append("M %d 5 %d %d" % (i, rng.randint(-2, 3), rng.randint(-1, 2)))
            elif k == "amapoff":
                i = rng.choice([2, 3])
                if refs.get(i):
                    out.append("M %d 0 0 0" % i)
            elif k == "ca" and refs.get(3) and mfmt != 2:
                out.append("A 3 %d" % rng.randint(0, 1))
            elif k == "ref":
                i = rng.choice([2, 3, 4])
                if refs.get(i):
                    out.append("G %d" % i)
                    refs[i] += 1
            elif k == "unref":
                i = rng.choice([2, 3, 4])
                if refs.get(i, 0) > 1 or (refs.get(i) == 1 and rng.random() < 0.15):
                    out.append("U %d" % i)
                    refs[i] -= 1
            elif k == "fill":
                n = rng.choice([1, 1, 2, 3, 5])
                bx = []
                for _ in range(n):
                    x1, y1 = rng.randint(-2, dw), rng.randint(-2, dh)
                    bx += [x1, y1, x1 + rng.randint(0, dw + 1), y1 + rng.randint(0, dh + 1)]
                if n > 1 and rng.random() < 0.4:      # a box given twice: drawn once
                    bx[4:8] = bx[0:4]
                a = rng.choice(chan16)
                col = [a] + [min(a, rng.choice(chan16)) if rng.random() < 0.5 else rng.choice(chan16) for _ in range(3)]
                out.append("B %d 1 %d %d %d %d %d %s" % (rng.choice(EXACT_OPS), col[0], col[1], col[2], col[3], n,
                                                         " ".join(map(str, bx))))
            elif k in ("comp", "solidcomp"):
                w, h = rng.randint(0, dw + 1), rng.randint(1, dh + 1)
                s_ = 4 if (k == "solidcomp" and refs.get(4)) else 2
                if not refs.get(s_):
                    continue
                m_ = 3 if (rich and refs.get(3) and rng.random() < 0.6) else 0
                if rich and m_ and refs.get(4) and rng.random() < 0.1:
                    m_ = 4                                  # a solid mask
                out.append("C %d %d %d 1 %d %d %d %d %d %d %d %d" % (
                    rng.choice(EXACT_OPS), s_, m_, rng.randint(-1, 2), rng.randint(-1, 1),
                    rng.randint(-1, 2) if m_ else 0, rng.randint(-1, 1) if m_ else 0,
                    rng.randint(-1, dw - 1), rng.randint(-1, dh - 1), w, h))
                if rng.random() < 0.3 and refs.get(2) and not rich:
                    # the destination as its own source region history: composite d -> s
                    out.append("C %d 1 0 2 0 0 0 0 0 0 %d %d" % (rng.choice([1, 3, 12]), sw, sh))
        execs.append(out)
    return execs


def stage(chk, args, configs=("", "fast mmx sse2 ssse3")):
    quick = args.tier == "quick"
    rng = random.Random(args.seed * 977 + 41)
    wd = vf.workdir("pipeline")
    base = os.path.join(vf.SPEC, "mc")
    r = vf.tlc_mc(os.path.join(base, "PixmanMC.tla"), cfg=os.path.join(base, "PixmanMC.cfg"), workers=8, timeout=1500)
    chk.add_tlc(r, "model check PixmanMC (composed region -> clip -> composite vs pointwise definition)")
    if "violated" in r.out:
        raise vf.Infra("PixmanMC violated:\n" + r.out[-2000:])
    rn = vf.tlc_mc(os.path.join(base, "PixmanMC.tla"), cfg=os.path.join(base, "PixmanMC_neg.cfg"), workers=4,
                   expect_violation=True)
    chk.add_tlc(rn, "negative config (source clip applied although disabled; must be rejected)")
    # the root specification as a state machine: every history of setters / reference counting / region calls /
    # composites / fills up to a depth, with the relations between its pieces evaluated in every state
    rs = vf.tlc_mc(os.path.join(base, "PixmanSysMC.tla"),
                   cfg=os.path.join(base, "PixmanSysMC.cfg" if quick else "PixmanSysMC_deep.cfg"), workers=8, timeout=1500)
    chk.add_tlc(rs, "model check PixmanSysMC (histories of the root specification: Frame, FillIsComp, ShortcutSound, SolidIsTile, "
                    "OpaqueFormat, TranslateIsOffset, RefsPositive, UnaffectedByHistory)")
    if "violated" in rs.out:
        raise vf.Infra("PixmanSysMC violated:\n" + rs.out[-2000:])
    for neg, what in (("PixmanSysMC_neg_fill.cfg", "fill_boxes drawn as the union of the boxes (doubly covered pixels blended once)"),
                      ("PixmanSysMC_neg_clip.cfg", "a source clip that moves with the image's transform")):
        rn = vf.tlc_mc(os.path.join(base, "PixmanSysMC.tla"), cfg=os.path.join(base, neg), workers=2, expect_violation=True)
        chk.add_tlc(rn, "negative config (%s; must be rejected)" % what)
    exe, px = vf.build_driver("drv_pipeline", "plain")
    execs = gen(rng, 240 if quick else 3000)
    traces = []
    nb = 4
    ncomp = 0
    for ci, dis in enumerate(configs):
        for b in range(nb):
            part = execs[b::nb]
            sp = os.path.join(wd, "p%d_%d.script" % (ci, b))
            open(sp, "w").write("".join("\n".join(e) + "\n" for e in part))
            tr = os.path.join(wd, "p%d_%d.ndjson" % (ci, b))
            vf.run_driver([exe, sp, tr], tr, env={"PIXMAN_DISABLE": dis}, timeout=600)
            traces.append(tr)
            ncomp += sum(1 for l in open(tr) if l.startswith('{"e":"Comp"') or l.startswith('{"e":"Fill"'))
    chk.extra["pipeline_composites"] = ncomp
    chk.evaluations += ncomp
    chk.sample({"pipeline_script": execs[0][:8]})
    vf.validate_batches(chk, "PixmanTrace", traces, cfg=os.path.join(vf.SPEC, "trace", "PixmanTrace.cfg"),
                        parallel=8, timeout=1500, label="pipeline traces (spec/Pixman.tla)")


def run(prop, args):
    chk = vf.Check(prop, args.tier, args.seed)
    stage(chk, args)
    chk.extra["distinct_nontrivial"] = chk.extra.get("pipeline_composites", 0)
    return chk.finish()
