# Root specification spec/Pixman.tla: region operations -> clip -> composite, checked end to end.
# Not a property of its own: `stage(chk, args)` is run as an extra stage of C01 (every pixel of the composite
# region receives the operator's value) and C03 (nothing outside it changes); `bin/check PIPE` runs it alone.
import os
import random

import vf

PROPS = {}
CLAIMS = {}

EXACT_OPS = list(range(0, 13))


def gen(rng, nexec):
    execs = []
    shapes = [
        [[0, 0, 3, 2]], [[1, 0, 4, 1], [0, 1, 2, 3]], [[0, 0, 2, 2], [3, 0, 5, 2], [0, 3, 5, 4]],
        [[0, 0, 6, 1], [0, 1, 1, 3], [5, 1, 6, 3], [0, 3, 6, 4]], [], [[2, 1, 3, 2]],
        [[-3, -2, 2, 2], [4, 2, 12, 9]],
    ]
    for e in range(nexec):
        out = ["R pipe%d" % e]
        dw, dh = rng.randint(3, 8), rng.randint(2, 5)
        sw, sh = rng.randint(2, 8), rng.randint(1, 5)
        out.append("I 1 %d %d %d" % (dw, dh, rng.randrange(1, 2 ** 31)))
        out.append("I 2 %d %d %d" % (sw, sh, rng.randrange(1, 2 ** 31)))
        for step in range(rng.randint(4, 9)):
            k = rng.choice(["init", "init", "algebra", "translate", "clipd", "clips", "srcclip", "comp", "comp", "comp"])
            if k == "init":
                v = rng.randint(1, 3)
                sh_ = rng.choice(shapes)
                if rng.random() < 0.4:
                    sh_ = [[rng.randint(-1, dw), rng.randint(-1, dh), rng.randint(0, dw + 2), rng.randint(0, dh + 2)]
                           for _ in range(rng.randint(1, 4))]
                flat = [c for b in sh_ for c in b]
                out.append("r init %d %d %s" % (v, len(sh_), " ".join(map(str, flat))))
            elif k == "algebra":
                out.append("r %s %d %d %d" % (rng.choice(["union", "intersect", "subtract"]), rng.randint(1, 3),
                                              rng.randint(1, 3), rng.randint(1, 3)))
            elif k == "translate":
                out.append("r translate %d %d %d" % (rng.randint(1, 3), rng.randint(-2, 2), rng.randint(-1, 1)))
            elif k == "clipd":
                out.append("K 1 %d" % rng.choice([0, 1, 2, 3, 1, 2]))
            elif k == "clips":
                out.append("K 2 %d" % rng.choice([0, 1, 2, 3]))
            elif k == "srcclip":
                out.append("S 2 %d" % rng.randint(0, 1))
            else:
                w, h = rng.randint(0, dw + 1), rng.randint(1, dh + 1)
                out.append("C %d 2 1 %d %d %d %d %d %d" % (rng.choice(EXACT_OPS), rng.randint(-1, 2), rng.randint(-1, 1),
                                                         rng.randint(-1, dw - 1), rng.randint(-1, dh - 1), w, h))
                if rng.random() < 0.3:      # the destination as its own source region history: composite d -> s
                    out.append("C %d 1 2 0 0 0 0 %d %d" % (rng.choice([1, 3, 12]), sw, sh))
        execs.append(out)
    return execs


def stage(chk, args, configs=("", "fast mmx sse2 ssse3")):
    quick = args.tier == "quick"
    rng = random.Random(args.seed * 977 + 41)
    wd = vf.workdir("pipeline")
    base = os.path.join(vf.SPEC, "mc")
    r = vf.tlc_mc(os.path.join(base, "PixmanMC.tla"), cfg=os.path.join(base, "PixmanMC.cfg"), workers=8, timeout=1500)
    chk.add_tlc(r, "model check PixmanMC (composed region -> clip -> composite vs pointwise definition)")
    if "violated" in r.out:
        raise vf.Infra("PixmanMC violated:\n" + r.out[-2000:])
    rn = vf.tlc_mc(os.path.join(base, "PixmanMC.tla"), cfg=os.path.join(base, "PixmanMC_neg.cfg"), workers=4,
                   expect_violation=True)
    chk.add_tlc(rn, "negative config (source clip applied although disabled; must be rejected)")
    exe, px = vf.build_driver("drv_pipeline", "plain")
    execs = gen(rng, 240 if quick else 3000)
    traces = []
    nb = 4
    ncomp = 0
    for ci, dis in enumerate(configs):
        for b in range(nb):
            part = execs[b::nb]
            sp = os.path.join(wd, "p%d_%d.script" % (ci, b))
            open(sp, "w").write("".join("\n".join(e) + "\n" for e in part))
            tr = os.path.join(wd, "p%d_%d.ndjson" % (ci, b))
            vf.run_driver([exe, sp, tr], tr, env={"PIXMAN_DISABLE": dis}, timeout=600)
            traces.append(tr)
            ncomp += sum(1 for l in open(tr) if l.startswith('{"e":"Comp"'))
    chk.extra["pipeline_composites"] = ncomp
    chk.evaluations += ncomp
    chk.sample({"pipeline_script": execs[0][:8]})
    vf.validate_batches(chk, "PixmanTrace", traces, cfg=os.path.join(vf.SPEC, "trace", "PixmanTrace.cfg"),
                        parallel=8, timeout=1500, label="pipeline traces (spec/Pixman.tla)")


def run(prop, args):
    chk = vf.Check(prop, args.tier, args.seed)
    stage(chk, args)
    chk.extra["distinct_nontrivial"] = chk.extra.get("pipeline_composites", 0)
    return chk.finish()
