# C09: opacity-based operator and path simplifications.  spec/Opacity.tla, mc/OpacityMC, trace/OpacityTrace,
# harness/drv_opacity.c.
import os
import random
import re

import vf
from dispatch import F, OPS_ALL, FX1

PROPS = {"C09": "C09"}
CLAIMS = {
    "C09": dict(
        technique="TLA+ Opacity spec: TLC derives the set of semantically valid operator reductions per opacity cell "
                  "from the exact Porter-Duff rule and checks pixman's table against it; paired presentations of "
                  "the same opaque content executed on the real library, Dispatch hook events and results validated "
                  "by TLC",
        text="OpacityMC enumerates every (operator, opacity cell) and all channel values of a boundary-rich set "
             "(thorough: 0..255 for alphas) and derives which operators are interchangeable in each cell; pixman's "
             "reduction table must lie inside that set (negative configuration with a wrong cell is rejected). On the "
             "real library every operator is run on pairs of presentations of the same fully opaque content "
             "(x8r8g8b8 / a8r8g8b8 alpha 255 / r5g6b5 / solid / 1x1 repeating / constant image as source; absent / "
             "all-ones a8 / solid white / all-ones component-alpha mask; x8r8g8b8 / a8r8g8b8 destination), with "
             "identity, translated, scaled and bilinear sources, all repeat modes and request rectangles partly "
             "outside a non-repeating source. TLC requires: the operator pixman actually used (hook event) is a valid "
             "replacement in the cell given by its IS_OPAQUE flags; a flag is only set on an image that is truly "
             "opaque for the request; both presentations leave identical channel values (within one step where "
             "the variants are evaluated at different precision: SATURATE, 565 sources under float operators). " + 'The pairs include projective transforms, with a directed family in which one corner of the request falls outside a non-repeating alpha-less source while the opposite corners are inside.' + " Gradients: linear, radial and conical gradients x the four repeat modes x stop lists spanning [0, 1] or strictly inside it, with opaque or translucent stops, as sources and as masks, each presented directly and as an a8r8g8b8 image holding the same samples; TLC decides from the logged samples of the gradient whether it is truly opaque for the request and requires every opaque flag, dropped mask and reduced operator to be justified by that.",
        ref="5 C09"),
}

FLOAT_OPS = set([13] + [o for o in OPS_ALL if o >= 0x10])


def preq(pair, variant, cmp_, op, skind, sfmt, sw, sh, srep, sfilt, t, mkind, dfmt, dw, dh, sx, sy, dx, dy, w, h,
         seed, quant):
    f = [pair, variant, cmp_, op, skind, sfmt, sw, sh, srep, sfilt] + list(t) + [mkind, dfmt, dw, dh, sx, sy, dx, dy,
                                                                                  w, h, seed, quant]
    assert len(f) == 28
    return "P " + " ".join(str(int(x)) for x in f)


def gen_pairs(rng, per_op):
    lines = []
    pair = 0
    A, X, R565 = F["a8r8g8b8"], F["x8r8g8b8"], F["r5g6b5"]
    for op in OPS_ALL:
        for _ in range(per_op):
            fam = rng.choice(["S1", "S1", "S2", "S3", "M1", "M1", "D1", "D1"])
            if fam == "S2" and op in FLOAT_OPS:
                # r5g6b5 content is widened to different real values (n/31 vs n/255): under float-evaluated operators
                # the two presentations are not the same content, and ill-conditioned operators amplify the difference
                fam = "S1"
            dw, dh = rng.randint(4, 12), rng.randint(1, 3)
            w, h = rng.randint(1, dw), rng.randint(1, dh)
            dx, dy = rng.randint(0, dw - w), rng.randint(0, dh - h)
            seed = rng.randrange(1, 2 ** 31)
            geo = rng.choice(["inside", "inside", "outside", "scaled", "bilinear", "translate", "conv", "conv", "persp"])
            if geo == "conv" and fam in ("S2", "S3"):
                fam = "S1"      # a solid colour cannot carry the filter; 565 sources use other fetchers
            sw, sh = dw + 6, dh + 4
            sx, sy = rng.randint(0, 3), rng.randint(0, 2)
            t = [FX1, 0, 0, FX1, 0, 0]
            sfilt = 3                      # NEAREST
            srep = rng.choice([0, 0, 1, 2, 3])
            if geo == "outside":
                sw, sh = max(1, dw - 2), max(1, dh)       # the request reaches outside the source
                sx = rng.choice([-2, 0, 1])
                sy = rng.choice([-1, 0, 1])
            elif geo == "scaled":
                t = [rng.choice([FX1 * 3 // 2, FX1 // 2, FX1 * 2]), 0, 0, FX1, rng.choice([0, FX1 // 2]), 0]
            elif geo == "bilinear":
                sfilt = 4
                t = [FX1, 0, 0, FX1, FX1 // 2, FX1 // 4]
            elif geo == "translate":
                t = [FX1, 0, 0, FX1, rng.choice([-2, 1, 3]) * FX1, rng.choice([-1, 0, 2]) * FX1]
            elif geo == "persp":
                # projective transforms (diagonal, sheared and rotated upper part): the corners of the request map to a
                # quadrilateral, part of which lies outside a non-repeating source
                srep = rng.choice([0, 0, 0, 1, 2, 3])
                sfilt = rng.choice([3, 4])
                t = rng.choice([[FX1, 0, 0, FX1, 0, 0], [FX1 * 3 // 2, 0, 0, FX1 * 3 // 4, rng.choice([0, FX1 // 2]), 0],
                                [FX1, FX1 // 4, 0, FX1, 0, 0], [0, FX1, -FX1, 0, 0, (dh + 3) * FX1]])
                sw, sh = dw + rng.choice([-2, 0, 3]), dh + rng.choice([0, 2])
            elif geo == "conv":
                # convolution / separable convolution kernels with gain 1/2, 1, 3/2 (codes understood by the driver):
                # an alpha-less image under a kernel whose coefficients do not sum to 1 is not opaque any more
                sfilt = rng.choice([50, 51, 52, 60, 61, 62])
                srep = rng.choice([1, 2, 3, 1, 2, 3, 0])
                if rng.random() < 0.5:
                    t = [FX1, 0, 0, FX1, rng.choice([0, FX1 // 2]), 0]
            skind, mkind, dfmt = 0, 0, rng.choice([A, X])
            variants = []
            quant = 0
            cmp_ = 1 if op == 13 else 0
            if fam == "S1":
                variants = [dict(sfmt=X), dict(sfmt=A)]
            elif fam == "S2":
                quant = 1
                variants = [dict(sfmt=R565), dict(sfmt=X)]
                if op in FLOAT_OPS:
                    cmp_ = 1
            elif fam == "S3":
                # a solid colour extends everywhere: the image presentations must repeat to hold the same content
                srep = rng.choice([1, 2, 3])
                ks = rng.sample([(1, X), (2, X), (3, X), (2, A), (3, A)], 2)
                variants = [dict(skind=ks[0][0], sfmt=ks[0][1]), dict(skind=ks[1][0], sfmt=ks[1][1])]
                if op in FLOAT_OPS:
                    cmp_ = 1
            elif fam == "M1":
                skind = rng.choice([0, 4, 5])
                # component-alpha HSL has no defined equation (pixman makes it a no-op): not a presentation of "no mask"
                ms = rng.sample([0, 1, 2] if op >= 0x3b else [0, 1, 2, 3], 2)
                sf = rng.choice([A, X]) if skind == 0 else A
                variants = [dict(mkind=ms[0], sfmt=sf), dict(mkind=ms[1], sfmt=sf)]
            else:  # D1
                skind = rng.choice([0, 4, 1, 5, 5])
                sf = rng.choice([A, X]) if skind == 0 else A
                mk = rng.choice([0, 4, 5])
                variants = [dict(dfmt=X, sfmt=sf, mkind=mk), dict(dfmt=A, sfmt=sf, mkind=mk)]
                if rng.random() < 0.7:
                    quant |= 2          # destination with REPEAT_NORMAL: the alpha-less one is flagged opaque
            if fam in ("S1", "S2") and rng.random() < 0.5:
                mkind = rng.choice([1, 4, 6, 6, 2, 5])       # the same mask in both presentations of the source
            if geo == "persp":
                quant |= rng.randint(1, 15) << 4
            for vi, v in enumerate(variants):
                lines.append(preq(pair, vi, cmp_, op, v.get("skind", skind), v["sfmt"], sw, sh, srep, sfilt, t,
                                  v.get("mkind", mkind), v.get("dfmt", dfmt), dw, dh, sx, sy, dx, dy, w, h, seed,
                                  quant))
            pair += 1
    # Systematic suite along the fast-path tables: the operators that have special-cased routines x every kind of mask
    # x every destination family x untransformed / nearest-scaled / bilinear-scaled geometry, with the source presented
    # alpha-less (junk in the x byte) and with alpha 255, and (second family) the destination presented both ways.
    for op in (1, 3, 12, 5, 6, 8, 4, 10):      # SRC OVER ADD IN IN_REVERSE OUT_REVERSE OVER_REVERSE ATOP_REVERSE
        for mk in (0, 1, 6, 4, 2, 5, 3):
            for dfmt in (A, X, R565):
                for geo in ("plain", "nearest-scaled", "bilinear-scaled"):
                    dw, dh = rng.randint(9, 14), 2
                    w, h = dw - rng.randint(0, 2), dh
                    dx, dy = dw - w, 0
                    seed = rng.randrange(1, 2 ** 31)
                    sw, sh = dw + 6, dh + 4
                    t, sfilt = [FX1, 0, 0, FX1, 0, 0], 3
                    if geo != "plain":
                        t = [rng.choice([FX1 * 3 // 2, FX1 // 2]), 0, 0, FX1, 0, 0]
                        sfilt = 3 if geo == "nearest-scaled" else 4
                    srep = rng.choice([0, 1, 2, 3]) if geo != "plain" else 0
                    for vi, sf in enumerate((X, A)):
                        lines.append(preq(pair, vi, 0, op, 0, sf, sw, sh, srep, sfilt, t, mk, dfmt, dw, dh,
                                          1, 1, dx, dy, w, h, seed, 0))
                    pair += 1
                    if dfmt != R565 and geo == "plain":
                        sk = rng.choice([0, 4])
                        for vi, df in enumerate((X, A)):
                            lines.append(preq(pair, vi, 0, op, sk, A, sw, sh, 0, 3, t, mk, df, dw, dh,
                                              1, 1, dx, dy, w, h, seed, 0))
                        pair += 1
    # Projective transforms under which the four corners of the request map to a quadrilateral that two opposite corners
    # do not bound: the corner (x2, y1) or (x1, y2) - or (x2, y2) - falls outside a non-repeating alpha-less source while
    # the others stay inside.  Whatever the library concludes from the corners, the samples outside are transparent.
    # persp codes (driver table): 11 / 12: w = 1 +- y/8; 7 / 8: w = 1 +- x/16; 3 / 4: w = 1 +- y/16; 1 / 2: w = 1 +- x/32
    for op in (3, 1, 5, 8, 11):              # OVER SRC IN OUT_REVERSE XOR
        for pc in (11, 12, 7, 8, 3, 4, 1, 2, 9, 10):
            for dsw, dsh in ((-2, 0), (-1, 1), (0, -1), (1, -1), (-3, -1), (2, 2)):
                dw, dh = 12, 3
                sw, sh = max(1, dw + dsw), max(1, dh + dsh)
                seed = rng.randrange(1, 2 ** 31)
                sfilt = 3 if (pc + dsw) % 2 else 4
                for vi, sf in enumerate((X, A)):
                    lines.append(preq(pair, vi, 0, op, 0, sf, sw, sh, 0, sfilt, [FX1, 0, 0, FX1, 0, 0], 0, A, dw, dh,
                                      0, 0, 0, 0, dw, dh, seed, pc << 4))
                pair += 1
    # the same solid colour drawn by pixman_image_fill_boxes and by compositing a solid image: opaque (alpha 0xffff)
    # and almost opaque / translucent 16-bit alphas, every operator family, shallow and deep destinations (the
    # direct-fill shortcut of fill_boxes is an opacity-based simplification too)
    A2R10 = (32 << 24) | (2 << 16) | (2 << 12) | (10 << 8) | (10 << 4) | 10
    for op in (1, 3, 12, 5, 8, 0, 11, 4, 13, 0x13, 0x30):   # SRC OVER ADD IN OUT_REVERSE CLEAR XOR OVER_REVERSE SATURATE DISJOINT_OVER MULTIPLY
        for dfmt in (A, X, R565, A2R10):
            for j, (k1, k2) in enumerate(((1, 6), (5, 7), (5, 7), (5, 7))):
                dw, dh = rng.randint(3, 9), 2
                w, h = dw - rng.randint(0, 1), dh
                seed = rng.randrange(1, 2 ** 31)
                if j:       # the driver takes the almost-opaque alpha from seed % 6: 0xfffe, 0xff00 and 0x8000 for EVERY cell
                    seed = seed - seed % 6 + 6 + (0, 2, 4)[j - 1]
                for vi, sk in enumerate((k1, k2)):
                    lines.append(preq(pair, vi, 0, op, sk, A, 1, 1, 0, 3, [FX1, 0, 0, FX1, 0, 0], 0, dfmt, dw, dh,
                                      0, 0, dw - w, 0, w, h, seed, 0))
                pair += 1
    return lines, pair


def gen_gradient_pairs(rng, pair, per_cell):
    """Gradients as sources and as masks: kind (linear, radial, conical) x repeat mode x stop list (spanning [0, 1] or
    strictly inside it / touching one end; all stops opaque or some translucent) x geometry (reference points inside, on
    the edge of and outside the request; on pixel centres, pixel corners and in between), each presented directly and as
    an a8r8g8b8 image holding the same samples, under the operators that opacity reduces."""
    lines = []
    A, X, R565 = F["a8r8g8b8"], F["x8r8g8b8"], F["r5g6b5"]
    H = FX1 // 2
    STOPS = [[0, FX1], [0, H, FX1], [FX1 // 4, 3 * FX1 // 4], [FX1 // 10, H, 3 * FX1 // 5], [0, 3 * FX1 // 4],
             [FX1 // 4, FX1], [H], [0, FX1 // 3, 2 * FX1 // 3, FX1]]
    REDUCIBLE = [3, 6, 8, 9, 11, 10, 4, 5, 7]      # OVER IN_REVERSE OUT_REVERSE ATOP XOR ATOP_REVERSE OVER_REVERSE IN OUT
    for gkind in (0, 1, 2):
        for grep in (0, 1, 2, 3):                  # NONE NORMAL PAD REFLECT
            for si, pos in enumerate(STOPS):
                for role in (0, 1):
                    for _ in range(per_cell):
                        dw, dh = rng.randint(5, 12), rng.randint(2, 4)
                        w, h = rng.randint(3, dw), rng.randint(1, dh)
                        dx, dy = rng.randint(0, dw - w), rng.randint(0, dh - h)
                        gx, gy = rng.choice([0, 0, 1, -2, 3]), rng.choice([0, 0, 1, -1])
                        # reference points in gradient space, relative to the part of it the request samples
                        def pt():
                            px = (gx + rng.randint(-1, w + 1)) * FX1 + rng.choice([0, H, H, FX1 // 4, 12345])
                            py = (gy + rng.randint(-1, h)) * FX1 + rng.choice([0, H, H, FX1 // 4, 54321])
                            return px, py
                        if gkind == 0:
                            (x1, y1), (x2, y2) = pt(), pt()
                            if (x1, y1) == (x2, y2):
                                x2 += 3 * FX1
                            g = [x1, y1, x2, y2, 0, 0]
                        elif gkind == 1:
                            (x1, y1), (x2, y2) = pt(), pt()
                            r1 = rng.choice([0, H, FX1, 2 * FX1])
                            r2 = r1 + rng.choice([FX1, 3 * FX1, 6 * FX1, 40 * FX1]) if rng.random() < 0.8 else rng.choice([0, FX1])
                            if rng.random() < 0.4:
                                x2, y2 = x1, y1            # concentric: one circle contains the other
                            g = [x1, y1, r1, x2, y2, r2]
                        else:
                            (x1, y1) = pt()
                            g = [x1, y1, rng.choice([0, 0, 45, 90, 180, 270, 359, -30]) * FX1, 0, 0, 0]
                        ak = rng.choice(["opaque", "opaque", "opaque", "last", "one", "all"])
                        alphas = [0xffff] * len(pos)
                        if ak == "last":
                            alphas[-1] = rng.choice([0xfffe, 0xff00, 0x8000, 0])
                        elif ak == "one":
                            alphas[rng.randrange(len(pos))] = rng.choice([0xfffe, 0xfeff, 0x8000])
                        elif ak == "all":
                            alphas = [rng.choice([0xfffe, 0xc000, 0x4000]) for _ in pos]
                        st = []
                        for i in range(4):
                            st += [pos[i], alphas[i]] if i < len(pos) else [FX1, 0xffff]
                        op = rng.choice(REDUCIBLE + REDUCIBLE + [1, 12, 0, 2])
                        other = rng.choice([0, 0, 1, 4, 2, 5]) if role == 0 else rng.choice([0, 10, 1, 4])
                        dfmt = rng.choice([A, A, X, R565])
                        seed = rng.randrange(1, 2 ** 31)
                        for vi in (0, 1):
                            f = [pair, vi, 0, op, role, gkind, grep] + g + [len(pos)] + st + \
                                [other, dfmt, dw, dh, gx, gy, dx, dy, w, h, seed]
                            assert len(f) == 33
                            lines.append("G " + " ".join(str(int(v)) for v in f))
                        pair += 1
    return lines, pair


def run(prop, args):
    chk = vf.Check(prop, args.tier, args.seed)
    quick = args.tier == "quick"
    rng = random.Random(args.seed * 911 + 9)
    wd = vf.workdir("opacity")
    base = os.path.join(vf.SPEC, "mc")
    # 1. model checking: derive the valid reductions, check the code's table, reject the wrong table
    cfg = os.path.join(base, "OpacityMC.cfg")
    if not quick:
        cfg = os.path.join(wd, "OpacityMC_full.cfg")
        open(cfg, "w").write(open(os.path.join(base, "OpacityMC.cfg")).read().replace(
            "{0, 1, 2, 64, 127, 128, 129, 200, 254, 255}",
            "{0, 1, 2, 3, 17, 64, 85, 127, 128, 129, 170, 191, 200, 253, 254, 255}"))
    r = vf.tlc_mc(os.path.join(base, "OpacityMC.tla"), cfg=cfg, workers=8, timeout=1500)
    chk.add_tlc(r, "model check OpacityMC (valid reductions, table soundness)")
    if "violated" in r.out:
        raise vf.Infra("OpacityMC: the table transcribed in the specification is not sound:\n" + r.out[-2000:])
    triples = []
    for v in r.vf("valid"):
        m = re.match(r"(\d+), (TRUE|FALSE), (TRUE|FALSE), \{([^}]*)\}", v)
        if not m:
            raise vf.Infra("cannot parse VF:valid line: " + v)
        op1, s, d = int(m.group(1)), m.group(2) == "TRUE", m.group(3) == "TRUE"
        for o2 in [x for x in m.group(4).split(",") if x.strip()]:
            triples.append([op1, int(o2), int(s), int(d)])
    if len(triples) < 52:
        raise vf.Infra("OpacityMC printed too few valid reductions")
    chk.extra["valid_reductions_derived"] = len(triples)
    rn = vf.tlc_mc(os.path.join(base, "OpacityMC.tla"), cfg=os.path.join(base, "OpacityMC_neg.cfg"), workers=4,
                   expect_violation=True)
    chk.add_tlc(rn, "negative config (wrong table cell; must be rejected)")

    # 2. paired presentations on the real library, under the default chain and the general-only chain
    exe, px = vf.build_driver("drv_opacity", "plain")
    chk.extra["build"] = px["hash"]
    lines, npairs = gen_pairs(rng, 6 if quick else 1000)
    glines, npairs = gen_gradient_pairs(random.Random(args.seed * 911 + 10), npairs, 2 if quick else 40)
    lines += glines
    chk.extra["gradient_pairs"] = len(glines) // 2
    script = os.path.join(wd, "pairs.script")
    open(script, "w").write("\n".join(lines) + "\n")
    chk.sample({"pair_script_lines": lines[:2]})
    chk.extra["pairs"] = npairs
    traces = []
    import json
    for i, dis in enumerate(["", "fast mmx sse2 ssse3", "mmx sse2 ssse3"] + ([] if quick else ["sse2 ssse3", "wholeops"])):
        raw = os.path.join(wd, "raw%d.ndjson" % i)
        env = dict(os.environ)
        env["PIXMAN_DISABLE"] = dis
        rc, out = vf.run_driver([exe, script, raw], raw, env={"PIXMAN_DISABLE": dis}, timeout=900)
        if rc == 3:
            raise vf.Infra("drv_opacity could not read its script: " + out[-800:])
        # split into batches of whole pairs; every batch starts with Reset + the Valid event
        body = open(raw).read().splitlines(True)[1:]
        nb = 6
        chunks = [[] for _ in range(nb)]
        cur = []
        for ln in body:
            cur.append(ln)
            if ln.startswith('{"e":"Res"') and '"variant":1' in ln:
                pid = int(re.search(r'"pair":(\d+)', ln).group(1))
                chunks[pid % nb] += cur
                cur = []
        chunks[0] += cur          # an incomplete tail (e.g. a Crash event) must reach TLC too
        for b in range(nb):
            fn = os.path.join(wd, "c%d_%d.ndjson" % (i, b))
            with open(fn, "w") as f:
                f.write('{"e":"Reset","scenario":"%s"}\n' % (dis or "default"))
                f.write(json.dumps({"e": "Valid", "triples": triples}) + "\n")
                f.writelines(chunks[b])
            traces.append(fn)
        for ln in body:
            if ln.startswith('{"e":"Dispatch"'):
                chk.evaluations += 1
                m = re.search(r'"op_in":(\d+),"op_out":(\d+)', ln)
                if m.group(1) != m.group(2):
                    chk.distinct_keys.add((m.group(1), m.group(2), 13 in json.loads(ln)["dfl"]))
                    chk.extra["reduced_dispatches"] = chk.extra.get("reduced_dispatches", 0) + 1
    if not quick:
        import repotests
        for name, tr in repotests.traces(wd, max_events=4000):
            fn = os.path.join(wd, "rt-%s.ndjson" % name)
            with open(fn, "w") as f:
                body = open(tr).read().splitlines(True)
                f.write(body[0])                                   # Reset
                f.write(json.dumps({"e": "Valid", "triples": triples}) + "\n")
                f.writelines(l for l in body[1:] if l.startswith('{"e":"Dispatch"'))
            traces.append(fn)
        chk.extra["repository_tests_traced"] = [n for n, _ in repotests.TESTS]
    chk.extra["distinct_reductions_seen"] = sorted("%s->%s%s" % (a, b, " (dst opaque)" if c else "") for a, b, c in chk.distinct_keys)
    chk.distinct_keys = set(hash(k) for k in chk.distinct_keys)
    vf.validate_batches(chk, "OpacityTrace", traces, cfg=os.path.join(vf.SPEC, "trace", "OpacityTrace.cfg"),
                        parallel=12, timeout=1500)
    chk.extra["rule"] = ("evaluations = composite dispatches observed; distinct non-trivial = distinct "
                         "(operator in, operator out, destination opaque) reductions actually taken by the library")
    chk.assumptions += ["the Dispatch hook reports the flags and operator pixman_image_composite32 used",
                        "footprints are decided in the spec for untransformed / integer-translated nearest sources only; "
                        "other transforms rely on the pair comparison",
                        "what each presentation should look like in absolute terms is judged by C01/C08"]
    return chk.finish()
