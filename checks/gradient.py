# C13: gradient sources against spec/Gradient.tla.
#   MC   spec/mc/GradientMC     FoldRepeat / stop lookup / colour hull against their mathematical definitions on a
#                               lattice, interval helpers (division, square root), tangent table; 2 negative configs
#   GEN  spec/gen/GradientGen   TLC-generated scenarios (stops x colours x geometry x repeat x transform x pipeline)
#   EXEC harness/drv_gradient   ASan build, watchdog alarm; OP_SRC of the gradient into a8r8g8b8 / rgba_float
#   TV   spec/trace/GradientTrace   every destination scanline validated by TLC
import json
import os
import random
import re

import vf

PROPS = {"C13": "C13"}

CLAIMS = {
    "C13": dict(
        technique="TLA+ Gradient spec (t for linear/radial/conical, repeat folding, stop lookup, interpolation and "
                  "premultiplication in outward-rounded interval arithmetic): TLC model checking of the spec's building "
                  "blocks, TLC-generated scenarios replayed on an ASan build, every scanline validated by TLC",
        text="spec/Gradient.tla computes, for each destination pixel, the admissible gradient parameter(s) t as integer "
             "intervals (exact rational projection; two-circle quadratic with an integer square root; arctangent bracketed "
             "by a TLC-checked tangent table), folds t by the repeat mode, finds the neighbouring stops (with the "
             "per-mode sentinels), interpolates non-premultiplied and premultiplies; a pixel is accepted if every "
             "channel lies within one 8-bit step of the hull over t +- 2/65536, pixels without admissible t must be "
             "exactly transparent. TLC checks folding, lookup and the interval helpers against their definitions on a "
             "lattice (two wrong variants are rejected). TLC-generated scenarios (1..4 stops incl. repeated positions, "
             "17 geometries, 4 repeat modes, 12 transforms: affine, shear, w = 2, perspective in x only / y only / "
             "both, w crossing zero; narrow and float destinations; 4 rows per composite call) and the exhaustive "
             "the same grid as the source of masked composites (a8 / a8r8g8b8 masks with leading, interior and trailing "
             "runs of zero of lengths 0, 1, 2, 3, many and partial values; judged as gradient IN mask with the exact "
             "MulUn8 rounding), linear gradients 2^10..2^18 periods away from [0,1] (vectors down to 48/65536 pixel, origin up to 250 pixels "
             "away, 256-fold down-scaling transform), "
             "repeat-switch histories on one image object (every ordered pair and A,B,A of the four repeat modes, each "
             "composite judged under the mode in force: stale sentinel stops must not show), the exhaustive "
             "geometry x transform grid (so that every iterator branch - the linear one-scanline shortcut, the "
             "affine and projective branches of all three kinds - is reached where a wrong branch changes pixels) plus "
             "seeded safety scenarios (unsorted/garbage stops, degenerate geometry, singular transforms) run on the real "
             "library under AddressSanitizer with a watchdog. " + 'Stop lists of 16 .. 100 stops on a 1/64 lattice (repeated positions, pixels landing on stops) are rendered for every kind, repeat mode and pipeline. A parameter exactly on a jump of the colour function is accepted on either side (the t +- 2/65536 hull), so a stop search that errs only there is not detectable.' + "",
        ref="5 C13"),
}

ASAN_ENV = {"ASAN_OPTIONS": "abort_on_error=1:detect_leaks=0:allocator_may_return_null=1"}
KIND = {"linear": 0, "radial": 1, "conical": 2}
REPEAT = {"NONE": 0, "NORMAL": 1, "PAD": 2, "REFLECT": 3}
DW, DH = 12, 4
I32MAX, I32MIN = 2 ** 31 - 1, -2 ** 31


def tlc_scenarios(n, seed):
    path = os.path.join(vf.SPEC, "gen", "GradientGen.tla")
    r = vf.run_tlc(path, workers=4, timeout=600, tag="ggen",
                   extra=["-generate", "num=%d" % n, "-depth", "8", "-seed", str(seed)])
    seen, res = set(), []
    for b in r.vf("scenario"):
        if b in seen:
            continue
        seen.add(b)
        res.append(json.loads(json.loads(b)))
    if not res:
        raise vf.Infra("GradientGen produced no scenarios:\n" + r.out[-2000:])
    return res, r


def tlc_grid():
    """every geometry x every transform, enumerated breadth-first by TLC (GradientGen!Grid)"""
    path = os.path.join(vf.SPEC, "gen", "GradientGen.tla")
    r = vf.run_tlc(path, cfg=os.path.join(vf.SPEC, "gen", "GradientGrid.cfg"), workers=1, timeout=300, tag="ggrid")
    res = [json.loads(json.loads(b)) for b in sorted(set(r.vf("scenario")))]
    if len(res) < 100:
        raise vf.Infra("GradientGen grid produced %d scenarios:\n%s" % (len(res), r.out[-2000:]))
    return res, r


def tlc_far():
    """linear gradients thousands of periods away from [0,1] (GradientGen!Far), enumerated breadth-first by TLC"""
    path = os.path.join(vf.SPEC, "gen", "GradientGen.tla")
    r = vf.run_tlc(path, cfg=os.path.join(vf.SPEC, "gen", "GradientFar.cfg"), workers=1, timeout=300, tag="gfar")
    res = [json.loads(json.loads(b)) for b in sorted(set(r.vf("scenario")))]
    if len(res) < 100:
        raise vf.Infra("GradientGen far set produced %d scenarios:\n%s" % (len(res), r.out[-2000:]))
    return res, r


# mask rows (12 pixels): leading / interior / trailing runs of zero of lengths 0, 1, 2, 3, many; 0 / partial / 255
MASK_ROWS = [
    [0, 0, 255, 255, 128, 0, 0, 0, 255, 1, 254, 0],
    [0, 255, 0, 255, 255, 77, 0, 0, 200, 255, 0, 0],
    [0, 0, 0, 200, 255, 255, 3, 0, 0, 0, 0, 255],
    [0, 0, 0, 0, 0, 0, 0, 0, 0, 0, 0, 255],
    [255, 255, 255, 255, 255, 255, 255, 255, 255, 255, 255, 255],
    [255, 0, 0, 129, 0, 255, 255, 0, 0, 0, 64, 0],
    [0, 0, 0, 0, 0, 255, 127, 255, 0, 0, 0, 0],
    [0, 0, 0, 0, 0, 0, 0, 0, 0, 0, 0, 0],
]


def mask_for(i):
    """(format, values) of the i-th mask: four of the rows above, rotating"""
    rows = [MASK_ROWS[(i + 3 * y) % len(MASK_ROWS)] for y in range(DH)]
    return i % 2, [v for r in rows for v in r]


def g_line(claim, kind, repeat, wide, stops, geom, m, dw=DW, dh=DH, mask=None):
    pre = ""
    if mask is not None:
        pre = "M %d %d %s\n" % (mask[0], len(mask[1]), " ".join(map(str, mask[1])))
    return pre + _g_line(claim, kind, repeat, wide, stops, geom, m, dw, dh)


def _g_line(claim, kind, repeat, wide, stops, geom, m, dw=DW, dh=DH):
    toks = ["G", int(claim), KIND[kind], REPEAT[repeat], int(wide), len(stops)]
    for s in stops:
        toks += list(s)
    toks += [len(geom)] + list(geom)
    toks += [1] + list(m) if m else [0]
    toks += [dw, dh]
    return " ".join(str(t) for t in toks)


def history_scenarios():
    """repeat-switch histories on ONE image object: create; set_repeat(A); composite; set_repeat(B); composite
       [; set_repeat(A); composite].  Every composite is judged by the specification under the repeat mode in force
       (the specification has no history: sentinels left over from an earlier mode must not show).  Stops inside
       (1/4, 1/2, 3/4) and a parameter range that extends beyond them on both sides, so that the sentinels matter."""
    F, Hh = 65536, 32768
    stops = [[16384, 65535, 65535, 0, 0], [32768, 32896, 0, 65535, 0], [49152, 65535, 0, 0, 65535]]
    geoms = [("linear", [8 * Hh, 0, 16 * Hh, 0]),                       # t = (x + .5 - 4) / 4: -0.9 .. 1.9
             ("radial", [12 * Hh, 2 * Hh, 0, 12 * Hh, 2 * Hh, 12 * Hh]),  # concentric, r 0 -> 6: t = dist / 6
             ("conical", [12 * Hh, 2 * Hh, 0])]
    modes = ["NONE", "NORMAL", "PAD", "REFLECT"]
    out = []
    for kind, g in geoms:
        for a in modes:
            for b in modes:
                if a == b:
                    continue
                for wide, hist in ((0, [a, b]), (0, [a, b, a]), (1, [a, b])):
                    toks = ["H", 1, KIND[kind], len(hist)] + [REPEAT[r] for r in hist] + [wide, len(stops)]
                    for st in stops:
                        toks += st
                    toks += [len(g)] + g + [0, DW, 2]
                    out.append(" ".join(str(t) for t in toks))
    return out


def many_stop_scenarios(rng, quick):
    """stop lists longer than anything TLC enumerates (the walker's stop search is a loop over the list: 16 / 17 / 18,
       31 / 33, 64, 100 stops), positions on a 1/64 lattice so that repeated positions (hard edges) and pixels landing
       exactly on a stop occur, random colours; every kind, every repeat mode, narrow and wide"""
    F, Hh = 65536, 32768
    geoms = [("linear", [0, 0, 32 * Hh, 0]),                               # t = (x + .5) / 16
             ("linear", [8 * Hh, 0, 16 * Hh, 0]),                          # t = (x + .5 - 4) / 4: beyond both ends
             ("radial", [12 * Hh, 2 * Hh, 0, 12 * Hh, 2 * Hh, 12 * Hh]),
             ("conical", [12 * Hh, 2 * Hh, 0])]
    vals = [0, 1, 127, 128, 254, 255]
    out = []
    k = 0
    for n in ((16, 17, 18, 33) if quick else (16, 17, 18, 31, 32, 33, 64, 65, 100)):
        for rep_ in range(1 if quick else 4):
            xs = sorted(rng.choice([0, 0, 1, 2] + list(range(0, 65)) + [63, 64, 64]) for _ in range(n))
            stops = [[x * 1024] + [rng.choice(vals) * 257 for _ in range(3)] + [rng.choice([0, 128, 255, 255]) * 257] for x in xs]
            for kind, g in geoms:
                for repeat in ("NONE", "NORMAL", "PAD", "REFLECT"):
                    k += 1
                    wide = k % 2
                    out.append(g_line(1, kind, repeat, wide, stops, g, None))
    return out


def safety_scenarios(rng, n):
    """arbitrary / garbage stop lists, degenerate geometry, singular transforms: only 'returns' is required"""
    F = 65536
    out = []
    col = lambda: [rng.choice([0, 1, 0x8080, 0xffff, rng.randrange(65536)]) for _ in range(4)]
    stop_lists = [
        lambda: [[F, ] + col(), [0, ] + col()],                                  # unsorted
        lambda: [[32768, ] + col() for _ in range(rng.choice([2, 3, 7]))],       # all equal
        lambda: [[-F, ] + col(), [3 * F, ] + col()],                             # outside [0,1]
        lambda: [[I32MIN, ] + col(), [I32MAX, ] + col()],                        # extreme
        lambda: [[I32MAX, ] + col(), [I32MIN, ] + col(), [0] + col()],
        lambda: [[rng.randrange(-2 * F, 3 * F), ] + col() for _ in range(rng.randrange(1, 9))],   # garbage
        lambda: [[rng.choice([I32MIN, I32MAX, 0, F, -1, F + 1, 1]), ] + col() for _ in range(rng.randrange(1, 6))],
        lambda: [[i * F // 63, ] + col() for i in range(64)],                    # many stops
        lambda: [[0, ] + col()],                                                 # single stop
        lambda: [[F, ] + col()],
        lambda: [],                                                              # no stops: creation refused
    ]
    big = [I32MAX, I32MIN, I32MAX - F, 0x7fff0000, -0x7fff0000, 0, F, -F, 1, -1]
    geoms = {
        "linear": [lambda: [3 * F, F, 3 * F, F],                                 # coincident points
                   lambda: [0, 0, 1, 0], lambda: [0, 0, 0, 1],                   # one unit long
                   lambda: [rng.choice(big) for _ in range(4)],
                   lambda: [0, 0, 8 * F, 0]],
        "radial": [lambda: [6 * F, 2 * F, 0, 6 * F, 2 * F, 0],                   # zero radii, coincident
                   lambda: [6 * F, 2 * F, 3 * F, 6 * F, 2 * F, 3 * F],           # identical circles
                   lambda: [2 * F, 2 * F, 0, 10 * F, 2 * F, 0],                  # zero radii
                   lambda: [6 * F, 2 * F, -F, 6 * F, 2 * F, -3 * F],             # negative radii
                   lambda: [rng.choice(big) for _ in range(6)],
                   lambda: [4 * F, 2 * F, 2 * F, 6 * F, 2 * F, 4 * F],           # a == 0
                   lambda: [4 * F, 2 * F, 1, 4 * F + 1, 2 * F, 2]],              # tiny a
        "conical": [lambda: [6 * F, 2 * F, 0], lambda: [5 * F + 32768, F + 32768, 90 * F],
                    lambda: [rng.choice(big), rng.choice(big), rng.choice(big)],
                    lambda: [0, 0, 360 * F], lambda: [0, 0, -45 * F]],
    }
    mats = [None, [0] * 9, [F, 0, 0, 0, F, 0, 0, 0, 0], [F, 0, 0, 0, F, 0, F, F, 0], [0, 0, 0, 0, 0, 0, 0, 0, F],
            [F, 0, 0, 0, 0, 0, 0, 0, F], [I32MAX, 0, 0, 0, I32MAX, 0, 0, 0, F], [F, 0, I32MAX, 0, F, I32MIN, 0, 0, F],
            [F, 0, 0, 0, F, 0, -F // 4, 0, F], [1, 0, 0, 0, 1, 0, 0, 0, F], [F, 0, 0, 0, F, 0, 0, 0, 1],
            [F, F, 0, F, F, 0, 0, 0, F], [F, 0, 0, 0, F, 0, I32MAX, I32MAX, I32MIN]]
    for i in range(n):
        kind = rng.choice(["linear", "radial", "conical"])
        # at least one degenerate ingredient: garbage stops, degenerate geometry or singular transform
        which = rng.choice(["stops", "geom", "mat", "all"])
        stops = rng.choice(stop_lists)() if which in ("stops", "all") else [[0, 65535, 65535, 0, 0], [F, 65535, 0, 0, 65535]]
        geom = rng.choice(geoms[kind])() if which in ("geom", "all") else geoms[kind][-1 if kind == "linear" else 0]()
        m = rng.choice(mats) if which in ("mat", "all") else None
        out.append(g_line(0, kind, rng.choice(list(REPEAT)), rng.random() < 0.4, stops, geom, m))
    return out


def run_driver(exe, execs, wd, tag):
    """execs: list of lists of script lines (first line 'R name').  A crash ends the process; the remaining
       executions are run by a new one.  Returns the trace file."""
    out = os.path.join(wd, "%s.ndjson" % tag)
    rest = list(execs)
    part = 0
    with open(out, "w") as outf:
        while rest:
            sp = os.path.join(wd, "%s.p%d.script" % (tag, part))
            tp = os.path.join(wd, "%s.p%d.ndjson" % (tag, part))
            with open(sp, "w") as f:
                for e in rest:
                    f.write("\n".join(e) + "\n")
            env = dict(os.environ)
            env.update(ASAN_ENV)
            p = vf.sh([exe, sp, tp], timeout=3000, check=False, env=env)
            lines = [x for x in open(tp).read().splitlines() if x.strip()]
            os.unlink(sp)
            os.unlink(tp)
            done = sum(1 for x in lines if x.startswith('{"e":"Reset"'))
            if lines and lines[-1].startswith('{"e":"End"'):
                if p.returncode != 0:
                    raise vf.Infra("drv_gradient rc=%d although it reached End: %s" % (p.returncode, p.stdout[-800:]))
                outf.write("\n".join(lines) + "\n")
                break
            if done == 0:
                raise vf.Infra("drv_gradient died before its first execution (rc=%d): %s" % (p.returncode, p.stdout[-800:]))
            if not lines[-1].startswith('{"e":"Crash"'):
                lines.append('{"e":"Crash","sig":-1,"rc":%d}' % p.returncode)
            outf.write("\n".join(lines) + "\n")
            rest = rest[done:]
            part += 1
            if part > 200:
                raise vf.Infra("drv_gradient keeps dying")
    return out


def validate_all(chk, module, files, cfg, parallel, rounds=3):
    """vf.validate_batches reports the first rejected execution of a file; continue behind it (bounded)."""
    pending = list(files)
    skipped = 0
    stats = [0, 0]
    orig = vf.tlc_trace

    def wrapped(*a, **k):            # collect the statistics the trace specification prints at End
        res = orig(*a, **k)
        for st in res[3].vf("stats"):
            n, free = [int(x) for x in st.split(",")]
            stats[0] += n
            stats[1] += free
        return res
    vf.tlc_trace = wrapped
    try:
        _validate_rounds(chk, module, pending, cfg, parallel, rounds)
    finally:
        vf.tlc_trace = orig
    chk.extra["pixels_in_accepted_traces"] = stats[0]
    chk.extra["pixels_without_obligation"] = stats[1]


def _validate_rounds(chk, module, pending, cfg, parallel, rounds):
    skipped = 0
    for rnd in range(rounds + 1):
        before = len(chk.violations)
        nruns = len(chk.mc_runs)
        vf.validate_batches(chk, module, pending, cfg=cfg, parallel=parallel, timeout=2400, xmx="3g")
        new = chk.violations[before:]
        nxt = []
        for v in new:
            note = open(v["replay"] + ".note").read()
            m = re.search(r"0-based offset (\d+) of batch (\S+?)\)", note)
            if not m:
                continue
            off, base = int(m.group(1)), m.group(2)
            tf = [f for f in pending if os.path.basename(f) == base][0]
            lines = open(tf).read().splitlines(True)
            end = None
            for i in range(off + 1, len(lines)):
                if lines[i].startswith('{"e":"Reset"'):
                    end = i
                    break
            if end is None:
                continue
            if rnd == rounds:
                skipped += sum(1 for x in lines[end:] if x.startswith('{"e":"Reset"'))
                continue
            rf = tf + ".r"
            open(rf, "w").writelines(lines[end:])
            nxt.append(rf)
        pending = nxt
        if not pending:
            break
    if skipped:
        chk.extra["executions_not_validated_after_repeated_rejections"] = skipped


def mc(chk):
    base = os.path.join(vf.SPEC, "mc")
    jobs = [("GradientMC", "GradientMC.cfg", False),
            ("GradientMC", "GradientMC_neg_reflect.cfg", True),
            ("GradientMC", "GradientMC_neg_lookup.cfg", True)]

    def one(job):
        mod, cfg, neg = job
        return vf.tlc_mc(os.path.join(base, mod + ".tla"), cfg=os.path.join(base, cfg), workers=4, timeout=900,
                         expect_violation=neg, tag=cfg[:-4])

    from concurrent.futures import ThreadPoolExecutor
    with ThreadPoolExecutor(max_workers=3) as ex:
        results = list(ex.map(one, jobs))
    for (mod, cfg, neg), r in zip(jobs, results):
        chk.add_tlc(r, ("negative config (must be rejected) " if neg else "model check ") + cfg)
        if not neg and (r.inv_violation or r.deadlock):
            raise vf.Infra("the Gradient model itself violates an invariant under %s:\n%s" % (cfg, r.out[-2500:]))


def run(prop, args):
    chk = vf.Check(prop, args.tier, args.seed)
    rng = random.Random(args.seed * 1000003 + 13)
    quick = args.tier == "quick"
    wd = vf.workdir("gradient")
    cfg = os.path.join(vf.SPEC, "trace", "GradientTrace.cfg")
    exe, px = vf.build_driver("drv_gradient", "asan")
    chk.extra["build"] = px["hash"]

    if args.replay:
        script = args.replay if args.replay.endswith(".script") else args.replay + ".script"
        tr = run_driver(exe, [open(script).read().splitlines()], wd, "replay")
        vf.validate_batches(chk, "GradientTrace", [tr], cfg=cfg, parallel=1)
        return chk.finish()

    import glob
    for f in glob.glob(os.path.join(vf.EVID, "replay", prop + ".*")):
        os.unlink(f)

    # 1. design-level model checking
    mc(chk)

    # 2. scenarios generated by TLC from the specification + seeded safety scenarios
    nscn = 300 if quick else 15000
    scns, r = tlc_scenarios(nscn, args.seed)
    chk.add_tlc(r, "scenario generation (GradientGen, -generate)")
    chk.extra["tlc_generated_scenarios"] = len(scns)
    # every geometry under every transform (each branch of the scanline functions: horizontal one-scanline
    # shortcut, affine / projective, w constant along a row but not from row to row ...), 4 rows in ONE composite
    grid, r = tlc_grid()
    chk.add_tlc(r, "geometry x transform grid (GradientGen!Grid, breadth-first)")
    chk.extra["tlc_grid_scenarios"] = len(grid)
    scns = scns + grid
    far, r = tlc_far()
    chk.add_tlc(r, "far-period linear gradients (GradientGen!Far, breadth-first)")
    if quick:
        far = random.Random(args.seed * 7919 + 1).sample(far, 32)
    chk.extra["far_period_scenarios"] = len(far)
    scns = scns + far
    chk.sample({"tlc_generated_scenario": scns[0]})
    execs = []
    for i, s in enumerate(scns):
        execs.append(["R c%d" % i, g_line(1, s["kind"], s["repeat"], s["wide"], s["stops"], s["g"], s["m"])])
    # gradients as the source of a MASKED composite (narrow pipeline): the scanline functions skip pixels whose
    # mask is zero, so every branch is also rendered through masks with runs of zeros of lengths 0, 1, 2, 3, many
    masked = grid if not quick else grid[(args.seed % 2)::2]
    if not quick:
        masked = masked + [s for s in scns[:len(scns) - len(grid) - len(far)] if not s["wide"]][::3]
    for i, s in enumerate(masked):
        execs.append(["R k%d" % i, g_line(1, s["kind"], s["repeat"], False, s["stops"], s["g"], s["m"],
                                           mask=mask_for(i + args.seed))])
    chk.extra["masked_scenarios"] = len(masked)
    many = many_stop_scenarios(rng, quick)
    for i, line in enumerate(many):
        execs.append(["R n%d" % i, line])
    chk.extra["many_stop_scenarios"] = len(many)
    hist = history_scenarios()
    for i, line in enumerate(hist):
        execs.append(["R h%d" % i, line])
    chk.extra["repeat_switch_histories"] = len(hist)
    nsafe = 150 if quick else 4000
    for i, line in enumerate(safety_scenarios(rng, nsafe)):
        execs.append(["R s%d" % i, line])
    chk.extra["executions"] = len(execs)
    chk.extra["safety_scenarios"] = nsafe
    chk.sample({"script_line": execs[1][1]})
    chk.sample({"safety_script_line": execs[-1][1]})

    # 3. execute on the real library (ASan build of /repo's working tree)
    nb = 12
    rng.shuffle(execs)
    from concurrent.futures import ThreadPoolExecutor
    with ThreadPoolExecutor(max_workers=nb) as ex:
        traces = list(ex.map(lambda ib: run_driver(exe, ib[1], wd, "b%d" % ib[0]),
                             [(i, execs[i::nb]) for i in range(nb) if execs[i::nb]]))
    kinds = {}
    for t in traces:
        cur = None
        for line in open(t):
            if line.startswith('{"e":"GradBegin"'):
                cur = json.loads(line)
                if cur["claim"]:
                    key = "%s/%s/%s/%s" % (cur["kind"], cur["repeat"], "T" if cur["m"] else "-", "wide" if cur["wide"] else "narrow")
                    kinds[key] = kinds.get(key, 0) + 1
            elif line.startswith('{"e":"GradRow"'):
                chk.evaluations += 1
                ev = json.loads(line)
                # a scanline is non-trivial when it shows at least two different pixels
                if len({tuple(p) for p in ev["out"]}) >= 2:
                    chk.distinct_keys.add(hash((json.dumps(cur, sort_keys=True), line)))
            elif line.startswith('{"e":"GradDone"'):
                chk.extra["safety_returned"] = chk.extra.get("safety_returned", 0) + 1
            elif line.startswith('{"e":"Crash"'):
                chk.extra["crashes"] = chk.extra.get("crashes", 0) + 1
    chk.extra["scenarios_by_class"] = len(kinds)

    # 4. trace validation
    nruns = len(chk.mc_runs)
    validate_all(chk, "GradientTrace", traces, cfg, parallel=nb)
    byname = {e[0].split()[1]: e for e in execs}
    for v in chk.violations:
        try:
            first = open(v["replay"]).readline()
            e = byname.get(json.loads(first).get("scenario"))
            if e:
                open(v["replay"] + ".script", "w").write("\n".join(e) + "\n")
        except Exception:
            pass
    chk.extra["rule"] = ("a case is one destination scanline (12 pixels) of a colour-claim scenario; non-trivial when it "
                         "shows at least two different pixel values; distinct by scenario + scanline content; "
                         "evaluations = scanlines validated")
    chk.assumptions += [
        "geometry, transforms and pixel centres on the half-pixel lattice (linear gradients: any lattice of at least "
        "8/65536 pixel, origin within 256 pixels), |coordinates| <= 12 pixels otherwise, whole-degree "
        "conical angles, stop colours that are exact 8-bit values: the statement's 'all geometries' is sampled",
        "colour tolerance: one 8-bit step around the hull of the reference colour over t +- 2/65536 (pixman truncates t "
        "to 16.16, twice on the affine linear path); exactly-on-boundary cases (discriminant 0, radius 0, t = 0 or 1 "
        "under REPEAT_NONE) accept either outcome",
        "conical gradients: t known to 1/4096 of a turn (tangent table) + slack; pixel at the centre not judged",
        "pixels whose homogeneous coordinate w is 0 and quantities outside the 32-bit guards of the spec are not judged "
        "(counted in pixels_without_obligation)",
        "reads outside the stop array are observed by AddressSanitizer (the stops array is a heap block), hangs by a "
        "20 s watchdog alarm",
        "TLC/SANY and the CommunityModules Json/IOUtils readers are trusted"]
    rc = chk.finish()
    if not args.keep:
        import shutil
        shutil.rmtree(wd, ignore_errors=True)
    return rc
