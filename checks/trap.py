# C12: trapezoid coverage against spec/Trap.tla.
#   MC   spec/mc/TrapMC       the edge walker on a scaled lattice: error term = exact residue, meaning of x,
#                             path independence, grid rows/columns; negative configurations
#        spec/mc/TrapTileMC   coverage of lattice trapezoids: horizontal/vertical splits tile, offsets shift,
#                             counts = geometric sample counts; the unrepaired walker is rejected
#   GEN  spec/gen/TrapGen     TLC-generated scenarios on an abstract lattice, embedded into 16.16 coordinates
#   RND  seeded scripts       walker traces, lattice / tie-forcing / far / sub-pixel / degenerate shapes,
#                             metamorphic scenarios, composite routes
#   TV   spec/trace/TrapTrace every recorded call validated by TLC
import json
import os
import random
from concurrent.futures import ThreadPoolExecutor
from fractions import Fraction

import vf

PROPS = {"C12": "C12"}

CLAIMS = {
    "C12": dict(
        technique="TLA+ Trap spec (sample grid, edge walker state machine, coverage): TLC model checking on scaled "
                  "lattices + TLC-generated and seeded scenarios replayed on the public pixman trapezoid API + "
                  "trace validation by TLC",
        text="spec/Trap.tla defines the sample grid per depth, pixman_sample_ceil_y/floor_y with saturation, the edge "
             "walker (pixman_edge_init/step, small/big steps, exact 64-bit arithmetic by binary decomposition) and "
             "Coverage = per pixel the number of grid samples s with lx < s <= rx on the sample rows top <= y < bottom, "
             "added with saturation.  TLC proves on scaled lattices, for all edges of a box, all start rows (above, at, "
             "below the upper end point) and all mixtures of row steps and pixman_edge_step jumps, that the walker's error "
             "term is the exact rational residue (hence x = ceil(X)-1 / floor(X) / X, i.e. the count is the geometric "
             "sample count, samples exactly on an edge line being attributed consistently to one side), that the walker "
             "state is a function of edge and row only (path independence), and for all trapezoids of a lattice family that "
             "horizontal and vertical splits tile, whole-pixel offsets shift, and counts lie between the strictly-inside and "
             "inside-or-on-edge geometric counts; models of the formerly defective walker (stale error term, exact start "
             "state, whole-slope back step) and of wrong initial error / correction tests are rejected.  Against the "
             "implementation: after pixman_edge_init/step/line_fixed_edge_init the edge abscissa x must be the specification's "
             "(the internal error-term representation is tracked and only reported as a policy note), sample rows (incl. "
             "both ends of the 16.16 range) must be the grid's; images produced by rasterize_trapezoid / "
             "add_trapezoids / add_traps / add_triangles on a1/a4/a8 (tie-forcing lattices, lines through sample points, "
             "far end points, sub-pixel and degenerate shapes, offsets, pre-filled targets) must equal before (+) Coverage "
             "with nothing written outside the pixels; abutting pairs vs union (horizontal cut, shared edge, staggered), "
             "offsets, triangles vs decomposition and composite_trapezoids/triangles vs mask+composite32 for all 53 "
             "operators (direct ADD route, near-direct, bounded and unbounded operators) must give equal buffers; the "
             "same for every presentation of the source (solid fills, 1x1 repeating a8r8g8b8 / x8r8g8b8 / a8 images "
             "with opaque and translucent pixels, each with no / translucent / opaque / zero alpha map, non-repeating "
             "and larger images) crossed with each condition of the direct route negated in turn (mask format, "
             "destination clip, destination alpha map, source clip in force / not in force, operator).  Edges whose "
             "deltas sit on and next to the 32-bit limits (+-2^31, +-2^32, either or both deltas, rows 2^31 and more "
             "below the upper end point) are judged against the mathematical line computed exactly on two-limb "
             "numbers, which TLC proves equal to the walker on the lattice (WideAgrees, WideRows; a model that "
             "halves the deltas is rejected).",
        ref="5 C12"),
}

F1 = 65536
LIM = 1 << 29                      # |coordinates| below this (specification domain)
DEV_OF_ID = {"C12-stale-error-term": "stale", "C12-exact-start": "exact0", "C12-whole-slope-backstep": "backstep",
             "C12-floor-y-wrap": "wrap", "C12-halved-deltas": "halve"}
OPS = list(range(0x00, 0x0e)) + list(range(0x10, 0x1c)) + list(range(0x20, 0x2c)) + list(range(0x30, 0x3f))
ZERO_SRC_NO_EFFECT = {0x02, 0x03, 0x04, 0x08, 0x09, 0x0b, 0x0c}     # Dst Over OverReverse OutReverse Atop Xor Add


# ------------------------------------------------------------------------------------------
# the sample grid (input generation and domain filtering only -- never a verdict)

class Grid:
    def __init__(self, n):
        self.n = n
        self.ny = 1 if n == 1 else (1 << (n // 2)) - 1
        self.nx = 1 if n == 1 else (1 << (n // 2)) + 1
        self.sys = F1 // self.ny
        self.syb = F1 - (self.ny - 1) * self.sys
        self.yfirst = self.syb // 2
        self.ylast = self.yfirst + (self.ny - 1) * self.sys
        self.sxs = F1 // self.nx
        self.sxb = F1 - (self.nx - 1) * self.sxs
        self.xfirst = self.sxb // 2
        self.xeff = self.sxs - self.xfirst + (1 if n == 1 else 0)
        self.rows = [self.yfirst + j * self.sys for j in range(self.ny)]          # fractions of sample rows
        self.cols = [self.xeff + k * self.sxs for k in range(self.nx)]            # effective sample columns

    def ceil_y(self, y):
        i, f = y - (y % F1), y % F1
        for r in self.rows:
            if r >= f:
                return i + r
        return i + F1 + self.yfirst

    def floor_y(self, y):
        i, f = y - (y % F1), y % F1
        for r in reversed(self.rows):
            if r < f:
                return i + r
        return i - F1 + self.ylast


GRIDS = {n: Grid(n) for n in (1, 4, 8)}


def line_top_bot(x1, y1, x2, y2):
    return (x1, y1, x2, y2) if y1 <= y2 else (x2, y2, x1, y1)


def x_at(line, y):
    xt, yt, xb, yb = line_top_bot(*line)
    return Fraction(xt) + Fraction((y - yt) * (xb - xt), yb - yt)


def edge_ok(line, rows, n):
    """the edge is in the specification's domain when positioned on / walked over the given rows"""
    xt, yt, xb, yb = line_top_bot(*line)
    if yb == yt:
        return False
    if max(abs(xt), abs(yt), abs(xb), abs(yb)) >= LIM:
        return False
    dy = yb - yt
    if abs(xb - xt) // dy >= 8192:          # |stepx| * StepYBig must stay far inside 32 bits
        return False
    for y in rows:
        if abs(y - yt) >= (1 << 30):
            return False
        if abs(x_at(line, y)) >= (1 << 30):
            return False
        if abs((y - yt) * (abs(xb - xt) // dy)) >= (1 << 30):
            return False
    return True


def trap_rows(tz, n, H, yoff):
    g = GRIDS[n]
    t0 = tz[0] + yoff * F1
    t = g.ceil_y(max(t0, 0))
    b0 = tz[1] + yoff * F1
    if b0 // F1 >= H:
        b0 = H * F1 - 1
    if b0 // F1 <= -32768 or t // F1 >= 32767:
        return None
    b = g.floor_y(b0)
    return t, b


def trap_valid(tz):
    return tz[3] != tz[5] and tz[7] != tz[9] and tz[1] > tz[0]


def trap_ok(tz, n, W, H, xoff, yoff):
    """in the domain of the specification (no 32-bit wrap anywhere)"""
    if max(abs(v) for v in tz) >= LIM:
        return False
    if not trap_valid(tz):
        return True
    tb = trap_rows(tz, n, H, yoff)
    if tb is None:
        return False
    t, b = tb
    if b < t:
        return True
    rows = [t, b, b + F1]
    for ln in (tz[2:6], tz[6:10]):
        sh = (ln[0] + xoff * F1, ln[1] + yoff * F1, ln[2] + xoff * F1, ln[3] + yoff * F1)
        if not edge_ok(sh, rows, n):
            return False
    return True


def shifted(tz, dx, dy):
    return [tz[0] + dy, tz[1] + dy, tz[2] + dx, tz[3] + dy, tz[4] + dx, tz[5] + dy,
            tz[6] + dx, tz[7] + dy, tz[8] + dx, tz[9] + dy]


# ------------------------------------------------------------------------------------------
# shape generators

def pal_x(g, W, rng):
    p = rng.randint(-1, W)
    k = rng.choice(g.cols + [0, F1 // 2, F1 - 1, rng.randrange(F1)])
    return p * F1 + k + rng.choice([0, 0, 0, -1, 1])


def pal_y(g, H, rng):
    q = rng.randint(-1, H)
    k = rng.choice(g.rows + [0, F1 // 2, F1 - 1, rng.randrange(F1)])
    return q * F1 + k + rng.choice([0, 0, 0, -1, 1])


def gen_lattice(n, W, H, rng):
    g = GRIDS[n]
    top, bot = sorted([pal_y(g, H, rng), pal_y(g, H, rng)])
    if top == bot:
        bot += rng.choice([1, g.sys, F1])
    ext = [0, 0, 0, 1, g.sys, F1 // 3, 2 * F1, 100 * F1]
    e1, e2, e3, e4 = (rng.choice(ext) for _ in range(4))
    xl1, xl2, xr1, xr2 = (pal_x(g, W, rng) for _ in range(4))
    if rng.random() < 0.7:
        if xl1 > xr1:
            xl1, xr1 = xr1, xl1
        if xl2 > xr2:
            xl2, xr2 = xr2, xl2
    if rng.random() < 0.25:
        xl2 = xl1                      # vertical left edge
    if rng.random() < 0.25:
        xr2 = xr1
    tz = [top, bot, xl1, top - e1, xl2, bot + e2, xr1, top - e3, xr2, bot + e4]
    if rng.random() < 0.2:             # end points given bottom first
        tz[2], tz[3], tz[4], tz[5] = tz[4], tz[5], tz[2], tz[3]
    return tz


def sample_point(g, W, H, rng):
    return (rng.randint(0, W - 1) * F1 + rng.choice(g.cols), rng.randint(0, H - 1) * F1 + rng.choice(g.rows))


def line_through_samples(g, W, H, rng, far):
    """a line through two grid samples, end points obtained by going whole multiples of the difference"""
    for _ in range(50):
        a, b = sample_point(g, W, H, rng), sample_point(g, W, H, rng)
        if a[1] == b[1]:
            continue
        if a[1] > b[1]:
            a, b = b, a
        dx, dy = b[0] - a[0], b[1] - a[1]
        kmax = max(1, min((LIM // 2) // max(abs(dx), 1), (LIM // 2) // dy))
        k1 = rng.randint(1, kmax) if far else rng.randint(0, min(3, kmax))
        k2 = rng.randint(1, kmax) if far else rng.randint(1, min(4, kmax))
        return (a[0] - k1 * dx, a[1] - k1 * dy, a[0] + k2 * dx, a[1] + k2 * dy)
    return (0, -F1, 0, (H + 1) * F1)


def gen_through(n, W, H, rng, far=False):
    g = GRIDS[n]
    l = line_through_samples(g, W, H, rng, far)
    r = line_through_samples(g, W, H, rng, far)
    if rng.random() < 0.3:
        x = pal_x(g, W, rng)
        r = (x, -2 * F1, x, (H + 2) * F1)
    if x_at(l, H * F1 // 2) > x_at(r, H * F1 // 2) and rng.random() < 0.8:
        l, r = r, l
    top = max(min(l[1], l[3]), min(r[1], r[3]), rng.choice([-3 * F1, pal_y(g, H, rng)]))
    bot = min(max(l[1], l[3]), max(r[1], r[3]), rng.choice([(H + 3) * F1, pal_y(g, H, rng)]))
    if bot <= top:
        top, bot = pal_y(g, H, rng) - F1, pal_y(g, H, rng) + F1
    return [top, bot] + list(l) + list(r)


def gen_random(n, W, H, rng):
    def rx():
        return rng.randint(-2 * F1, (W + 2) * F1)

    def ry():
        return rng.randint(-2 * F1, (H + 2) * F1)
    top, bot = sorted([ry(), ry()])
    bot += 1
    xs = sorted([rx(), rx()])
    xs2 = sorted([rx(), rx()])
    return [top, bot, xs[0], top - rng.randint(0, F1), xs2[0], bot + rng.randint(0, F1),
            xs[1], top - rng.randint(0, F1), xs2[1], bot + rng.randint(0, F1)]


def gen_far(n, W, H, rng):
    g = GRIDS[n]
    big = rng.choice([300 * F1, 8000 * F1, LIM - 1 - 10 * F1])
    yt = -rng.randint(big // 2, big)
    yb = rng.randint(big // 2, big)
    kind = rng.random()
    if kind < 0.4:          # near-vertical long edges
        xl = pal_x(g, W, rng)
        l = (xl, yt, xl + rng.randint(-3, 3), yb)
        xr = pal_x(g, W, rng)
        r = (xr + rng.randint(-3, 3), yt, xr, yb)
    elif kind < 0.8:        # long shallow-ish edges crossing the image
        a = rng.randint(-big, big)
        l = (a, yt, -a + pal_x(g, W, rng), yb)
        c = rng.randint(-big, big)
        r = (c, yt, -c + pal_x(g, W, rng) + W * F1, yb)
    else:                   # short tall image-covering trapezoid with far x
        l = (-rng.randint(big // 2, big), yt, -rng.randint(big // 2, big), yb)
        r = (rng.randint(big // 2, big), yt, rng.randint(big // 2, big), yb)
    top = rng.choice([yt, -F1, pal_y(g, H, rng)])
    bot = rng.choice([yb, (H + 1) * F1, pal_y(g, H, rng) + F1])
    if bot <= top:
        bot = top + F1
    return [top, bot] + list(l) + list(r)


def gen_subpixel(n, W, H, rng):
    g = GRIDS[n]
    sx, sy = sample_point(g, W, H, rng)
    w = rng.choice([0, 1, 2, 3, g.sxs, g.sxs + 1])
    h = rng.choice([1, 2, 3, g.sys, g.sys + 1])
    x0 = sx + rng.choice([-2, -1, 0, 1])
    y0 = sy + rng.choice([-2, -1, 0, 1])
    sk = rng.choice([0, 0, 1, -1, 2])
    return [y0, y0 + h, x0, y0, x0 + sk, y0 + h, x0 + w, y0, x0 + w + sk, y0 + h]


def gen_degenerate(n, W, H, rng):
    tz = gen_lattice(n, W, H, rng)
    k = rng.randint(0, 5)
    if k == 0:
        tz[1] = tz[0]                                   # bottom == top
    elif k == 1:
        tz[0], tz[1] = tz[1], tz[0]                     # bottom < top
    elif k == 2:
        tz[5] = tz[3]                                   # horizontal left edge
    elif k == 3:
        tz[9] = tz[7]                                   # horizontal right edge
    elif k == 4:
        tz[2:6], tz[6:10] = tz[6:10], tz[2:6]           # left and right exchanged
    else:
        tz[6:10] = tz[2:6]                              # zero width
    return tz


def gen_stale(n, W, H, rng):
    """edges with a tiny remainder: the region where the unrepaired pixman_edge_step keeps a stale error term"""
    g = GRIDS[n]
    top = rng.choice([0, -F1, pal_y(g, H, rng)])
    hgt = rng.choice([2, 3, 4, H, H + 1]) * F1 + rng.choice([0, 0, 1, g.sys])
    bot = top + hgt
    xl = pal_x(g, W, rng)
    dl = rng.choice([1, 2, 3, 5, 17]) + rng.choice([0, 0, F1, 2 * F1]) * rng.choice([0, 1])
    xr = pal_x(g, W, rng) + W * F1 // 2
    dr = rng.choice([0, 1, 2, 3, 7])
    return [top, bot, xl, top, xl + dl, bot, xr, top, xr + dr, bot]


def gen_exact(n, W, H, rng):
    """upper end point of an edge on a sample row, slope a whole number of units per grid step"""
    g = GRIDS[n]
    q = rng.randint(0, max(0, H - 2))
    top = q * F1 + rng.choice(g.rows)
    rows = rng.choice([1, 2, 3])
    hgt = rows * F1
    bot = top + hgt + rng.choice([0, 1, g.sys])
    sx, _ = sample_point(g, W, H, rng)
    per = rng.choice([F1 // 2, F1 // 4, F1, 3 * F1 // 2, g.sxs])        # x advance per pixel row
    xl = sx - rng.choice([0, 1, 2]) * per
    l = (xl, top, xl + per * rows, top + hgt)
    if rng.random() < 0.5:
        l = (l[0], l[1], 2 * l[0] - l[2], l[3])                         # mirror: runs left
    xr = (W + 1) * F1
    return [top, bot, l[0], l[1], l[2], l[3], xr, top, xr, top + hgt]


SHAPE_GENS = [("lattice", gen_lattice, 5), ("through", gen_through, 4), ("random", gen_random, 2), ("far", gen_far, 2),
              ("subpixel", gen_subpixel, 2), ("degenerate", gen_degenerate, 1), ("stale", gen_stale, 2),
              ("exact", gen_exact, 2)]


def pick_shape(n, W, H, rng, xoff=0, yoff=0, kinds=None):
    names = [k for k, _, w in SHAPE_GENS for _i in range(w) if kinds is None or k in kinds]
    table = {k: f for k, f, _ in SHAPE_GENS}
    for _ in range(200):
        k = rng.choice(names)
        tz = table[k](n, W, H, rng)
        if trap_ok(tz, n, W, H, xoff, yoff):
            return k, tz
    return "fallback", [0, F1, 0, 0, 0, F1, F1, 0, F1, F1]


def rand_pixels(n, W, H, rng):
    mx = (1 << n) - 1
    style = rng.choice(["zero", "zero", "rand", "high", "full"])
    if style == "zero":
        return None
    if style == "rand":
        return [rng.randint(0, mx) for _ in range(W * H)]
    if style == "high":
        return [rng.choice([mx, mx - 1, max(0, mx - 3), mx // 2]) for _ in range(W * H)]
    return [mx] * (W * H)


def img_cmd(slot, bpp, W, H, px=None):
    if px is None:
        return "I %d %d %d %d z" % (slot, bpp, W, H)
    return "I %d %d %d %d v %s" % (slot, bpp, W, H, " ".join(str(v) for v in px))


def rt(slot, xoff, yoff, tz):
    return "RT %d %d %d %s" % (slot, xoff, yoff, " ".join(map(str, tz)))


def size(rng):
    return rng.choice([(8, 6), (8, 6), (5, 4), (7, 5), (3, 3), (1, 1), (8, 1), (2, 6)])


def offs(rng):
    return rng.choice([(0, 0), (0, 0), (1, 0), (0, 1), (-1, -1), (2, 1), (-2, 3), (3, -2)])


# ---- wide images: the span-fill optimisation of the a8 rasteriser (rasterize_edges_8)
# Within one pixel row the a8 rasteriser keeps the run of pixels common to all spans wider than 5 pixels seen so
# far ("fill") and the number of sample rows that covered it; a new wide span can start a fill, lie inside it,
# stick out on the left / right (those pixels get one row), cut it on the left / right (the cut-off pixels are
# flushed with the rows so far), lie wholly beyond it (flush and restart), shrink it to nothing; the fill is
# flushed at the end of the pixel row (memset when all 15 rows covered it) and at the last row.  The shapes below
# aim at each of these; widths 16..40 keep every coordinate far inside the arithmetic domain (|x| < 2^29).

def line_from(x0, y0, slope_num, slope_den, ya, yb):
    """the line through (x0, y0) with dx/dy = slope_num/slope_den, given by its points at ya and yb (lattice exact
       when (ya - y0) and (yb - y0) are multiples of slope_den)"""
    return (x0 + (ya - y0) * slope_num // slope_den, ya, x0 + (yb - y0) * slope_num // slope_den, yb)


def wide_yrange(g, H, rng):
    """top and bottom: thin (under a pixel), about a pixel, several pixel rows; at various sub-row offsets"""
    q = rng.randint(0, H - 1)
    top = q * F1 + rng.choice([0, 1, g.rows[0], g.rows[0] + 1, g.rows[len(g.rows) // 2], g.rows[-1], rng.randrange(F1)])
    hgt = rng.choice([g.sys * 2, g.sys * 5, F1 // 2, F1 - g.sys, F1 - 1, F1, F1 + 1, F1 + g.sys, 2 * F1, 3 * F1 // 2,
                      rng.randint(1, 3 * F1)])
    return top, top + hgt


def gen_hairline(n, W, H, rng):
    """both edges shallow and leaning the same way: spans move sideways by more than their common part"""
    g = GRIDS[n]
    top, bot = wide_yrange(g, H, rng)
    adv = rng.choice([3, 5, 7, 10, 14, 20, 30, W]) * F1 + rng.choice([0, 0, 1, rng.randrange(F1)])   # x advance per pixel row
    if rng.random() < 0.5:
        adv = -adv
    thick = rng.choice([F1 // 4, F1, 3 * F1, 6 * F1, 7 * F1, 8 * F1, 11 * F1, rng.randint(1, 14 * F1)])
    x0 = rng.randint(-2 * F1, (W - 4) * F1) if adv > 0 else rng.randint(4 * F1, (W + 2) * F1)
    e1, e2 = rng.choice([0, F1, 3 * F1]), rng.choice([0, F1, 3 * F1])
    l = line_from(x0, top, adv, F1, top - e1, bot + e2)
    skew = rng.choice([0, 0, 0, F1 // 3, -F1 // 3, 2 * F1])       # not quite parallel
    r = line_from(x0 + thick, top, adv + skew, F1, top - e1, bot + e2)
    return [top, bot] + list(l) + list(r)


def gen_wedge(n, W, H, rng):
    """one edge shallow, the other steep (or shallow the other way): spans grow or shrink on one side or both"""
    g = GRIDS[n]
    top, bot = wide_yrange(g, H, rng)
    shallow = rng.choice([4, 8, 15, 25]) * F1 * rng.choice([1, -1])
    steep = rng.choice([0, 0, F1 // 4, -F1 // 4, F1, -F1])
    other = rng.choice([steep, steep, -shallow, shallow // 3])
    xl = rng.randint(0, W // 2) * F1 + rng.randrange(F1)
    xr = xl + rng.choice([1, 3, 6, 7, 12, W // 2]) * F1 + rng.randrange(F1)
    sl, sr = (shallow, other) if rng.random() < 0.5 else (other, shallow)
    e = rng.choice([0, F1])
    l = line_from(xl, top, sl, F1, top - e, bot + e)
    r = line_from(xr, top, sr, F1, top - e, bot + e)
    return [top, bot] + list(l) + list(r)


def gen_widebox(n, W, H, rng):
    """wide shapes covering whole sample columns of many pixels: the memset path and near misses of it"""
    g = GRIDS[n]
    top, bot = wide_yrange(g, H, rng)
    if rng.random() < 0.5:
        top = rng.randint(0, H - 1) * F1 + rng.choice([0, g.rows[0], g.rows[0] + 1, g.rows[1] if len(g.rows) > 1 else 0])
        bot = top + rng.choice([F1, F1 - g.sys, 2 * F1, F1 + g.sys, 14 * g.sys, 15 * g.sys])
    xl = rng.randint(-1, W // 3) * F1 + rng.choice(g.cols + [0, rng.randrange(F1)])
    xr = rng.randint(W // 2, W + 1) * F1 + rng.choice(g.cols + [0, rng.randrange(F1)])
    dl, dr = (rng.choice([0, 0, 1, -1, F1 // 2, -F1 // 2, 2 * F1, -2 * F1, 5 * F1]) for _ in range(2))
    return [top, bot, xl, top, xl + dl, bot, xr, top, xr + dr, bot]


def gen_zigzag(n, W, H, rng):
    """thin vertically (under a pixel row), many pixels across, edges crossing inside or outside the row"""
    g = GRIDS[n]
    q = rng.randint(0, H - 1)
    top = q * F1 + rng.choice([0, g.rows[0], rng.randrange(F1 // 2)])
    bot = top + rng.choice([g.sys * 3, g.sys * 7, F1 // 2, F1 - 1, F1])
    xs = sorted(rng.randint(-F1, (W + 1) * F1) for _ in range(4))
    a = rng.choice([(xs[0], xs[2], xs[1], xs[3]), (xs[2], xs[0], xs[3], xs[1]), (xs[0], xs[1], xs[3], xs[2]),
                    (xs[1], xs[0], xs[2], xs[3])])
    return [top, bot, a[0], top, a[1], bot, a[2], top, a[3], bot]


WIDE_GENS = [("hairline", gen_hairline, 5), ("wedge", gen_wedge, 3), ("widebox", gen_widebox, 2), ("zigzag", gen_zigzag, 2)]


def exec_wide(rng, name, count):
    out = ["R %s" % name]
    stats = {}
    names = [k for k, _, w in WIDE_GENS for _i in range(w)]
    table = {k: f for k, f, _ in WIDE_GENS}
    for _ in range(count):
        n = rng.choice([8, 8, 8, 8, 4, 1])
        W = rng.choice([16, 20, 24, 31, 32, 33, 40])
        H = rng.choice([1, 2, 3, 4])
        xoff, yoff = rng.choice([(0, 0), (0, 0), (0, 0), (1, 0), (-3, 1), (5, -1)])
        for _t in range(100):
            k = rng.choice(names)
            tz = table[k](n, W, H, rng)
            if trap_ok(tz, n, W, H, xoff, yoff):
                break
        else:
            k, tz = "fallback", [0, F1, 0, 0, 0, F1, W * F1, 0, W * F1, F1]
        px = None
        if rng.random() < 0.15:
            mx = (1 << n) - 1
            px = [rng.choice([0, 0, 1, mx // 3]) for _i in range(W * H)]
        out.append(img_cmd(0, n, W, H, px))
        if rng.random() < 0.8:
            out.append(rt(0, xoff, yoff, tz))
        else:
            # the same shape cut along sample rows into abutting strips, all in one call
            g = GRIDS[n]
            cuts = sorted({tz[0] + i * g.sys for i in range(1, 40) if tz[0] + i * g.sys < tz[1]})[:rng.choice([1, 3, 20])]
            ys = [tz[0]] + cuts + [tz[1]]
            parts = [[ys[i], ys[i + 1]] + tz[2:] for i in range(len(ys) - 1)]
            out.append("AT 0 %d %d %d %s" % (xoff, yoff, len(parts), " ".join(str(v) for p_ in parts for v in p_)))
        stats["wide-" + k] = stats.get("wide-" + k, 0) + 1
    return out, stats



# ---- (ii) images against Coverage

def exec_images(rng, name, count):
    out = ["R %s" % name]
    stats = {}
    for _ in range(count):
        n = rng.choice([1, 4, 8, 8])
        W, H = size(rng)
        xoff, yoff = offs(rng)
        out.append(img_cmd(0, n, W, H, rand_pixels(n, W, H, rng)))
        api = rng.choice(["RT", "RT", "RT", "AT", "AP", "AG"])
        if api == "RT":
            k, tz = pick_shape(n, W, H, rng, xoff, yoff)
            out.append(rt(0, xoff, yoff, tz))
            stats[k] = stats.get(k, 0) + 1
        elif api == "AT":
            m = shape_count(rng, [0, 1, 2, 3])
            tzs = [pick_shape(n, W, H, rng, xoff, yoff)[1] for _i in range(m)]
            out.append("AT 0 %d %d %d %s" % (xoff, yoff, m, " ".join(str(v) for tz in tzs for v in tz)))
            stats["add_trapezoids"] = stats.get("add_trapezoids", 0) + 1
        elif api == "AP":
            m = rng.choice([1, 2])
            ts = []
            for _i in range(m):
                for _t in range(100):
                    k, tz = pick_shape(n, W, H, rng, xoff, yoff, kinds=("lattice", "random", "subpixel", "stale", "exact"))
                    # a pixman_trap_t has its edge end points on top.y / bot.y
                    t = [tz[2], tz[6], tz[0], tz[4], tz[8], tz[1]]
                    tz2 = [t[2], t[5], t[0], t[2], t[3], t[5], t[1], t[2], t[4], t[5]]
                    if t[5] > t[2] and trap_ok(tz2, n, W, H, xoff, yoff):
                        break
                else:
                    t = [0, F1, 0, 0, F1, F1]
                if rng.random() < 0.1:
                    t[2], t[5] = t[5], t[2]                 # top below bottom: nothing is drawn
                ts.append(t)
            out.append("AP 0 %d %d %d %s" % (xoff, yoff, m, " ".join(str(v) for t in ts for v in t)))
            stats["add_traps"] = stats.get("add_traps", 0) + 1
        else:
            m = shape_count(rng, [1, 1, 2])
            tris = [gen_triangle(n, W, H, rng, xoff, yoff) for _i in range(m)]
            out.append("AG 0 %d %d %d %s" % (xoff, yoff, m, " ".join(str(v) for t in tris for v in t)))
            stats["add_triangles"] = stats.get("add_triangles", 0) + 1
    return out, stats


# ---- triangles

def greater_y(a, b):
    return a[0] > b[0] if a[1] == b[1] else a[1] > b[1]


def tri_to_traps(tr):
    """the decomposition the specification prescribes (used to build the metamorphic scenario and to filter
       the domain; the verdict on pixman_add_triangles is TLC's, from Trap!TriToTraps)"""
    top, left, right = (tr[0], tr[1]), (tr[2], tr[3]), (tr[4], tr[5])
    if greater_y(top, left):
        top, left = left, top
    if greater_y(top, right):
        top, right = right, top
    ad = (right[0] - top[0], right[1] - top[1])
    bd = (left[0] - top[0], left[1] - top[1])
    if bd[1] * ad[0] - ad[1] * bd[0] < 0:
        left, right = right, left
    t1 = [top[1], min(left[1], right[1]), top[0], top[1], left[0], left[1], top[0], top[1], right[0], right[1]]
    t2 = list(t1)
    if right[1] < left[1]:
        t2[0], t2[1] = right[1], left[1]
        t2[6:10] = [right[0], right[1], left[0], left[1]]
    else:
        t2[0], t2[1] = left[1], right[1]
        t2[2:6] = [left[0], left[1], right[0], right[1]]
    return [t1, t2]


def gen_triangle(n, W, H, rng, xoff, yoff):
    g = GRIDS[n]
    for _ in range(200):
        style = rng.random()
        if style < 0.5:
            pts = [(pal_x(g, W, rng), pal_y(g, H, rng)) for _i in range(3)]
        elif style < 0.8:
            pts = [sample_point(g, W, H, rng) for _i in range(3)]
            pts = [(x + rng.choice([0, 0, F1 * 3, -F1 * 2]), y) for x, y in pts]
        else:
            pts = [(rng.randint(-3 * F1, (W + 3) * F1), rng.randint(-3 * F1, (H + 3) * F1)) for _i in range(3)]
        tr = [v for p in pts for v in p]
        if all(trap_ok(t, n, W, H, xoff, yoff) for t in tri_to_traps(tr)):
            return tr
    return [0, 0, F1, 0, 0, F1]


# ---- (iii) metamorphic scenarios

def between(l, m, r, rows):
    return all(x_at(l, y) < x_at(m, y) < x_at(r, y) for y in rows)


def exec_meta(rng, name, count):
    out = ["R %s" % name]
    stats = {}

    def bump(k):
        stats[k] = stats.get(k, 0) + 1

    for _ in range(count):
        n = rng.choice([1, 4, 8, 8])
        g = GRIDS[n]
        W, H = rng.choice([(8, 6), (6, 5), (5, 4), (8, 3)])
        kind = rng.choice(["hsplit", "hsplit", "vsplit", "stagger", "offset", "offset", "tri"])
        xoff, yoff = offs(rng) if kind != "offset" else (0, 0)
        if kind == "hsplit":
            _, tz = pick_shape(n, W, H, rng, xoff, yoff, kinds=("lattice", "through", "random", "far", "stale", "exact"))
            if not trap_valid(tz):
                continue
            cuts = sorted(set([rng.randint(tz[0] + 1, max(tz[0] + 1, tz[1] - 1)),
                               max(tz[0] + 1, min(tz[1] - 1, pal_y(g, H, rng)))]))
            cuts = [c for c in cuts if tz[0] < c < tz[1]][:rng.choice([1, 2])]
            if not cuts:
                continue
            ys = [tz[0]] + cuts + [tz[1]]
            parts = [[ys[i], ys[i + 1]] + tz[2:] for i in range(len(ys) - 1)]
            rng.shuffle(parts)
            out += [img_cmd(0, n, W, H), rt(0, xoff, yoff, tz), img_cmd(1, n, W, H)]
            out += [rt(1, xoff, yoff, p) for p in parts]
            out.append("EQ hsplit 0 1")
            bump("hsplit")
        elif kind in ("vsplit", "stagger"):
            for _t in range(60):
                _, tz = pick_shape(n, W, H, rng, xoff, yoff, kinds=("lattice", "through", "random", "stale", "exact"))
                if not trap_valid(tz):
                    continue
                tb = trap_rows(tz, n, H, yoff)
                if tb is None or tb[1] < tb[0]:
                    continue
                rows = [tb[0] - yoff * F1, tb[1] - yoff * F1]
                l, r = tuple(tz[2:6]), tuple(tz[6:10])
                style = rng.random()
                if style < 0.4:
                    m = line_through_samples(g, W, H, rng, False)
                elif style < 0.7:
                    xm = pal_x(g, W, rng)
                    m = (xm, tz[0] - F1, xm + rng.choice([0, 0, 1, -1, 3]), tz[1] + F1)
                else:
                    m = (pal_x(g, W, rng), tz[0] - rng.choice([0, 1, F1]), pal_x(g, W, rng), tz[1] + rng.choice([0, 1, F1]))
                mtz = tz[:2] + list(l) + list(m)
                if min(m[1], m[3]) > tz[0] or max(m[1], m[3]) < tz[1] or m[1] == m[3]:
                    continue
                if not trap_ok(mtz, n, W, H, xoff, yoff):
                    continue
                if between(l, m, r, rows):
                    break
            else:
                continue
            lm = tz[:2] + list(l) + list(m)
            mr = tz[:2] + list(m) + list(r)
            if kind == "vsplit":
                out += [img_cmd(0, n, W, H), rt(0, xoff, yoff, tz), img_cmd(1, n, W, H)]
                pr = [rt(1, xoff, yoff, lm), rt(1, xoff, yoff, mr)]
                rng.shuffle(pr)
                out += pr + ["EQ vsplit 0 1"]
                bump("vsplit")
            else:
                # A = (L, M) over [top, c2], B = (M, R) over [c1, bottom], c1 < c2: they abut along M over [c1, c2]
                if tz[1] - tz[0] < 3:
                    continue
                c1 = rng.randint(tz[0] + 1, tz[1] - 2)
                c2 = rng.randint(c1 + 1, tz[1] - 1)
                a = [tz[0], c2] + list(l) + list(m)
                b = [c1, tz[1]] + list(m) + list(r)
                out += [img_cmd(0, n, W, H), rt(0, xoff, yoff, a), rt(0, xoff, yoff, b), img_cmd(1, n, W, H),
                        rt(1, xoff, yoff, [tz[0], c1] + list(l) + list(m)),
                        rt(1, xoff, yoff, [c1, c2] + list(l) + list(r)),
                        rt(1, xoff, yoff, [c2, tz[1]] + list(m) + list(r)), "EQ stagger 0 1"]
                bump("stagger")
        elif kind == "offset":
            xo, yo = rng.choice([(1, 0), (0, 1), (-1, 2), (2, -1), (-3, -2), (100, 50), (-1000, 700)])
            for _t in range(100):
                _, tz = pick_shape(n, W, H, rng, 0, 0)
                far_tz = shifted(tz, -xo * F1, -yo * F1)
                if trap_ok(far_tz, n, W, H, xo, yo) and trap_ok(far_tz, n, W, H, xo + 1, yo + 1):
                    break
            else:
                continue
            dx, dy = rng.choice([(1, 0), (0, 1), (1, 1), (-1, 0), (0, -1), (2, -1)])
            if not trap_ok(far_tz, n, W, H, xo + dx, yo + dy):
                continue
            out += [img_cmd(0, n, W, H), rt(0, xo, yo, far_tz), img_cmd(1, n, W, H), rt(1, 0, 0, tz), "EQ offset 0 1",
                    img_cmd(2, n, W, H), rt(2, xo + dx, yo + dy, far_tz), "SH 0 2 %d %d" % (dx, dy)]
            bump("offset")
        else:
            m = shape_count(rng, [1, 2])
            tris = [gen_triangle(n, W, H, rng, xoff, yoff) for _i in range(m)]
            traps = [t for tr in tris for t in tri_to_traps(tr)]
            px = rand_pixels(n, W, H, rng)
            out += [img_cmd(0, n, W, H, px),
                    "AG 0 %d %d %d %s" % (xoff, yoff, m, " ".join(str(v) for t in tris for v in t)),
                    img_cmd(1, n, W, H, px),
                    "AT 1 %d %d %d %s" % (xoff, yoff, len(traps), " ".join(str(v) for t in traps for v in t)),
                    "EQ tri 0 1"]
            bump("tri")
    return out, stats


# ---- composite entry points against mask + composite32

def argb(rng):
    a = rng.choice([0, 255, 255, 128, rng.randint(0, 255)])
    c = [rng.randint(0, a) for _ in range(3)]
    return (a << 24) | (c[0] << 16) | (c[1] << 8) | c[2]



def shape_count(rng, small):
    """number of shapes handed to ONE call: mostly the small counts, sometimes a list that crosses the sizes of the
       fixed arrays / batches an entry point may work through (16 / 17 / 18, 33, 40)"""
    return rng.choice([16, 17, 18, 33, 40]) if rng.random() < 0.12 else rng.choice(small)

def exec_comp(rng, name, count, ops, start):
    """start: running index, so that the operators are cycled through across executions"""
    out = ["R %s" % name]
    stats = {}
    for i in range(count):
        op = ops[(start + i) % len(ops)]
        W, H = rng.choice([(8, 6), (6, 4), (5, 5)])
        mfmt = rng.choice([1, 4, 8, 8])
        dfmt = rng.choice([32, 32, 8])
        route = "mask"
        u = rng.random()
        if u < 0.2:
            op, dfmt, route = 0x0c, rng.choice([8, 8, 4, 1]), "direct"     # ADD, opaque source, same format: direct route
            mfmt = dfmt
        elif u < 0.35:
            # everything but one condition of the direct route: must still behave as mask + composite
            op, route = 0x0c, "neardirect"
            dfmt = rng.choice([8, 4, 1, 32])
            mfmt = rng.choice([f for f in (1, 4, 8) if f != dfmt])
        unbounded = op not in ZERO_SRC_NO_EFFECT
        xd, yd = rng.choice([(0, 0), (0, 0), (1, 0), (-1, 1), (2, 1)])
        xs, ys = rng.choice([(0, 0), (1, 2), (-1, 0), (3, -2)])
        if dfmt == 32:
            dpx = [argb(rng) for _ in range(W * H)]
        else:
            dpx = [rng.randint(0, (1 << dfmt) - 1) for _ in range(W * H)]
        if route == "neardirect":
            src = "S 2 %d %d %d 65535" % tuple(rng.choice([0, 65535, 0x8000]) for _ in range(3))
        elif route == "direct" and rng.random() < 0.6:
            src = "S 2 %d %d %d 65535" % tuple(rng.choice([0, 65535, 0x8000]) for _ in range(3))
        elif route == "direct":
            # an opaque bits source (no alpha channel, repeating): also takes the direct route
            sw, sh = rng.choice([(2, 2), (3, 1), (W, H)])
            src = img_cmd(2, 24, sw, sh, [argb(rng) for _ in range(sw * sh)]) + "\nP 2 %d" % rng.choice([1, 2, 3])
        elif rng.random() < 0.4:
            src = "S 2 %d %d %d %d" % tuple(rng.choice([0, 65535, 0x8000, 0x1234]) for _ in range(4))
        else:
            sw, sh = rng.choice([(W, H), (W + 3, H + 3), (3, 3)])
            src = img_cmd(2, rng.choice([32, 32, 24]), sw, sh, [argb(rng) for _ in range(sw * sh)])
            if rng.random() < 0.3:
                src += "\nP 2 %d" % rng.choice([0, 1, 2, 3])
        tri = rng.random() < 0.3
        m = shape_count(rng, [1, 1, 2, 3])
        if tri:
            shapes = [gen_triangle(mfmt, W, H, rng, xd, yd) for _i in range(m)]
            traps = [t for tr in shapes for t in tri_to_traps(tr)]
        else:
            shapes = []
            for _i in range(m):
                for _t in range(100):
                    _, tz = pick_shape(mfmt, W, H, rng, xd, yd, kinds=("lattice", "through", "random", "subpixel", "stale", "exact", "degenerate"))
                    # the library's temporary mask covers the extents of the edge END POINTS: keep them moderate, and
                    # valid for a mask of that size at the offset the library uses
                    if max(abs(v) for v in tz) < 40 * F1 and spans(tz):
                        break
                shapes.append(tz)
            traps = shapes
        flat = " ".join(str(v) for s in shapes for v in s)
        out += [img_cmd(0, dfmt, W, H, dpx), img_cmd(1, dfmt, W, H, dpx), src,
                "%s %d 2 0 %d %d %d %d %d %d %s" % ("CG" if tri else "CT", op, mfmt, xs, ys, xd, yd, m, flat)]
        # reference route: a temporary mask as large as the destination, aligned with it
        if unbounded and (xd, yd) != (0, 0):
            # operators that affect pixels outside the trapezoids: the statement does not say how far the temporary
            # mask extends; the library composites a destination-sized mask placed at (x_dst, y_dst).  That is the
            # judged reference; the documented "entire destination" reading is recorded as an observation.
            out.append(img_cmd(3, mfmt, W, H))
            out += [rt(3, 0, 0, t) for t in traps]
            out.append("CI %d 2 3 1 %d %d 0 0 %d %d %d %d" % (op, xs, ys, xd, yd, W, H))
            out.append("EQ comp 0 1")
            out += [img_cmd(4, dfmt, W, H, dpx), img_cmd(5, mfmt, W, H)]
            out += [rt(5, xd, yd, t) for t in traps]
            out.append("CI %d 2 5 4 %d %d 0 0 0 0 %d %d" % (op, xs - xd, ys - yd, W, H))
            out.append("EQ obs-doc-extents 0 4")
        else:
            out.append(img_cmd(3, mfmt, W, H))
            out += [rt(3, xd, yd, t) for t in traps]
            out.append("CI %d 2 3 1 %d %d 0 0 0 0 %d %d" % (op, xs - xd, ys - yd, W, H))
            out.append("EQ comp 0 1")
        k = "comp-%s-%s" % (route, "unbounded" if unbounded else "bounded")
        stats[k] = stats.get(k, 0) + 1
        stats["op-%02x" % op] = stats.get("op-%02x" % op, 0) + 1
    return out, stats


# ---- composite entry points: the presentations of the SOURCE and the conditions of the direct route
# pixman_composite_trapezoids rasterises straight into the destination when  op = ADD  and  the source is opaque
# and  mask_format = destination format  and  the destination has neither clip region nor alpha map  and  no source
# clip is in force; otherwise it composites a temporary mask.  Whether "the source is opaque" is decided from the
# image's flags, so the suite walks (a) every way a source can be presented - solid fills, 1x1 repeating bits
# images of each format the solid-colour shortcut reads directly (a8r8g8b8, x8r8g8b8, a8) with opaque and
# translucent pixels, each with no / a translucent / an opaque / a zero alpha map, every repeat mode, 1x1 without
# repeat, larger opaque-by-format images with and without alpha map - times (b) each condition of the shortcut
# negated in turn (and all of them true), plus the other operators.  Judged by "Eq comp": the destination (and its
# alpha map) equals the one obtained from rasterising a mask and compositing it with the same source.

def src_presentations():
    pres = [("solid-opaque", None), ("solid-translucent", None)]
    for fmt in (32, 24, 8):
        for px in (("opaque", "translucent") if fmt != 24 else ("x",)):
            for am in ("none", "am-translucent", "am-opaque", "am-zero"):
                pres.append(("1x1-%d-%s-%s" % (fmt, px, am), (fmt, px, am)))
    pres += [("1x1-norepeat", None), ("1x1-norepeat-am", None), ("big-x888-repeat", None), ("big-x888-repeat-am", None),
             ("big-8888-am", None)]
    return pres


SRC_PRES = src_presentations()
COMP_CONDS = ["direct", "direct", "fmt", "dclip", "damap", "sclip", "sclip-off", "op"]


def src_lines(pres, rng, W, H):
    name, spec = pres
    if name == "solid-opaque":
        return ["S 2 %d %d %d 65535" % tuple(rng.choice([0, 65535, 0x8000]) for _ in range(3))]
    if name == "solid-translucent":
        return ["S 2 %d %d %d %d" % tuple(rng.choice([0, 65535, 0x8000, 0x1234]) for _ in range(4))]
    if spec is not None:
        fmt, px, am = spec
        if fmt == 32:
            v = (0xff000000 | rng.randrange(1 << 24)) if px == "opaque" else argb(rng)
        elif fmt == 24:
            v = rng.randrange(1 << 32)
        else:
            v = 255 if px == "opaque" else rng.choice([0, 1, 0x40, 0x80, 254])
        out = []
        if am != "none":
            a = {"am-translucent": rng.choice([1, 0x40, 0x80, 0xfe, rng.randint(1, 254)]), "am-opaque": 255, "am-zero": 0}[am]
            out.append(img_cmd(6, 8, 1, 1, [a]))
        out += [img_cmd(2, fmt, 1, 1, [v]), "P 2 %d" % rng.choice([1, 2, 3])]
        if am != "none":
            out.append("AM 2 6 0 0")
        return out
    if name.startswith("1x1-norepeat"):
        out = []
        if name.endswith("am"):
            out.append(img_cmd(6, 8, 1, 1, [rng.choice([0x40, 0x80, 255])]))
        out.append(img_cmd(2, rng.choice([32, 24, 8]), 1, 1, [0xffffffff]))
        if name.endswith("am"):
            out.append("AM 2 6 0 0")
        return out
    sw, sh = rng.choice([(2, 2), (3, 1), (W, H)])
    out = []
    if name.endswith("am"):
        out.append(img_cmd(6, 8, sw, sh, [rng.choice([0, 0x40, 0x80, 255]) for _ in range(sw * sh)]))
    if name.startswith("big-x888"):
        out += [img_cmd(2, 24, sw, sh, [argb(rng) for _ in range(sw * sh)]), "P 2 %d" % rng.choice([1, 2, 3])]
    else:
        out += [img_cmd(2, 32, sw, sh, [0xff000000 | rng.randrange(1 << 24) for _ in range(sw * sh)]), "P 2 1"]
    if name.endswith("am"):
        out.append("AM 2 6 %d %d" % rng.choice([(0, 0), (0, 0), (1, 0)]))
    return out


def rand_boxes(rng, W, H):
    bs = []
    for _ in range(rng.choice([1, 1, 2])):
        x1, y1 = rng.randint(-1, W - 1), rng.randint(-1, H - 1)
        bs += [x1, y1, x1 + rng.randint(1, W), y1 + rng.randint(1, H)]
    return bs


def exec_comp_src(rng, name, start, count, ops):
    """start: running index; presentations, conditions and operators are cycled through across executions"""
    out = ["R %s" % name]
    stats = {}
    for i in range(count):
        j = start + i
        pres = SRC_PRES[j % len(SRC_PRES)]
        cond = COMP_CONDS[(j // len(SRC_PRES)) % len(COMP_CONDS)]
        W, H = rng.choice([(8, 6), (6, 4), (5, 5)])
        op = 0x0c
        dfmt = rng.choice([8, 8, 4, 1])
        mfmt = dfmt
        if cond == "fmt":
            dfmt = rng.choice([8, 4, 1, 32])
            mfmt = rng.choice([f for f in (1, 4, 8) if f != dfmt])
        elif cond == "op":
            op = ops[j % len(ops)]
            dfmt = rng.choice([32, 32, 8, 4])
            mfmt = rng.choice([1, 4, 8, 8])
        unbounded = op not in ZERO_SRC_NO_EFFECT
        xd, yd = (0, 0) if unbounded else rng.choice([(0, 0), (0, 0), (1, 0), (-1, 1), (2, 1)])
        xs, ys = rng.choice([(0, 0), (1, 2), (-1, 0), (3, -2)])
        if dfmt == 32:
            dpx = [argb(rng) for _ in range(W * H)]
        else:
            dpx = [rng.randint(0, (1 << dfmt) - 1) for _ in range(W * H)]
        if cond == "damap":
            # the destination's own alpha agrees with its alpha map, so that compositing nothing changes nothing
            # (the statement does not say how far the temporary mask extends)
            apx = [rng.choice([0, 0x40, 0x80, 255, rng.randrange(256)]) for _ in range(W * H)]
            dpx = [a >> (8 - dfmt) for a in apx]
        out += [img_cmd(0, dfmt, W, H, dpx), img_cmd(1, dfmt, W, H, dpx)]
        if cond == "damap":
            out += [img_cmd(7, 8, W, H, apx), "AM 0 7 0 0", img_cmd(8, 8, W, H, apx), "AM 1 8 0 0"]
        if cond == "dclip":
            bs = rand_boxes(rng, W, H)
            out += ["CL %d %d %s" % (sl, len(bs) // 4, " ".join(map(str, bs))) for sl in (0, 1)]
        out += src_lines(pres, rng, W, H)
        if cond in ("sclip", "sclip-off"):
            bs = rand_boxes(rng, W, H)
            out += ["CL 2 %d %s" % (len(bs) // 4, " ".join(map(str, bs))), "HC 2 1", "CS 2 %d" % (1 if cond == "sclip" else 0)]
        tri = rng.random() < 0.25
        m = rng.choice([1, 1, 2])
        if tri:
            shapes = [gen_triangle(mfmt, W, H, rng, xd, yd) for _i in range(m)]
            traps = [t for tr in shapes for t in tri_to_traps(tr)]
        else:
            shapes = []
            for _i in range(m):
                for _t in range(100):
                    _, tz = pick_shape(mfmt, W, H, rng, xd, yd, kinds=("lattice", "through", "random", "stale", "exact"))
                    if max(abs(v) for v in tz) < 40 * F1 and spans(tz):
                        break
                shapes.append(tz)
            traps = shapes
        flat = " ".join(str(v) for sh_ in shapes for v in sh_)
        out.append("%s %d 2 0 %d %d %d %d %d %d %s" % ("CG" if tri else "CT", op, mfmt, xs, ys, xd, yd, m, flat))
        out.append(img_cmd(3, mfmt, W, H))
        out += [rt(3, xd, yd, t) for t in traps]
        out.append("CI %d 2 3 1 %d %d 0 0 0 0 %d %d" % (op, xs - xd, ys - yd, W, H))
        out.append("EQ comp 0 1")
        if cond == "damap":
            out.append("EQ comp 7 8")
        stats["src-" + pres[0]] = stats.get("src-" + pres[0], 0) + 1
        stats["cond-" + cond] = stats.get("cond-" + cond, 0) + 1
    return out, stats


def spans(tz):
    """both edges span the trapezoid's vertical range (the domain in which the library's extents hold)"""
    if not trap_valid(tz):
        return True
    return (min(tz[3], tz[5]) <= tz[0] and max(tz[3], tz[5]) >= tz[1] and
            min(tz[7], tz[9]) <= tz[0] and max(tz[7], tz[9]) >= tz[1])


# ---- (i) walker traces

def exec_walks(rng, name, count):
    out = ["R %s" % name]
    for _ in range(count):
        n = rng.choice([1, 4, 8])
        g = GRIDS[n]
        for _t in range(100):
            style = rng.choice(["small", "small", "stale", "exact", "wide", "neg"])
            if style == "wide":
                xt, xb = rng.randint(-LIM + 1, LIM - 1), rng.randint(-LIM + 1, LIM - 1)
                yt = rng.randint(-LIM + 1, LIM - 3)
                yb = rng.randint(yt + 1, LIM - 1)
            else:
                xt = rng.randint(-4 * F1, 12 * F1)
                yt = rng.choice([rng.randint(-3 * F1, 8 * F1), rng.randint(0, 6) * F1 + rng.choice(g.rows)])
                dy = rng.choice([1, 2, 3, g.sys, g.syb, F1, 2 * F1, rng.randint(1, 10 * F1), rng.randint(1, 300)])
                yb = yt + dy
                if style == "stale":
                    xb = xt + rng.choice([1, 2, 3, 5, -1, -2, -7]) + rng.choice([0, dy, -dy, 3 * dy])
                else:
                    xb = xt + rng.choice([0, dy, -dy, dy // 2, -(dy // 2), rng.randint(-9 * F1, 9 * F1), rng.randint(-50, 50)])
            ystart = {"exact": yt, "neg": yt - rng.choice([1, g.sys, F1, rng.randint(1, 3 * F1)])}.get(
                style, rng.choice([yt, g.ceil_y(yt), yt + rng.randint(0, yb - yt), g.ceil_y(yt + rng.randint(0, yb - yt)),
                                   yt + rng.randint(-F1, 2 * F1)]))
            steps = []
            y = ystart
            rows = [y]
            for _s in range(rng.randint(0, 8)):
                k = rng.choice([g.sys, g.sys, g.syb, F1, -g.sys, -g.syb, -F1, 0, 1, -1, rng.randint(-3 * F1, 3 * F1)])
                steps.append(k)
                y += k
                rows.append(y)
            line = (xt, yt, xb, yb)
            if edge_ok(line, rows + [r + F1 for r in rows], n) and all(abs(k) * (abs(xb - xt) // (yb - yt)) < (1 << 30) for k in steps):
                break
        else:
            xt, yt, xb, yb, ystart, steps = 0, 0, 0, F1, 0, []
        out.append("W %d %d %d %d %d %d %d %s" % (n, ystart, xt, yt, xb, yb, len(steps), " ".join(map(str, steps))))
        if rng.random() < 0.2:
            xo, yo = rng.choice([(0, 0), (1, -1), (-2, 3)])
            p = (xt, yt, xb, yb) if rng.random() < 0.5 else (xb, yb, xt, yt)
            if edge_ok((xt + xo * F1, yt + yo * F1, xb + xo * F1, yb + yo * F1), [ystart, ystart + F1], n):
                out.append("WL %d %d %d %d %d %d %d %d" % ((n, ystart) + p + (xo, yo)))
    return out


# ---- edges whose deltas sit on and next to the 32-bit limits (pixman_edge_init narrows 33-bit deltas)
# The difference of two 16.16 numbers needs 33 bits; pixman_edge_init takes quotient and remainder in 64 bits and
# must halve both deltas when dy itself does not fit, and y_start - y_top needs 33 bits as well.  The suite walks
# the structure of that code: each delta takes the values around +-2^31 and +-2^32 (and ordinary ones), the three
# combinations (dx at a limit, dy at a limit, both), both directions, every depth; the edge is placed so that it
# still crosses a small image at the sampled rows (end points as far out as the 16.16 range allows) and spans the
# trapezoid's vertical range.  Python only places the edges and filters the domain (no 32-bit wrap of an
# abscissa); the verdict is TLC's, by the exact two-limb arithmetic of Trap!LineX / the cursor.

M31 = 1 << 31
LIMIT_MAGS = [M31 - 2, M31 - 1, M31, M31 + 1, M31 + 2, 2 * M31 - 2, 2 * M31 - 1]


def wide_x(line, y):
    """the abscissa the specification's walker holds on row y (exact integers; domain filtering only)"""
    xt, yt, xb, yb = line_top_bot(*line)
    dx, dy = xb - xt, yb - yt
    num = (y - yt) * dx
    fl = num // dy
    if dx >= 0 and dx % dy != 0:
        return xt + fl + (1 if num % dy else 0) - 1
    return xt + fl


def wide_edge_ok(line, rows):
    xt, yt, xb, yb = line_top_bot(*line)
    if yb <= yt or min(xt, yt, xb, yb) < -M31 or max(xt, yt, xb, yb) >= M31:
        return False
    stepx = abs(xb - xt) // (yb - yt)
    if stepx >= 8192:
        return False
    for y in rows:
        if not -M31 <= y < M31:
            return False
        if abs(y - yt) * stepx >= M31 or abs(wide_x(line, y)) >= M31 - 2 * F1:
            return False
    return True


def tall_odd(line):
    """dy does not fit 32 bits and a delta is odd: no pixman_edge_t follows that line exactly
       (known finding C12-halved-deltas; judged within two units, Walk / LineInit only)"""
    xt, yt, xb, yb = line_top_bot(*line)
    return yb - yt >= M31 and ((xb - xt) % 2 == 1 or (yb - yt) % 2 == 1)


def ordinary_deltas(rng, thorough):
    dys = [5 * F1 + 1, 100 * F1, 100 * F1 + 1, 6553603, 20000 * F1 + 12345, 3 * (M31 // 4) + 1, rng.randint(5 * F1, M31 - 3)]
    dxs = [0, 1, -1, 3 * F1 + 1, -(3 * F1 + 1), rng.randint(-M31 + 3, M31 - 3), rng.randint(-40 * F1, 40 * F1)]
    if thorough:
        dys += [rng.randint(5 * F1, 300 * F1) for _ in range(3)]
        dxs += [rng.randint(-M31 + 3, M31 - 3) for _ in range(3)]
    return dxs, dys


def limit_delta_pairs(rng, thorough):
    lims = list(LIMIT_MAGS)
    if thorough:
        lims += [M31 + rng.randint(3, 70000), M31 - rng.randint(3, 70000), 2 * M31 - rng.randint(3, 70000),
                 M31 + 10 * F1, M31 + 10 * F1 + 2]
    else:
        lims += [M31 + 10 * F1]
    dxs, dys = ordinary_deltas(rng, thorough)
    pairs = []
    for m in lims:
        for sg in (1, -1):
            pairs += [(sg * m, dy, "dx") for dy in dys]                    # dx at a limit, dy ordinary
            pairs += [(sg * m, dy, "both") for dy in lims]                 # both at a limit
    for m in lims:
        pairs += [(dx, m, "dy") for dx in dxs]                             # dy at a limit, dx ordinary
    # the first delta no pixman_fixed_t holds (and the last one it does), with further heights of either parity
    more = [6 * F1, 33 * F1 + 2, 1000 * F1 + 1, 2 * rng.randint(3 * F1, M31 // 2 - 1), 2 * rng.randint(3 * F1, 300 * F1) + 1]
    for m in (M31, M31 - 1):
        for sg in (1, -1):
            pairs += [(sg * m, dy, "dx") for dy in more]
    return pairs


def place_edge(dx, dy, n, W, H, rng):
    """end points (xt, yt, xb, yb) with the given deltas such that the edge passes a sample row of the image near
       the image (abscissa within [-1, W + 1] pixels there); None if the 16.16 range does not allow it"""
    g = GRIDS[n]
    for _ in range(40):
        y0 = rng.randint(0, H - 1) * F1 + rng.choice(g.rows)
        klo, khi = max(0, y0 + dy - (M31 - 1)), min(dy, y0 + M31)
        if klo > khi:
            continue
        xlo, xhi = max(-M31, -M31 - dx), min(M31 - 1, M31 - 1 - dx)          # admissible xt
        wlo, whi = -F1, (W + 1) * F1                                          # where the edge shall pass row y0
        # off = floor (k dx / dy) must leave an xt = target - off in [xlo, xhi] for a target in [wlo, whi]
        if dx != 0:
            a, b = sorted([(wlo - xhi) * dy // dx, (whi - xlo) * dy // dx])
            klo2, khi2 = max(klo, a - 2), min(khi, b + 2)
        else:
            klo2, khi2 = klo, khi
        if klo2 > khi2:
            continue
        cands = [klo2, khi2, rng.randint(klo2, khi2), rng.randint(klo2, khi2), (klo2 + khi2) // 2]
        if khi2 - klo2 < 8:
            cands = list(range(klo2, khi2 + 1))
        rng.shuffle(cands)
        xt = None
        for k0 in cands:
            off = (k0 * dx) // dy
            tlo, thi = max(xlo, wlo - off), min(xhi, whi - off)
            if tlo <= thi:
                xt = rng.choice([tlo, thi, rng.randint(tlo, thi)])
                break
        if xt is None:
            continue
        yt = y0 - k0
        return (xt, yt, xt + dx, yt + dy), y0
    return None


def exec_limits(rng, name, pairs):
    """Walk / LineInit events for every pair of deltas, rasterisations and abutting pairs for those a trapezoid can use"""
    out = ["R %s" % name]
    stats = {}

    def bump(k):
        stats[k] = stats.get(k, 0) + 1

    for dx, dy, which in pairs:
        n = rng.choice([1, 4, 8])
        g = GRIDS[n]
        W, H = rng.choice([(8, 2), (5, 3), (3, 1), (8, 1)])
        pl = place_edge(dx, dy, n, W, H, rng)
        if pl is None:
            bump("limit-unplaceable")
            continue
        line, y0 = pl
        xt, yt, xb, yb = line
        residual = tall_odd(line)
        # (i) the walker: init on / near the row, steps of either sign
        for _t in range(30):
            ystart = rng.choice([y0, y0, y0 + rng.randint(-F1, F1), max(yt, min(yb, y0 + rng.randint(-3 * F1, 3 * F1)))])
            steps, rows, y = [], [ystart], ystart
            for _s in range(rng.randint(0, 5)):
                k = rng.choice([g.sys, g.sys, g.syb, F1, -g.sys, -g.syb, -F1, 1, -1, rng.randint(-2 * F1, 2 * F1)])
                steps.append(k)
                y += k
                rows.append(y)
            if wide_edge_ok(line, rows + [r + F1 for r in rows]):
                out.append("W %d %d %d %d %d %d %d %s" % (n, ystart, xt, yt, xb, yb, len(steps), " ".join(map(str, steps))))
                bump("limit-walk-" + which + ("-tallodd" if residual else ""))
                break
        if rng.random() < 0.3 and wide_edge_ok(line, [y0, y0 + F1]):
            p = (xt, yt, xb, yb) if rng.random() < 0.5 else (xb, yb, xt, yt)
            out.append("WL %d %d %d %d %d %d 0 0" % ((n, y0) + p))
            bump("limit-lineinit")
        if residual:
            continue
        # (ii) a trapezoid bounded by the edge: its rows are the sample rows of the image the edge spans
        top = max(yt, rng.choice([-F1, 0, y0 - g.sys, y0]))
        bot = min(yb, rng.choice([(H + 1) * F1, H * F1, y0 + 1, y0 + g.sys + 1, y0 + F1]))
        if bot <= top:
            continue
        tb = trap_rows([top, bot], n, H, 0)
        if tb is None or tb[1] < tb[0] or not wide_edge_ok(line, [tb[0], tb[1], tb[1] + F1]):
            continue
        vl = (-F1, top - 1, -F1, bot + 1)
        vr = ((W + 1) * F1, top - 1, (W + 1) * F1, bot + 1)
        if rng.random() < 0.25:
            # the other side is the same line a little further on (another limit edge)
            sh = rng.choice([1, g.sxs, F1, 3 * F1 + 7])
            other = (xt + sh, yt, xb + sh, yb)
            if wide_edge_ok(other, [tb[0], tb[1], tb[1] + F1]):
                vr = other
        if rng.random() < 0.5:
            line = (xb, yb, xt, yt)                          # end points given bottom first
        u = rng.random()
        if u < 0.4:
            out += [img_cmd(0, n, W, H, rand_pixels(n, W, H, rng) if rng.random() < 0.2 else None),
                    rt(0, 0, 0, [top, bot] + list(line) + list(vr))]
            bump("limit-rast-left-" + which)
        elif u < 0.8:
            out += [img_cmd(0, n, W, H), rt(0, 0, 0, [top, bot] + list(vl) + list(line))]
            bump("limit-rast-right-" + which)
        else:
            # the two sides of the edge abut along it: together they are the strip between the vertical edges
            vr = ((W + 1) * F1, top - 1, (W + 1) * F1, bot + 1)
            pr = [rt(1, 0, 0, [top, bot] + list(vl) + list(line)), rt(1, 0, 0, [top, bot] + list(line) + list(vr))]
            rng.shuffle(pr)
            out += [img_cmd(0, n, W, H), rt(0, 0, 0, [top, bot] + list(vl) + list(vr)), img_cmd(1, n, W, H)] + pr
            out.append("EQ vsplit 0 1")
            bump("limit-vsplit-" + which)
    return out, stats


def exec_sample_y(rng, name, extremes):
    out = ["R %s" % name]
    for n in (1, 4, 8):
        g = GRIDS[n]
        for _ in range(6):
            ys = []
            for _i in range(64):
                q = rng.choice([0, 1, -1, 5, -7, 32766, -32767, rng.randint(-32767, 32766)])
                f = rng.choice(g.rows + [0, F1 - 1, rng.randrange(F1)]) + rng.choice([0, 0, 1, -1])
                ys.append(q * F1 + min(max(f, 0), F1 - 1))
            out.append("SY %d %d %s" % (n, len(ys), " ".join(map(str, ys))))
        if extremes:
            # the ends of the 16.16 range: the top pixel row (ceil saturates) and the lowest one (floor saturates)
            ys = [32767 * F1 + f for f in (0, g.ylast - 1, g.ylast, g.ylast + 1, F1 - 1)]
            ys += [-32768 * F1 + f for f in (0, 1, g.yfirst, g.yfirst + 1, g.yfirst + 2, F1 - 1)]
            out.append("SY %d %d %s" % (n, len(ys), " ".join(map(str, ys))))
    return out


def exec_extreme(name):
    """a trapezoid in the lowest pixel row of the coordinate range: nothing of it is inside any image"""
    out = ["R %s" % name]
    lo = -32768 * F1
    for n in (8, 4, 1):
        out.append(img_cmd(0, n, 8, 6))
        out.append(rt(0, 0, 0, [lo, lo + 100, F1, lo, F1, lo + 100, 5 * F1, lo, 5 * F1, lo + 100]))
    return out


# ------------------------------------------------------------------------------------------
# scenarios generated by TLC from the specification (abstract lattice indices -> coordinates)

def tlc_scenarios(num, seed):
    path = os.path.join(vf.SPEC, "gen", "TrapGen.tla")
    r = vf.run_tlc(path, workers=4, timeout=600,
                   extra=["-generate", "num=%d" % num, "-depth", "80", "-seed", str(seed)], tag="tgen")
    behs = [json.loads(json.loads(b)) for b in sorted(set(r.vf("behaviour")))]
    if not behs:
        raise vf.Infra("TrapGen produced no behaviours:\n" + r.out[-2000:])
    return behs, r


def embed(beh, n, W, H, rng, name):
    """abstract scenario (lattice indices) -> script; x/y index k of pixel p -> a coordinate of the palette"""
    g = GRIDS[n]
    jx = rng.choice([0, 0, 1, -1])
    jy = rng.choice([0, 0, 1, -1])

    def X(i):      # index -> abscissa: 3 positions per pixel (boundary, first / middle sample column)
        p, k = divmod(i, 3)
        return (p - 1) * F1 + [0, g.cols[0] + jx, g.cols[len(g.cols) // 2] + jx][k]

    def Y(i):
        q, k = divmod(i, 3)
        return (q - 1) * F1 + [0, g.rows[0] + jy, g.rows[-1] + jy][k]

    out = ["R %s" % name]
    slot_used = set()
    for c in beh:
        if c["k"] == "img":
            out.append(img_cmd(c["s"], n, W, H))
            slot_used.add(c["s"])
        elif c["k"] == "rt":
            v = c["v"]
            tz = [Y(v[0]), Y(v[1]), X(v[2]), Y(v[3]), X(v[4]), Y(v[5]), X(v[6]), Y(v[7]), X(v[8]), Y(v[9])]
            if c["s"] in slot_used and trap_ok(tz, n, W, H, c["xo"], c["yo"]):
                out.append(rt(c["s"], c["xo"], c["yo"], tz))
        elif c["k"] == "eq":
            if c["a"] in slot_used and c["b"] in slot_used:
                out.append("EQ %s %d %d" % (c["kind"], c["a"], c["b"]))
    return out


# ------------------------------------------------------------------------------------------

def count_events(chk, tracefile):
    kinds = chk.extra.setdefault("events_by_kind", {})
    for line in open(tracefile):
        if not line.startswith('{"e":"') or line.startswith('{"e":"Reset"'):
            continue
        try:
            ev = json.loads(line)
        except ValueError:
            continue
        k = ev["e"] if ev["e"] != "Rast" else "Rast:" + ev["api"]
        if ev["e"] == "Eq":
            k = "Eq:" + ev["kind"]
        kinds[k] = kinds.get(k, 0) + 1
        chk.evaluations += 1
        if ev["e"] == "Rast":
            chk.extra["shapes"] = chk.extra.get("shapes", 0) + len(ev["shapes"])
            if ev["after"] != ev["before"]:
                chk.distinct_keys.add(hash((ev["n"], ev["w"], json.dumps(ev["shapes"]), ev["xoff"], ev["yoff"])))
                if any(0 < a < (1 << ev["n"]) - 1 and a != b for a, b in zip(ev["after"], ev["before"])):
                    chk.extra["images_with_partial_coverage"] = chk.extra.get("images_with_partial_coverage", 0) + 1
        elif ev["e"] == "Walk":
            chk.distinct_keys.add(hash(json.dumps(ev["eds"])))
            chk.extra["walker_states"] = chk.extra.get("walker_states", 0) + len(ev["eds"])
        elif ev["e"] == "Eq":
            if any(ev["a"]):
                chk.distinct_keys.add(hash(line))
        elif ev["e"] == "Crash":
            chk.extra["crashes"] = chk.extra.get("crashes", 0) + 1


MC_RUNS = {
    # name: (module, cfg, negative, tiers)
    "walker-quick": ("TrapMC", "TrapMC_quick.cfg", False, ("quick",)),
    "walker": ("TrapMC", "TrapMC.cfg", False, ("thorough",)),
    "walker-d8": ("TrapMC", "TrapMC_d8.cfg", False, ("quick", "thorough")),
    "walker-real": ("TrapMC", "TrapMC_real.cfg", False, ("thorough",)),
    "walker-wide": ("TrapMC", "TrapMC_wide.cfg", False, ("quick", "thorough")),
    "walker-wide-full": ("TrapMC", "TrapMC_wide_full.cfg", False, ("thorough",)),
    "walker-neg-halve": ("TrapMC", "TrapMC_neg_halve.cfg", True, ("quick", "thorough")),
    "walker-neg-inite": ("TrapMC", "TrapMC_neg_inite.cfg", True, ("quick", "thorough")),
    "walker-neg-corr": ("TrapMC", "TrapMC_neg_corr.cfg", True, ("quick", "thorough")),
    "walker-neg-stale": ("TrapMC", "TrapMC_neg_stale.cfg", True, ("quick", "thorough")),
    "walker-neg-exact0": ("TrapMC", "TrapMC_neg_exact0.cfg", True, ("quick", "thorough")),
    "walker-neg-backstep": ("TrapMC", "TrapMC_neg_backstep.cfg", True, ("quick", "thorough")),
    "tile-quick": ("TrapTileMC", "TrapTileMC_quick.cfg", False, ("quick",)),
    "tile-quick-neg-unrepaired": ("TrapTileMC", "TrapTileMC_quick_neg_unrepaired.cfg", True, ("quick",)),
    "tile": ("TrapTileMC", "TrapTileMC.cfg", False, ("thorough",)),
    "tile-neg-unrepaired": ("TrapTileMC", "TrapTileMC_neg_unrepaired.cfg", True, ("thorough",)),
    "tile-neg-exact0": ("TrapTileMC", "TrapTileMC_neg_exact0.cfg", True, ("thorough",)),
}


def mc_all(tier):
    base = os.path.join(vf.SPEC, "mc")
    todo = [(k, v) for k, v in MC_RUNS.items() if tier in v[3]]
    todo.sort(key=lambda kv: 0 if kv[0].startswith("tile") else 1)        # the longest first

    def one(item):
        name, (mod, cfg, neg, _) = item
        r = vf.tlc_mc(os.path.join(base, mod + ".tla"), cfg=os.path.join(base, cfg), workers=4, timeout=1500,
                      expect_violation=neg, tag="trapmc-" + name)
        if not neg and (r.inv_violation or r.deadlock or "is violated" in r.out or "is false" in r.out):
            raise vf.Infra("the Trap model itself violates an invariant under %s:\n%s" % (cfg, r.out[-2500:]))
        return name, neg, cfg, r

    with ThreadPoolExecutor(max_workers=3) as ex:
        return list(ex.map(one, todo))


def run(prop, args):
    chk = vf.Check(prop, args.tier, args.seed)
    rng = random.Random(args.seed * 1000003 + 12)
    quick = args.tier == "quick"
    wd = vf.workdir("trap-" + prop)

    # deviations: quirks of the unrepaired tree that KNOWN_FINDINGS.jsonl records as open
    enabled = sorted({DEV_OF_ID[i] for i in vf.open_findings(prop) if i in DEV_OF_ID})
    cfg = os.path.join(wd, "TrapTrace.cfg")
    open(cfg, "w").write("SPECIFICATION TSpec\nCONSTANTS\n  Fixed1 = 65536\n  EnabledDeviations = {%s}\n"
                         "POSTCONDITION TraceAccepted\n" % ", ".join('"%s"' % d for d in enabled))
    chk.extra["enabled_deviations"] = enabled

    exe, px = vf.build_driver("drv_trap", "plain")
    chk.extra["build"] = px["hash"]

    if args.replay:
        script = args.replay if args.replay.endswith(".script") else args.replay + ".script"
        tr = os.path.join(wd, "replay.ndjson")
        vf.sh([exe, script, tr], timeout=300, check=False)
        vf.validate_batches(chk, "TrapTrace", [tr], cfg=cfg, parallel=1)
        return chk.finish()

    # 1. design-level model checking runs in the background while the implementation is exercised
    #    (VERIF_C12_NOMC=1 skips it: used only when trying mutants of the implementation, which the
    #    model checks do not depend on)
    pool = ThreadPoolExecutor(max_workers=1)
    nomc = os.environ.get("VERIF_C12_NOMC") == "1"
    mc_future = pool.submit((lambda t: []) if nomc else mc_all, args.tier)
    if nomc:
        chk.assumptions.append("design-level model checking skipped (VERIF_C12_NOMC=1)")

    # 2. scripts
    execs = []
    stats = {}

    def add(e, st=None):
        execs.append(e)
        for k, v in (st or {}).items():
            stats[k] = stats.get(k, 0) + v

    scale = 2 if quick else 70
    behs, r = tlc_scenarios(60 if quick else 300, args.seed)
    chk.add_tlc(r, "scenario generation (TrapGen, -generate)")
    chk.sample({"tlc_generated_scenario": behs[0][:4]})
    k = 0
    for beh in behs:
        for n in (1, 4, 8):
            add(embed(beh, n, 6, 4, rng, "gen%d" % k))
            k += 1
    chk.extra["tlc_generated_scenarios"] = len(behs)
    for i in range(36 * scale):
        add(*exec_images(rng, "img%d" % i, 40))
    for i in range(12 * scale):
        add(*exec_wide(rng, "wide%d" % i, 40))
    for i in range(24 * scale):
        add(*exec_meta(rng, "meta%d" % i, 14))
    for i in range(12 * scale):
        add(*exec_comp(rng, "comp%d" % i, 12, OPS, 12 * i))
    for i in range(12 * scale):
        add(exec_walks(rng, "walk%d" % i, 200))
    # deltas on and next to the 32-bit limits: every pair once (thorough: further placements and neighbours)
    k = 0
    for rep in range(1 if quick else 8):
        pairs = limit_delta_pairs(rng, not quick)
        rng.shuffle(pairs)
        for i in range(0, len(pairs), 40):
            add(*exec_limits(rng, "lim%d" % k, pairs[i:i + 40]))
            k += 1
    # source presentations x conditions of the direct route: the whole matrix once (thorough: eight times)
    nsc = len(SRC_PRES) * len(COMP_CONDS) * (1 if quick else 8)
    for i in range(0, nsc, 18):
        add(*exec_comp_src(rng, "csrc%d" % (i // 18), i, min(18, nsc - i), OPS))
    add(exec_sample_y(rng, "sampley", extremes=True))
    chk.extra["executions"] = len(execs) + 1
    chk.extra["generated_by_kind"] = stats

    vf.log("scripts generated: %d executions, %.0fs" % (len(execs), __import__("time").time() - chk.t0))
    # 3. execute on the real library
    nb = 12 if quick else 60
    traces = []
    for bi in range(nb):
        part = execs[bi::nb]
        if not part:
            continue
        sp = os.path.join(wd, "b%d.ndjson.script" % bi)
        with open(sp, "w") as f:
            for e in part:
                f.write("\n".join(e) + "\n")
        tr = os.path.join(wd, "b%d.ndjson" % bi)
        rc_out = vf.run_driver([exe, sp, tr], tr, timeout=600)
        if rc_out and rc_out[0] == 3:
            raise vf.Infra("drv_trap rejected its script: %s" % (rc_out[1][-1000:],))
        traces.append(tr)
        count_events(chk, tr)
    # the far end of the coordinate range in a process of its own (the unrepaired tree crashes there)
    if "wrap" not in enabled:
        sp = os.path.join(wd, "extreme.ndjson.script")
        open(sp, "w").write("\n".join(exec_extreme("extreme")) + "\n")
        tr = os.path.join(wd, "extreme.ndjson")
        vf.run_driver([exe, sp, tr], tr, timeout=120)
        execs.append(exec_extreme("extreme"))
        traces.append(tr)
        count_events(chk, tr)
    else:
        chk.assumptions.append("rasterising a trapezoid in the lowest pixel row of the coordinate range is skipped: "
                               "known finding C12-floor-y-wrap (the unrepaired tree writes far outside the image)")
    chk.sample({"script_lines": [s[:300] for s in execs[-3][:4]]})

    vf.log("executed, %.0fs" % (__import__("time").time() - chk.t0))
    # 4. trace validation
    vf.validate_batches(chk, "TrapTrace", traces, cfg=cfg, parallel=12, timeout=1500)
    for v in chk.violations:
        try:
            lines = open(v["replay"]).read().splitlines()
            name = json.loads(lines[0]).get("scenario")
            for e in execs:
                if e[0] == "R %s" % name:
                    open(v["replay"] + ".script", "w").write("\n".join(e) + "\n")
        except Exception:
            pass

    vf.log("traces validated, %.0fs" % (__import__("time").time() - chk.t0))
    # 5. collect the model-checking results
    for name, neg, cfgname, r in mc_future.result():
        chk.add_tlc(r, ("negative config (must be rejected) " if neg else "model check ") + cfgname)
    pool.shutdown()

    chk.extra["rule"] = ("a case is one logged API call; distinct = distinct (depth, size, shapes, offset) of a "
                         "rasterisation that changed the image, distinct walker state sequence, or distinct "
                         "non-empty pair of images compared")
    chk.assumptions += [
        "general suites: coordinates below 2^29 in magnitude (8192 pixels); limit suite: end points anywhere in the "
        "16.16 range (deltas of up to 33 bits, judged by exact two-limb arithmetic); in both, edges whose abscissa "
        "extrapolated to a sampled row or by one grid step stays inside the 32-bit range (pixman wraps there) and "
        "slopes below 8192 units per unit",
        "an edge taller than the 16.16 range (yb - yt >= 2^31) with an odd delta cannot be held by the 32-bit "
        "pixman_edge_t: judged only through pixman_edge_init / pixman_line_fixed_edge_init and, when the known "
        "finding C12-halved-deltas is open, accepted within two units of the exact line (reported as a deviation)",
        "a destination with an alpha map starts with its own alpha equal to the map's, so that compositing a zero "
        "mask changes nothing (the statement does not fix the extents of the temporary mask)",
        "the sample columns are the effective positions derived from RENDER_SAMPLES_X and the a1 half-pixel shift "
        "(a1: centre + 1/65536; a4: 6553 + k*13107; a8: 1927 + k*3855); a sample lying exactly on an edge line is "
        "attributed by the walker (inside for the left edge iff the edge runs right with a fractional slope)",
        "vertical-split scenarios keep the shared edge strictly between the outer edges on every sampled row",
        "for operators that affect pixels outside the trapezoids and a non-zero destination offset the reference "
        "mask is destination-sized and placed at (x_dst, y_dst), as the library does; the documented 'entire "
        "destination' reading is recorded as an observation only",
        "TLC/SANY and the CommunityModules Json/IOUtils readers are trusted",
    ]
    rc = chk.finish()
    if rc == 0 and not args.keep:
        import shutil
        shutil.rmtree(wd, ignore_errors=True)
    return rc
