# C14: history independence against the property part of spec/Image.tla.
#   MC   spec/mc/ImagePropMC   setters with their early-return guards, dirty flag, validate: exhaustive to a small
#                              depth for every image type + negative configurations
#   GEN  spec/gen/ImageGen     all setter histories of a small depth (breadth-first) and -generate histories
#   EXEC harness/drv_image.c   long-lived image vs freshly created replica, ASan build of /repo
#   TV   spec/trace/ImageTrace TLC requires identical bytes / flags for the long-lived image and the replica
import json
import os
import random

import vf

PROPS = {"C14": "C14"}

CLAIMS = {
    "C14": dict(
        technique="TLA+ Image spec (properties part): TLC model checking of the dirty/validate protocol + "
                  "TLC-generated setter histories replayed on a long-lived image and a freshly created replica + "
                  "trace validation by TLC",
        text="spec/Image.tla models every setter with its early-return guard as in pixman-image.c, the dirty flag "
             "and what validate derives (for the image and its attached alpha map). TLC checks for all four image "
             "types and all call sequences to depth 5-6 that the stored properties are the requested ones and that "
             "derived state is never stale when not dirty; twenty wrong designs (missing property_changed, weaker "
             "guards, validate not refreshing gradients / the alpha map, derived state computed from the client's "
             "palette or pixel memory) are rejected. Steps in which the client rewrites memory the image refers to "
             "without copying (palette contents, pixel buffer; classes crossing the opaque / translucent boundary) "
             "are part of the histories; arrays the setters copy are overwritten after the call. TLC-generated histories "
             "(all of depth 1-2, random of depth 6) are replayed on bits / indexed / linear / radial / conical / "
             "solid images used as source, mask and destination; at every rendering TLC requires the long-lived "
             "image and a replica created from the final properties to produce identical bytes, flags and format "
             "code, and equal observations for equal properties within an execution.",
        ref="5 C14"),
}

NEGATIVE = ["nodirty_t", "nodirty_f", "nodirty_r", "nodirty_ca", "nodirty_acc", "nodirty_am", "nodirty_ma",
            "guard_filter_kind", "guard_filter_prefix", "guard_transform_class", "guard_transform_prefix",
            "guard_transform_wrong_pair", "guard_dof_x_only", "guard_ao_wrong_pair", "dirty_am_presence_only", "clip16_empty_keeps_old", "gradient_no_refresh", "map_not_validated",
            "derive_reads_palette", "derive_reads_pixels"]
ORDER = ["t", "f", "r", "c", "sc", "cc", "am", "ao", "ca", "acc", "pal", "d", "dof", "ma", "pe", "px"]
TYPES = {"bits": 0, "indexed": 1, "gradient": 2, "solid": 3}
ROLES = {"src": 0, "mask": 1, "dst": 2}


def mc(chk, tier):
    base = os.path.join(vf.SPEC, "mc")
    mod = os.path.join(base, "ImagePropMC.tla")
    runs = [("ImagePropMC.cfg", False)]
    if tier == "thorough":
        runs.append(("ImagePropMC_deep.cfg", False))
    runs += [("ImagePropMC_neg_%s.cfg" % b, True) for b in NEGATIVE]
    rejected = []
    from concurrent.futures import ThreadPoolExecutor

    def one(job):
        cfg, neg = job
        return cfg, neg, vf.tlc_mc(mod, cfg=os.path.join(base, cfg), workers=8 if not neg else 1, timeout=1500,
                                   expect_violation=neg, xmx="8g" if not neg else "1g", tag=cfg[:-4])

    with ThreadPoolExecutor(max_workers=6) as ex:       # the negative configurations are tiny: run them side by side
        results = list(ex.map(one, runs))
    for cfg, neg, r in results:
        chk.add_tlc(r, ("negative config (must be rejected) " if neg else "model check ") + cfg)
        if neg:
            rejected.append("%s: %s" % (cfg, r.inv_violation.group(1) if r.inv_violation else "rejected"))
        elif r.inv_violation or r.deadlock:
            raise vf.Infra("the property model itself violates an invariant under %s:\n%s" % (cfg, r.out[-2500:]))
    chk.extra["negative_configs_rejected"] = rejected


def gen(mode, depth, seed, n=0, tag="igen", focus=False):
    path = os.path.join(vf.SPEC, "gen", "ImageGen.tla")
    cfg = os.path.join(vf.workdir(tag), "ImageGen.cfg")
    open(cfg, "w").write('SPECIFICATION GenSpec\nCONSTANTS\n  Img = {1}\n  GKeys = {1}\n  MaxHeld = 1\n  Bugs = {}\n'
                         '  Depth = %d\n  Types = {"bits", "indexed", "gradient", "solid"}\n'
                         '  Focus = %s\nINVARIANT EmitBehaviour\n' % (depth, "TRUE" if focus else "FALSE"))
    if mode == "bfs":
        r = vf.run_tlc(path, cfg=cfg, workers=4, timeout=1500, xmx="6g", tag=tag)
    else:
        r = vf.run_tlc(path, cfg=cfg, workers=4, timeout=900, tag=tag,
                       extra=["-generate", "num=%d" % max(1, n // 4), "-depth", str(2 * depth + 4), "-seed", str(seed)])
    seen, behs = set(), []
    for b in r.vf("behaviour"):
        if b in seen:
            continue
        seen.add(b)
        behs.append(json.loads(json.loads(b)))
    if not behs:
        raise vf.Infra("ImageGen produced no behaviours:\n" + r.out[-2000:])
    return behs, r


def to_script(beh, name, rng, wide_dst=False):
    c = beh[0]
    fmt, op = rng.randrange(9), rng.randrange(7)
    if wide_dst:          # dithering shows only when a narrow destination is written by the wide pipeline
        fmt, op = rng.choice([2, 5]), 4
    out = ["reset %s" % name,
           "config %d %d %d %d %d %d %d %d" % (TYPES[c["type"]], ROLES[c["role"]], fmt, op,
                                              rng.randrange(3), rng.randrange(512), rng.randrange(1, 1 << 20), c["r0"])]
    for s in beh[1:]:
        out.append("set %d %d %d %s" % (ORDER.index(s["j"]), s["v"], s["r"],
                                        " ".join(str(s["want"][k]) for k in ORDER)))
    out.append("end")
    return out


BITSY = [("bits", "src"), ("bits", "mask"), ("indexed", "src"), ("indexed", "mask")]
SRCMASK = BITSY + [("gradient", "src"), ("gradient", "mask")]
PREF = {    # configurations (type, role) in which a change of the property changes the pixels
    "t": SRCMASK, "f": BITSY, "r": SRCMASK, "c": [("bits", "dst")] + BITSY, "sc": BITSY, "cc": BITSY,
    "am": [("bits", "src"), ("bits", "dst")], "ao": [("bits", "src"), ("bits", "dst")], "ma": [("bits", "src"), ("bits", "dst")],
    "ca": [("bits", "mask"), ("gradient", "mask"), ("solid", "mask")], "acc": [("bits", "src"), ("bits", "mask"), ("bits", "dst")],
    "pal": [("indexed", "src"), ("indexed", "mask")], "d": [("bits", "dst")], "dof": [("bits", "dst")],
    # client memory edited in place (palette contents, pixel buffer): shows when the image is read
    "pe": [("indexed", "src"), ("indexed", "mask")], "px": BITSY,
}


def hand(typ, role, cfg, steps):
    """a handwritten history: steps = [(name, v, render)], wanted values tracked here exactly as ImageGen does"""
    want = dict((k, 0) for k in ORDER)
    if typ == "indexed":
        want["pal"] = 1
    out = ["config %d %d %s 1" % (TYPES[typ], ROLES[role], cfg)]
    for (n, v, r) in steps:
        want[n] = v
        out.append("set %d %d %d %s" % (ORDER.index(n), v, r, " ".join(str(want[k]) for k in ORDER)))
    return out + ["end"]


HANDWRITTEN = [
    # the situations the statement's rationale names: same object, different value, after it has been used
    hand("bits", "src", "0 0 0 1 11", [("r", 2, 1), ("r", 0, 1), ("r", 3, 1), ("r", 1, 1), ("t", 2, 1), ("f", 1, 1),
                                         ("f", 0, 1), ("t", 1, 1), ("t", 5, 1), ("t", 0, 1)]),
    hand("gradient", "src", "0 0 0 0 12", [("r", 1, 1), ("r", 2, 1), ("r", 3, 1), ("r", 0, 1), ("t", 2, 1), ("r", 2, 1)]),
    hand("gradient", "src", "0 1 1 2 13", [("r", 3, 1), ("r", 1, 1), ("t", 9, 1), ("r", 0, 1)]),
    hand("gradient", "mask", "0 0 2 0 14", [("r", 2, 1), ("ca", 1, 1), ("r", 0, 1), ("ca", 0, 1)]),
    # kernels of one size differing in one coefficient; same kernel from another buffer; other size; separable
    hand("bits", "src", "0 0 0 1 15", [("t", 2, 0), ("f", 2, 1), ("f", 6, 1), ("f", 3, 1), ("f", 5, 1), ("f", 4, 1),
                                         ("f", 7, 1), ("f", 2, 1), ("f", 8, 1), ("f", 11, 1), ("f", 10, 1), ("f", 9, 1),
                                         ("f", 8, 1), ("f", 1, 1), ("f", 6, 1)]),
    # every entry of the matrix on its own
    hand("bits", "src", "0 1 0 2 23", [("t", v, 1) for v in (2, 3, 4, 5, 6, 7, 8, 9, 10, 11, 2, 1, 11, 0)]),
    hand("bits", "src", "2 0 0 0 16", [("am", 1, 1), ("ma", 1, 1), ("am", 2, 1), ("ao", 1, 1), ("ao", 3, 1), ("ao", 2, 1),
                                         ("am", 1, 1), ("ma", 0, 1), ("am", 0, 1)]),
    hand("bits", "dst", "0 0 0 0 17", [("am", 1, 1), ("acc", 1, 1), ("ma", 1, 1), ("c", 2, 1), ("c", 3, 1), ("c", 4, 1),
                                         ("am", 2, 1), ("acc", 0, 1), ("c", 0, 1), ("am", 0, 1)]),
    hand("bits", "dst", "2 4 0 16 18", [("d", 1, 1), ("dof", 1, 1), ("dof", 3, 1), ("dof", 2, 1), ("d", 2, 1), ("d", 0, 1),
                                          ("dof", 0, 1)]),
    # alpha maps of different format classes exchanged without detaching (narrow <-> wide), with and without a rendering
    hand("bits", "src", "1 0 0 0 26", [("am", 1, 1), ("am", 3, 1), ("am", 1, 1), ("am", 4, 1), ("am", 2, 1), ("am", 3, 0),
                                         ("am", 2, 1), ("am", 3, 1), ("am", 0, 1), ("am", 3, 1), ("am", 4, 1)]),
    hand("bits", "dst", "0 0 0 0 27", [("am", 3, 1), ("am", 1, 1), ("am", 3, 1), ("am", 2, 1), ("am", 3, 1), ("am", 0, 1)]),
    hand("bits", "mask", "0 0 0 0 28", [("am", 4, 1), ("am", 3, 1), ("ca", 1, 1), ("am", 1, 1), ("am", 3, 1)]),
    # matrices and filters of different classes
    hand("bits", "src", "0 0 0 0 29", [("f", 1, 1), ("t", 19, 1), ("t", 2, 1), ("t", 20, 1), ("t", 21, 1), ("t", 9, 1),
                                         ("t", 19, 1), ("t", 1, 1), ("f", 16, 1), ("f", 17, 1), ("f", 0, 1), ("f", 16, 1)]),
    hand("bits", "src", "0 0 0 384 30", [("r", 1, 1), ("r", 0, 1), ("r", 2, 1), ("t", 19, 1), ("r", 0, 1)]),
    # the clip through both setters (8 + k: region16), empty region after a non-empty one, as destination and as source
    hand("bits", "dst", "0 0 0 0 31", [("c", 1, 1), ("c", 15, 1), ("c", 2, 1), ("c", 7, 1), ("c", 9, 1), ("c", 15, 0),
                                         ("c", 10, 1), ("c", 8, 1), ("c", 2, 0), ("c", 15, 1), ("c", 0, 1)]),
    hand("bits", "src", "0 0 0 0 32", [("sc", 1, 0), ("cc", 1, 1), ("c", 9, 1), ("c", 15, 1), ("c", 10, 1), ("c", 7, 1),
                                         ("c", 1, 1), ("c", 15, 1), ("c", 8, 1)]),
    hand("bits", "mask", "0 0 0 0 33", [("sc", 1, 0), ("cc", 1, 1), ("c", 2, 1), ("c", 15, 1), ("c", 1, 1), ("c", 7, 1)]),
    # coinciding values: the new y equals the old x, exchanged coordinates
    hand("bits", "dst", "0 0 0 0 24", [("am", 1, 1), ("ao", 1, 1), ("ao", 4, 1), ("ao", 3, 1), ("ao", 1, 1), ("ao", 8, 1),
                                         ("ao", 2, 1), ("ao", 6, 1), ("ao", 0, 1)]),
    hand("bits", "src", "0 0 0 0 25", [("am", 2, 1), ("ao", 1, 1), ("ao", 4, 1), ("ao", 3, 1), ("t", 2, 1), ("t", 15, 1),
                                         ("t", 12, 1), ("t", 16, 1), ("t", 13, 1), ("f", 2, 1), ("f", 12, 1), ("f", 13, 1),
                                         ("f", 7, 1), ("f", 14, 1), ("f", 8, 1), ("f", 15, 1)]),
    hand("bits", "mask", "0 0 0 0 19", [("ca", 1, 1), ("ca", 0, 1), ("acc", 1, 1), ("ca", 1, 1), ("acc", 0, 1)]),
    hand("bits", "src", "1 0 0 0 20", [("c", 1, 0), ("sc", 1, 0), ("cc", 1, 1), ("c", 2, 1), ("c", 3, 1), ("cc", 0, 1),
                                         ("cc", 1, 0), ("sc", 0, 1), ("c", 0, 1)]),
    hand("indexed", "src", "0 0 0 0 21", [("pal", 2, 1), ("pal", 1, 1), ("pal", 3, 1), ("acc", 1, 1), ("pal", 2, 1),
                                            ("r", 1, 1)]),
    # client-owned memory changed between uses: the palette edited in place and re-installed with the same pointer,
    # with another pointer, not at all; back to opaque; pixels of a 1x1 repeating image (a solid colour to the
    # library) and of an ordinary image crossing the opaque / translucent / transparent boundaries
    hand("indexed", "src", "0 0 0 0 41", [("pe", 0, 1), ("pe", 1, 1), ("pal", 1, 1), ("pe", 0, 1), ("pe", 3, 1), ("pal", 3, 1),
                                            ("pe", 2, 1), ("pal", 2, 1), ("pe", 1, 1), ("r", 1, 1), ("pe", 0, 1)]),
    hand("indexed", "mask", "1 0 0 0 42", [("pe", 1, 1), ("pe", 0, 1), ("pal", 1, 1), ("pe", 3, 1), ("pe", 2, 1)]),
    hand("indexed", "src", "2 0 0 1 43", [("r", 1, 1), ("pe", 3, 1), ("pe", 0, 1), ("px", 3, 1), ("pe", 1, 1), ("px", 0, 1)]),
    hand("bits", "src", "0 0 0 384 44", [("r", 1, 1), ("px", 1, 1), ("px", 2, 1), ("px", 4, 1), ("px", 3, 1), ("px", 1, 1),
                                           ("r", 0, 1), ("px", 0, 1)]),
    hand("bits", "mask", "3 0 0 385 45", [("r", 1, 1), ("px", 1, 1), ("px", 3, 1), ("ca", 1, 1), ("px", 4, 1), ("px", 2, 1)]),
    hand("bits", "src", "0 0 0 2 46", [("px", 1, 1), ("px", 2, 1), ("px", 1, 1), ("r", 1, 1), ("px", 3, 1), ("px", 4, 1)]),
    hand("bits", "src", "5 4 0 3 47", [("px", 1, 1), ("px", 2, 1), ("px", 3, 1), ("px", 0, 1)]),
    hand("solid", "src", "0 0 0 2 22", [("r", 1, 1), ("ca", 1, 1), ("t", 2, 1), ("am", 1, 1), ("am", 0, 1)]),
]


def count_events(chk, tracefile):
    kinds = chk.extra.setdefault("events", {"Set": 0, "Render": 0, "render_reusing_cached_state": 0})
    setters = chk.extra.setdefault("setter_calls", {})
    for line in open(tracefile):
        if line.startswith('{"e":"Set"'):
            kinds["Set"] += 1
            ev = json.loads(line)
            setters[ev["j"]] = setters.get(ev["j"], 0) + 1
        elif line.startswith('{"e":"Render"'):
            kinds["Render"] += 1
            chk.evaluations += 1
            ev = json.loads(line)
            if ev["lwd"] == 0:
                kinds["render_reusing_cached_state"] += 1
            if any(ev["key"]):
                chk.distinct_keys.add(hash((tuple(ev["key"]), tuple(ev["lfl"]), tuple(ev["lpx"]))))


def run(prop, args):
    chk = vf.Check(prop, args.tier, args.seed)
    rng = random.Random(args.seed * 1000003 + 14)
    quick = args.tier == "quick"
    wd = vf.workdir("image")
    cfg = os.path.join(vf.SPEC, "trace", "ImageTrace.cfg")
    env = {"ASAN_OPTIONS": "detect_leaks=0:abort_on_error=1:handle_abort=0"}

    def execute(script_path, trace_path):
        exe, px = vf.build_driver("drv_image", "asan")
        e = dict(os.environ)
        e.update(env)
        p = vf.sh([exe, script_path, trace_path], timeout=900, check=False, env=e)
        if p.returncode != 0:
            data = open(trace_path).read()
            if '"e":"Crash"' not in data[-300:]:
                if p.returncode < 0 or p.returncode > 128:
                    with open(trace_path, "a") as f:
                        f.write(("" if data.endswith("\n") or not data else "\n") +
                                '{"e":"Crash","sig":%d}\n' % (abs(p.returncode) & 127))
                else:
                    raise vf.Infra("drv_image failed rc=%d without recording a crash: %s"
                                   % (p.returncode, p.stdout[-1500:]))
        return px

    if args.replay:
        script = args.replay if args.replay.endswith(".script") else args.replay + ".script"
        tr = os.path.join(wd, "replay.ndjson")
        execute(script, tr)
        vf.validate_batches(chk, "ImageTrace", [tr], cfg=cfg, parallel=1)
        return chk.finish()

    # 1. design-level model checking
    mc(chk, args.tier)

    # 2. histories from the specification
    execs = []
    bfs1, r = gen("bfs", 1, args.seed, tag="igenb")
    chk.add_tlc(r, "behaviour generation (ImageGen, breadth-first: all histories of depth 1)")
    # set(v1); render; set(v2); render for ALL pairs of values of every setter (ImageGen with Focus = TRUE), each pair
    # in a configuration in which the property shows (PREF) and in other configurations
    foc, r = gen("bfs", 2, args.seed, tag="igenf", focus=True)
    chk.add_tlc(r, "behaviour generation (ImageGen Focus: every pair of values of every setter, rendering between)")
    groups, unrendered = {}, {}
    for b in foc:             # (b[1:-2] is the prelude; b[-2]["r"]: whether a rendering separates the two calls)
        (groups if b[-2]["r"] == 1 else unrendered).setdefault((b[-2]["j"], b[-2]["v"], b[-1]["v"]), []).append(b)
    pairs = []
    for key in sorted(groups):
        cand = groups[key]
        pref = [b for b in cand if (b[0]["type"], b[0]["role"]) in PREF[key[0]]]
        rest = [b for b in cand if (b[0]["type"], b[0]["role"]) not in PREF[key[0]]]
        if quick:
            if key[0] == "c":       # the clip in every role: destination, and client-clipped source / mask
                for role in ("dst", "src", "mask"):
                    rr = [b for b in pref if b[0]["role"] == role]
                    pairs += rng.sample(rr, min(len(rr), 1))
                continue
            pairs += rng.sample(pref, min(len(pref), 1))
            if key[0] not in ("t", "f"):
                pairs += rng.sample(pref, min(len(pref), 1)) + rng.sample(rest, min(len(rest), 1))
        else:
            pairs += cand
    for key in sorted(unrendered):        # set(v1); set(v2); render -- for the setters that feed derived state
        cand = unrendered[key]
        pref = [b for b in cand if (b[0]["type"], b[0]["role"]) in PREF[key[0]]]
        if not quick:
            pairs += cand
        elif key[0] in ("am", "r", "ca", "acc", "ma", "ao", "pal", "c", "pe", "px") or rng.random() < 0.25:
            pairs += rng.sample(pref, min(len(pref), 1))
    chk.extra["setter_value_pairs"] = {"pairs": len(groups), "histories_replayed": len(pairs)}
    pairs3 = []
    if not quick:
        pairs3, r = gen("generate", 3, args.seed + 1, n=3000, tag="igenf3", focus=True)
        chk.add_tlc(r, "behaviour generation (ImageGen Focus, -generate depth 3)")
    other, r = gen("generate", 2, args.seed + 2, n=400 if quick else 4000, tag="igen2")
    chk.add_tlc(r, "behaviour generation (ImageGen, -generate depth 2)")
    bfs = bfs1 + other
    rnd, r = gen("generate", 6, args.seed, n=500 if quick else 8000)
    chk.add_tlc(r, "behaviour generation (ImageGen, -generate depth 6)")
    chk.sample({"tlc_generated_history": [dict((k, v) for k, v in s.items() if k != "want") for s in rnd[0]]})
    for k, b in enumerate(bfs):
        execs.append(to_script(b, "bfs%d" % k, rng))
    for k, b in enumerate(pairs + pairs3):
        execs.append(to_script(b, "pair%d" % k, rng, wide_dst=(b[-1]["j"] in ("d", "dof") and b[0]["role"] == "dst")))
    for k, b in enumerate(rnd):
        for rep in range(1 if quick else 2):        # the same history under different formats / operators / roles' data
            execs.append(to_script(b, "gen%d_%d" % (k, rep), rng))
    for k, h in enumerate(HANDWRITTEN):
        execs.append(["reset hand%d" % k] + h)
    chk.extra["executions"] = len(execs)
    chk.extra["tlc_generated_histories"] = {"breadth_first_depth1": len(bfs1), "generate_depth2": len(other),
                                            "value_pairs": len(pairs) + len(pairs3), "generate_depth6": len(rnd),
                                            "handwritten": len(HANDWRITTEN)}

    # 3. execute on the real library (ASan build of /repo's working tree)
    nb = 8 if quick else 12
    traces = []
    px = None
    for bi in range(nb):
        part = execs[bi::nb]
        if not part:
            continue
        sp = os.path.join(wd, "b%d.ndjson.script" % bi)
        with open(sp, "w") as f:
            for e in part:
                f.write("\n".join(e) + "\n")
        tr = os.path.join(wd, "b%d.ndjson" % bi)
        px = execute(sp, tr)
        traces.append(tr)
        count_events(chk, tr)
    chk.extra["build"] = px["hash"]
    chk.sample({"script_lines": execs[-1][:6]})

    # 4. trace validation
    vf.validate_batches(chk, "ImageTrace", traces, cfg=cfg, parallel=nb, timeout=1500)
    for v in chk.violations:
        try:
            lines = open(v["replay"]).read().splitlines()
            name = json.loads(lines[0]).get("scenario")
            for e in execs:
                if e[0] == "reset %s" % name:
                    open(v["replay"] + ".script", "w").write("\n".join(e) + "\n")
        except Exception:
            pass
    chk.extra["rule"] = ("a case is one rendering step: the long-lived image and a freshly created replica used in the "
                         "same composite; distinct = distinct (wanted properties, flags, resulting bytes) with at least "
                         "one non-default property")
    chk.assumptions += [
        "the reference is a freshly created image of the same library given the final properties and pixels "
        "(what the pixels should be is the business of C01/C08/C13)",
        "setters are called with valid arguments (palette only on indexed formats, valid convolution parameters)",
        "within an execution an abstract property value stands for one concrete argument",
        "TLC/SANY and the CommunityModules Json/IOUtils readers are trusted",
    ]
    return chk.finish()
