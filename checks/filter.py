# C18: pixman_filter_create_separable_convolution against spec/Filter.tla.
#   MC   spec/mc/FilterMC     all small blocks: WellFormed vs an independent formulation, set_filter's test,
#                             constant kept by the fetchers' arithmetic, streamed = atomic creation; 2 negatives
#        spec/mc/FilterNorm   design model of the normalisation with error diffusion; 2 negatives (one of them
#                             is the zero-total hole of the shipped code)
#   GEN  spec/gen/FilterGen   TLC enumerates kernel x kernel x depth x scale per axis
#   EXEC harness/drv_filter   ASan build; create, set_filter, OP_SRC composites of constant images
#   TV   spec/trace/FilterTrace  every recorded call validated by TLC
import json
import os
import random
import re

import vf

PROPS = {"C18": "C18"}

CLAIMS = {
    "C18": dict(
        technique="TLA+ Filter spec (well-formedness predicate + created/attached/rendered state machine): TLC model "
                  "checking on all small blocks, TLC-enumerated argument product replayed on an AddressSanitizer "
                  "build, trace validation by TLC",
        text="spec/Filter.tla states WellFormed(block, n) (announced length, integer header with w,h >= 1 matching the "
             "tables, every phase row sums to exactly 65536) and the three API steps. TLC checks the predicate against "
             "an independent formulation, pixman_image_set_filter's consistency test and the fetchers' rounding "
             "arithmetic (constant returned exactly when w*h <= 256, derived bound otherwise) on every block over a "
             "7-value alphabet with <= 6 coefficients; weakened predicates are rejected. TLC enumerates all 64 kernel "
             "pairs x subsample depths x scales per axis; each case is executed on both axes of the real function in "
             "an ASan build (an out-of-bounds write aborts the call and the unanswered call is rejected), the whole "
             "block is streamed to TLC row by row, set_filter must return TRUE and OP_SRC composites of constant "
             "images through the filter (fast path and general path, three repeat modes) must return the constant. "
             "In addition a WIDE SCAN WITH SELECTION creates millions of tables (IMPULSE reconstruction x every sampling "
             "kernel at EVERY 16.16 scale in (0, 2.0] x subsample bits 0..5; the other 49+7 pairs on a seed-rotated "
             "residue class of the scales, a ladder up to 64.0 and depths 6..8): a structural pre-screen in the driver "
             "selects every table that is unusual in any way (NULL, length or header not as announced, a phase not summing "
             "to 65536, a coefficient >= 16.0) and a deterministic control sample; only those are shown to TLC, which "
             "judges them exactly like all other tables. A table the pre-screen does not select is NOT judged "
             "(evidence: scan_tables_created / selected / control / not_judged).",
        ref="5 C18"),
}

KERNELS = ["IMPULSE", "BOX", "LINEAR", "CUBIC", "GAUSSIAN", "LANCZOS2", "LANCZOS3", "LANCZOS3_STRETCHED"]
KW = [0.0, 1.0, 2.0, 4.0, 5.0, 4.0, 6.0, 8.0]      # only used to balance batches (cost estimate)
SCALES_ALL = [1, 4096, 21845, 32768, 65536, 98304, 131072, 327680, 1048576, 6553600]
SCALES_QUICK = [1, 21845, 65536, 98304, 327680]
BITS_QUICK = [0, 1, 4, 8]
FORMATS = ["a8r8g8b8", "x8r8g8b8", "a8", "a8b8g8r8", "b8g8r8a8"]
COLOURS = [[255, 200, 100, 1], [255, 255, 255, 255], [128, 127, 64, 0], [0, 0, 0, 0], [254, 1, 2, 253],
           [1, 255, 128, 129]]
ASAN_ENV = {"ASAN_OPTIONS": "abort_on_error=1:detect_leaks=0:allocator_may_return_null=1"}


def tlc_cases(bits, scales):
    path = os.path.join(vf.SPEC, "gen", "FilterGen.tla")
    cfg = os.path.join(vf.workdir("fgen"), "FilterGen.cfg")
    open(cfg, "w").write("SPECIFICATION GenSpec\nCONSTANTS\n  Mutant = \"none\"\n  BitsSet = {%s}\n  Scales = {%s}\n"
                         "INVARIANT Emit\n" % (", ".join(map(str, bits)), ", ".join(map(str, scales))))
    r = vf.run_tlc(path, cfg=cfg, workers=1, timeout=300, tag="fgen")
    cases = []
    for c in r.vf("case"):
        rk, sk, b, s = [x.strip() for x in c.split(",")]
        cases.append((KERNELS.index(rk.strip('"')), KERNELS.index(sk.strip('"')), int(b), int(s)))
    if len(cases) != 64 * len(bits) * len(scales):
        raise vf.Infra("FilterGen produced %d cases:\n%s" % (len(cases), r.out[-2000:]))
    return sorted(cases), r


def est_width(rk, sk, scale):
    return int(KW[rk] + scale / 65536.0 * KW[sk]) + 1


def call_lines(xc, yc, rng, nrender=2):
    """script lines of one create + set_filter + composites; xc, yc = (reconstruct, sample, bits, scale) per axis."""
    lines = ["C %d %d %d %d %d %d %d %d" % (xc[0], yc[0], xc[1], yc[1], xc[3], yc[3], xc[2], yc[2])]
    wx, wy = est_width(*xc[:2], xc[3]), est_width(*yc[:2], yc[3])
    cost = wx * (1 << xc[2]) + wy * (1 << yc[2])
    fmt = rng.choice(FORMATS)
    col = rng.choice(COLOURS)
    lines.append("S %s 3 2 %d %d %d %d" % (fmt, col[0], col[1], col[2], col[3]))
    for _k in range(nrender):
        rep = rng.choice([1, 2, 3])
        dw, dh = 8, 2
        stepx, stepy = 1 << (16 - xc[2]), 1 << (16 - yc[2])
        m00 = rng.choice([xc[3], 65536, stepx, 3 * stepx + 1, 40000, -65536])
        m11 = rng.choice([yc[3], 65536, stepy, 3 * stepy + 1, 70001])
        m02 = rng.randrange(-5 * 65536, 5 * 65536)
        m12 = rng.randrange(-5 * 65536, 5 * 65536)
        m = [m00, 0, m02, 0, m11, m12, 0, 0, 65536]
        if rng.random() < 0.35:        # same mapping, but not flagged affine: general fetcher
            m = [2 * v for v in m]
        lines.append("D %d %d %d %s" % (rep, dw, dh, " ".join(map(str, m))))
        cost += dw * dh * wx * wy // 50
    return lines, cost


def build_execs(cases, rng, tier):
    """One execution (Reset-delimited) per (reconstruct, sample, scale): its create calls use the same kernels and
       scale on both axes and rotate the subsample depths, so that every per-axis case occurs on both axes."""
    execs = []
    groups = {}
    for c in cases:
        groups.setdefault((c[0], c[1], c[3]), []).append(c)
    for k, key in enumerate(sorted(groups)):
        g = groups[key]
        e = {"name": "g%d" % k, "lines": ["R g%d" % k], "cost": 0, "calls": 0}
        for i, xc in enumerate(g):
            ls, cost = call_lines(xc, g[(i + 1) % len(g)], rng)
            e["lines"] += ls
            e["cost"] += cost
            e["calls"] += 1
        execs.append(e)
    # both axes different ("diagonal" subset) and seeded random scales
    nmix = 80 if tier == "quick" else 500
    for i in range(nmix):
        xc, yc = rng.choice(cases), rng.choice(cases)
        if tier != "quick" or i % 2:
            # log-uniform random scales in [1/65536, 64]
            xc = (xc[0], xc[1], xc[2] if xc[3] < 2000000 else min(xc[2], 5), int(2 ** rng.uniform(0, 22)))
            yc = (yc[0], yc[1], yc[2] if yc[3] < 2000000 else min(yc[2], 5), int(2 ** rng.uniform(0, 22)))
        ls, cost = call_lines(xc, yc, rng)
        execs.append({"name": "m%d" % i, "lines": ["R m%d" % i] + ls, "cost": cost, "calls": 1})
    return execs


def huge_execs(tier):
    """scales around and beyond the largest filter the 16.16 header can describe (32767 taps per axis): the call must
       either return a well-formed block or refuse (NULL) -- the latter only where Filter!Unrepresentable holds."""
    sup = [int(w) for w in KW]          # kernel supports, as Filter!Support
    cases = []          # (rk, sk, scale, bits)
    MAXS = 0x7fffffff
    quick = tier == "quick"

    def boundary_scales(rk, sk):
        """the exact 16.16 scales at which the extent rw + s*sw crosses 32767 (last representable) and 32768, one
           ulp on either side of both, and scales strictly between (fractional extents)"""
        s1 = (32767 - sup[rk]) * 65536 // sup[sk]          # largest scale with extent <= 32767
        s2 = -((-(32768 - sup[rk]) * 65536) // sup[sk])    # smallest scale with extent >= 32768
        out = [s1 - 1, s1, s1 + 1, s2 - 1, s2, s2 + 1, (s1 + s2) // 2, s1 + (s2 - s1) // 4, s1 + 3 * (s2 - s1) // 4]
        return sorted({sc for sc in out if 0 < sc <= MAXS})

    if quick:
        for rk, sk in ((1, 1), (0, 1), (2, 3), (0, 7)):
            bs = boundary_scales(rk, sk)
            s1 = (32767 - sup[rk]) * 65536 // sup[sk]
            for sc in (s1, s1 + 1, [x for x in bs if x > s1 + 1][0]):
                cases.append((rk, sk, sc, 0))
        cases += [(1, 1, MAXS, 0), (2, 7, MAXS, 0), (0, 7, (32767 * 65536) // 8, 1)]
    else:
        for rk in (0, 1, 6):
            for sk in range(1, 8):
                for sc in boundary_scales(rk, sk):
                    cases.append((rk, sk, sc, 0))
        for rk, sk in ((2, 2), (4, 4), (5, 2), (3, 7), (7, 7)):
            bs = boundary_scales(rk, sk)
            cases += [(rk, sk, bs[1], 1), (rk, sk, bs[2], 2), (rk, sk, 1 << 30, 0), (rk, sk, 3 << 29, 0), (rk, sk, MAXS, 0)]
        cases.append((1, 0, MAXS, 3))                               # sampling IMPULSE: never too wide
    execs = []
    for i, (rk, sk, sc, b) in enumerate(cases):
        lines = ["R huge%d" % i]
        for axis in ("x", "y"):
            # the huge filter on one axis, a two-tap one on the other (a 32767 x 32767 matrix could not be rendered)
            if axis == "x":
                lines.append("C %d 2 %d 0 %d 65536 %d 1" % (rk, sk, sc, b))
            else:
                lines.append("C 2 %d 0 %d 65536 %d 1 %d" % (rk, sk, sc, b))
            lines.append("S a8r8g8b8 3 2 255 200 100 1")
            lines.append("D %d 4 2 65536 0 %d 0 65536 %d 0 0 65536" % (1 + i % 3, 1234 + 4099 * i, 777 + 13 * i))
        execs.append({"name": "huge%d" % i, "lines": lines, "cost": 2 * 40000 * (1 << b), "calls": 2})
    return execs


def run_driver(exe, execs, wd, tag):
    """Execute a list of executions; a crash ends the process, the remaining executions are run by a new one.
       Returns the trace file (parts concatenated)."""
    out = os.path.join(wd, "%s.ndjson" % tag)
    rest = list(execs)
    part = 0
    parts = []
    while rest:
        sp = os.path.join(wd, "%s.p%d.script" % (tag, part))
        tp = os.path.join(wd, "%s.p%d.ndjson" % (tag, part))
        with open(sp, "w") as f:
            for e in rest:
                f.write("\n".join(e["lines"]) + "\n")
        env = dict(os.environ)
        env.update(ASAN_ENV)
        p = vf.sh([exe, sp, tp], timeout=3000, check=False, env=env)
        os.unlink(sp)
        parts.append(tp)
        done, last = 0, ""
        for x in open(tp):
            if x.strip():
                last = x
                if x.startswith('{"e":"Reset"'):
                    done += 1
        if last.startswith('{"e":"End"'):
            if p.returncode != 0:
                raise vf.Infra("drv_filter rc=%d although it reached End: %s" % (p.returncode, p.stdout[-800:]))
            break
        # the process died inside execution number done-1
        if done == 0:
            raise vf.Infra("drv_filter died before its first execution (rc=%d): %s" % (p.returncode, p.stdout[-800:]))
        if not last.startswith('{"e":"Crash"'):
            with open(tp, "a") as f:
                f.write('\n{"e":"Crash","sig":-1,"rc":%d}\n' % p.returncode)
        rest = rest[done:]
        part += 1
        if part > 400:
            raise vf.Infra("drv_filter keeps dying")
    if len(parts) == 1 and last.startswith('{"e":"End"'):
        os.rename(parts[0], out)
    else:
        with open(out, "w") as outf:
            for tp in parts:
                for x in open(tp):
                    if x.strip():
                        outf.write(x)
                os.unlink(tp)
    return out


def scan_jobs(tier, seed):
    """W lines (see harness/drv_filter.c) of the wide scan with selection, with a cost estimate each.
       dense : IMPULSE reconstruction x every sampling kernel, EVERY scale 1..131072 (0 < s <= 2.0), bits 0..5 -- the
               region where a phase has one to three taps and rounded taps can cancel
       sweep : the 49 pairs without IMPULSE over the same scale range with step 37 (thorough: 3), the offset
               rotating with the seed; X x IMPULSE (independent of the scale) once per depth 0..8;
               every pair on a log-spaced ladder above 2.0 and at depths 6..8"""
    quick = tier == "quick"
    jobs = []

    def add(rk, sk, lo, hi, step, off, b, ctl):
        n = max(0, (hi - lo - off) // step + 1)
        w = KW[rk] + (lo + hi) / 2 / 65536.0 * KW[sk] + 1
        per = (1 << b) * w * (1.0 if rk == 0 or sk == 0 else 14.0)
        jobs.append(("W %d %d %d %d %d %d %d %d %d %d %d %d" % (rk, rk, sk, sk, lo, hi, step, off, b, b, ctl, seed % ctl),
                     n * (per + 8), n))

    for sk in range(8):
        for b in range(6):
            for half in range(2):            # two halves per (kernel, depth) for balance
                add(0, sk, 1 + half * 65536, 65536 + half * 65536, 1, 0, b, 5000)
    step = 37 if quick else 3
    for rk in range(1, 8):
        for b in range(9):
            add(rk, 0, 65536, 65536, 1, 0, b, 1)
        for sk in range(1, 8):
            for b in range(6):
                off = (seed * 7 + rk * 8 + sk + b) % step
                if quick:
                    add(rk, sk, 1, 131072, step, off, b, 500)
                else:
                    for q in range(4):      # four quarters per (pair, depth) for balance
                        add(rk, sk, 1 + q * 32768, 32768 + q * 32768, step, off, b, 5000)
    # log-spaced ladder above 2.0 (up to 64.0) and deep subsampling, all 64 pairs
    nl = 12 if quick else 60
    for i in range(nl):
        sc = int(131072 * (32.0 ** ((i + (seed % 7) / 7.0) / nl))) + 1
        for rk in range(8):
            for sk in range(8):
                for b in ((0, 2) if quick else (0, 1, 2, 3)):
                    add(rk, sk, sc, sc, 1, 0, b, 50)
    for rk in range(8):
        for sk in range(8):
            for b in (6, 7, 8):
                lo = 1 + (seed * 131 + rk * 17 + sk * 5 + b) % 1024
                add(rk, sk, lo, 131072, 4099 if quick else 257, 0, b, 20)
    return jobs


def scan_stage(chk, exe, wd, args, nproc):
    """wide scan with selection: returns the trace files (selected + control tables only)"""
    import time
    jobs = scan_jobs(args.tier, args.seed)
    buckets = [[] for _ in range(nproc)]
    loads = [0.0] * nproc
    for line, cost, n in sorted(jobs, key=lambda j: -j[1]):
        i = loads.index(min(loads))
        buckets[i].append(line)
        loads[i] += cost
    t0 = time.time()

    def one(ib):
        i, lines = ib
        sp = os.path.join(wd, "scan%d.script" % i)
        tp = os.path.join(wd, "scan%d.ndjson" % i)
        open(sp, "w").write("\n".join(lines) + "\n")
        vf.run_driver([exe, sp, tp], tp, env=ASAN_ENV, timeout=3000)
        os.unlink(sp)
        # the crash handler / vf.run_driver may leave blank lines
        lines = [x for x in open(tp) if x.strip()]
        open(tp, "w").writelines(lines)
        return tp

    from concurrent.futures import ThreadPoolExecutor
    with ThreadPoolExecutor(max_workers=nproc) as ex:
        traces = list(ex.map(one, [(i, b) for i, b in enumerate(buckets) if b]))
    tot = {"scanned": 0, "selected": 0, "control": 0}
    for t in traces:
        for line in open(t):
            if line.startswith('{"e":"ScanDone"'):
                ev = json.loads(line)
                for k in tot:
                    tot[k] += ev[k]
    chk.extra["scan_tables_created"] = tot["scanned"]
    chk.extra["scan_tables_selected_by_prescreen"] = tot["selected"]
    chk.extra["scan_tables_control_sample"] = tot["control"]
    chk.extra["scan_tables_not_judged"] = tot["scanned"] - tot["selected"] - tot["control"]
    chk.extra["scan_wall_s"] = round(time.time() - t0, 1)
    chk.extra["scan_planned"] = sum(j[2] for j in jobs)
    return traces


def validate_all(chk, module, files, cfg, parallel, rounds=3):
    """vf.validate_batches reports the first rejected execution of a file; continue behind it (bounded)."""
    pending = list(files)
    skipped = 0
    for rnd in range(rounds + 1):
        before = len(chk.violations)
        vf.validate_batches(chk, module, pending, cfg=cfg, parallel=parallel, timeout=2400, xmx="3g")
        new = chk.violations[before:]
        nxt = []
        for v in new:
            note = open(v["replay"] + ".note").read()
            m = re.search(r"0-based offset (\d+) of batch (\S+?)\)", note)
            if not m:
                continue
            off, base = int(m.group(1)), m.group(2)
            tf = [f for f in pending if os.path.basename(f) == base][0]
            lines = open(tf).read().splitlines(True)
            end = None
            for i in range(off + 1, len(lines)):
                if lines[i].startswith('{"e":"Reset"'):
                    end = i
                    break
            if end is None:
                continue
            if rnd == rounds:
                skipped += sum(1 for x in lines[end:] if x.startswith('{"e":"Reset"'))
                continue
            rf = tf + ".r"
            tail = lines[end:]
            if not tail[-1].startswith('{"e":"End"'):
                pass
            open(rf, "w").writelines(tail)
            nxt.append(rf)
        pending = nxt
        if not pending:
            break
    if skipped:
        chk.extra["executions_not_validated_after_repeated_rejections"] = skipped


def count_events(chk, tracefile):
    cur = None
    for line in open(tracefile):
        if line.startswith('{"e":"CreateBegin"'):
            cur = json.loads(line)
            chk.evaluations += 1
        elif line.startswith('{"e":"Create"') and cur is not None:
            ev = json.loads(line)
            if not ev.get("ok"):
                chk.extra["create_calls_refused_null"] = chk.extra.get("create_calls_refused_null", 0) + 1
            if ev.get("ok") and "hdr" in ev:
                w, h = ev["hdr"][0][0], ev["hdr"][1][0]
                # one case per axis; non-trivial when the table has at least two taps per phase
                if w >= 2:
                    chk.distinct_keys.add(hash(("x", cur["rx"], cur["sx"], cur["bx"], tuple(cur["scale_x"]))))
                if h >= 2:
                    chk.distinct_keys.add(hash(("y", cur["ry"], cur["sy"], cur["by"], tuple(cur["scale_y"]))))
                chk.extra["coefficients_streamed"] = chk.extra.get("coefficients_streamed", 0) + ev["n"] - 4
        elif line.startswith('{"e":"Render"'):
            chk.extra["renders"] = chk.extra.get("renders", 0) + 1
        elif line.startswith('{"e":"SetFilter"'):
            chk.extra["set_filter_calls"] = chk.extra.get("set_filter_calls", 0) + 1
        elif line.startswith('{"e":"Crash"'):
            chk.extra["crashes"] = chk.extra.get("crashes", 0) + 1


def mc(chk):
    base = os.path.join(vf.SPEC, "mc")
    jobs = [("FilterMC", "FilterMC.cfg", False),
            ("FilterMC", "FilterMC_neg_offbyone.cfg", True),
            ("FilterMC", "FilterMC_neg_lastphase.cfg", True),
            ("FilterNorm", "FilterNorm.cfg", False),
            ("FilterNorm", "FilterNorm_neg_zero_total.cfg", True),
            ("FilterNorm", "FilterNorm_neg_nodiffuse.cfg", True)]

    def one(job):
        mod, cfg, neg = job
        return vf.tlc_mc(os.path.join(base, mod + ".tla"), cfg=os.path.join(base, cfg), workers=4, timeout=900,
                         expect_violation=neg, coverage=(cfg == "FilterMC.cfg"), tag=cfg[:-4])

    from concurrent.futures import ThreadPoolExecutor
    with ThreadPoolExecutor(max_workers=3) as ex:
        results = list(ex.map(one, jobs))
    for (mod, cfg, neg), r in zip(jobs, results):
        chk.add_tlc(r, ("negative config (must be rejected) " if neg else "model check ") + cfg)
        if not neg and (r.inv_violation or r.deadlock):
            raise vf.Infra("the Filter model itself violates an invariant under %s:\n%s" % (cfg, r.out[-2500:]))
        if cfg == "FilterMC.cfg":
            taken = {m.group(1): int(m.group(2)) for m in
                     re.finditer(r"^<(\w+) line[^>]*>: (\d+):(\d+)", r.out, re.M)}
            chk.extra["mc_actions_taken"] = taken
            for a in ("MCCreate", "MCCall", "MCReturn", "MCRow", "MCSet", "MCRender"):
                if taken.get(a, 0) == 0:
                    raise vf.Infra("vacuous model: action %s never taken" % a)


def run(prop, args):
    chk = vf.Check(prop, args.tier, args.seed)
    rng = random.Random(args.seed * 1000003 + 18)
    quick = args.tier == "quick"
    wd = vf.workdir("filter")
    cfg = os.path.join(vf.SPEC, "trace", "FilterTrace.cfg")
    exe, px = vf.build_driver("drv_filter", "asan")
    chk.extra["build"] = px["hash"]

    if args.replay:
        script = args.replay if args.replay.endswith(".script") else args.replay + ".script"
        lines = open(script).read().splitlines()
        tr = run_driver(exe, [{"lines": lines}], wd, "replay")
        vf.validate_batches(chk, "FilterTrace", [tr], cfg=cfg, parallel=1)
        return chk.finish()

    import glob
    for f in glob.glob(os.path.join(vf.EVID, "replay", prop + ".*")):
        os.unlink(f)

    # 1. design-level model checking
    mc(chk)

    # 2. cases enumerated by TLC, turned into executions
    cases, r = tlc_cases(BITS_QUICK if quick else list(range(9)), SCALES_QUICK if quick else SCALES_ALL)
    chk.add_tlc(r, "case enumeration (FilterGen, breadth-first)")
    chk.extra["tlc_enumerated_axis_cases"] = len(cases)
    execs = build_execs(cases, rng, args.tier)
    huge = huge_execs(args.tier)
    execs += huge
    chk.extra["huge_scale_executions"] = len(huge)
    chk.extra["executions"] = len(execs)
    chk.extra["create_calls_scripted"] = sum(e["calls"] for e in execs)
    chk.sample({"execution_script": execs[len(execs) // 3]["lines"]})
    chk.sample({"execution_script": execs[-1]["lines"]})

    # 3. execute on the real library (ASan build of /repo's working tree), batches balanced by cost
    nb = 12
    batches = [[] for _ in range(nb)]
    loads = [0] * nb
    for e in sorted(execs, key=lambda e: -e["cost"]):
        i = loads.index(min(loads))
        batches[i].append(e)
        loads[i] += e["cost"]
    from concurrent.futures import ThreadPoolExecutor
    with ThreadPoolExecutor(max_workers=nb) as ex:
        traces = list(ex.map(lambda ib: run_driver(exe, ib[1], wd, "b%d" % ib[0]),
                             [(i, b) for i, b in enumerate(batches) if b]))
    # 3b. wide scan with selection (only selected + control tables reach TLC)
    traces += scan_stage(chk, exe, wd, args, nb if quick else 14)
    for t in traces:
        count_events(chk, t)

    # 4. trace validation
    validate_all(chk, "FilterTrace", traces, cfg, parallel=nb)
    byname = {e["name"]: e for e in execs}
    for v in chk.violations:
        try:
            first = open(v["replay"]).readline()
            e = byname.get(json.loads(first).get("scenario"))
            if e:
                open(v["replay"] + ".script", "w").write("\n".join(e["lines"]) + "\n")
        except Exception:
            pass
    chk.extra["rule"] = ("a case is (axis, reconstruction kernel, sampling kernel, subsample depth, scale) of a create "
                         "call that returned a block; non-trivial when its table has at least two taps per phase; "
                         "evaluations = create calls executed")
    chk.extra["exhaustive"] = False
    chk.assumptions += [
        "scales enumerated: " + ", ".join("%d/65536" % s for s in (SCALES_QUICK if quick else SCALES_ALL)) +
        " plus seeded random scales below 64; the statement's 'all positive 16.16 scales' is sampled, not enumerated",
        "a NULL return is accepted only where an axis needs 32768 or more taps (kernel supports 0/1/2/4/5/4/6/8 pixels, "
        "Filter!Unrepresentable): the 16.16 header cannot describe such a filter",
        "rendering obligation: |out - c| <= (c*ceil(w*h/2) + 32768) div 65536 per channel (0, i.e. exact, for w*h <= 256); "
        "narrow (8-bit) pipeline, repeat NORMAL/PAD/REFLECT, 8-bit-per-channel source formats",
        "out-of-bounds writes are observed by AddressSanitizer (heap redzones), not by the specification",
        "wide scan: the driver's structural pre-screen only SELECTS tables for TLC; the verdict on every selected or "
        "control table is TLC's, tables not selected are not judged. Dense part (every scale 1..131072, bits 0..5, "
        "IMPULSE reconstruction x 8 sampling kernels) is complete in both tiers; the 49 pairs without IMPULSE are scanned "
        "on 1 of %d residue classes of the scale per run (offset rotates with the seed)" % (37 if quick else 3),
        "TLC/SANY and the CommunityModules Json/IOUtils readers are trusted"]
    rc = chk.finish()
    if not args.keep:
        import shutil
        shutil.rmtree(wd, ignore_errors=True)
    return rc
