# C02 (all implementations bit-identical) and C16 (concurrent drawing): spec/Dispatch.tla, mc/DispatchMC,
# trace/DispatchTrace, harness/drv_dispatch.c.
import os
import random

import vf

PROPS = {"C02": "C02", "C16": "C16"}
CLAIMS = {
    "C02": dict(
        technique="TLA+ Dispatch spec: cache transparency model-checked by TLC; the real fast-path tables dumped from "
                  "the running library; every lookup (hook) and every result validated by TLC across PIXMAN_DISABLE "
                  "configurations",
        text="DispatchMC shows on abstract tables that the per-thread MRU cache keyed by key equality is transparent "
             "(a lookup returns what a fresh table walk returns) for every request history, and rejects the negative "
             "configuration that matches cached entries loosely. On the real library one request stream (operators x "
             "format triples x widths/offsets/heights/strides, scaled nearest/bilinear sources with every repeat, "
             "rotations, solid and component-alpha masks, pixman_fill/blt; one group of requests per entry of the dumped "
             "fast path tables with every kind of format field realised - concrete, null, solid, pixbuf/rpixbuf = source and "
             "mask over the same bits, gradient, wildcard - and per SIMD combiner of the dumped combiner tables, each also "
             "with run-structured alpha levels around 0/1 and 254/255 in blocks of 4/8/16 pixels at aligned and unaligned "
             "destinations) is executed once per implementation "
             "configuration; TLC validates every Lookup hook event against the specification's lookup on the tables "
             "dumped from that process (hit index, chosen implementation and function, move-to-front) and requires "
             "the destination bytes of every request to be identical in all configurations (fill/blt: identical, or "
             "FALSE with the buffer untouched).",
        ref="5 C02"),
    "C16": dict(
        technique="TLA+ Dispatch and Threads specs: TLC explores all interleavings of slot-wise cache updates "
                  "(per-thread vs shared cache) and of the single reads/writes of validate / lookup / draw under the "
                  "sharing discipline (race predicate on the access log; four negative configurations); threaded runs of the real library validated by TLC "
                  "(per-thread cache model, ownership of cache addresses, no validation of shared images by workers, "
                  "results equal to the solo run); the same run under ThreadSanitizer",
        text="DispatchMC with two threads: all interleavings of scan / slot-by-slot update steps; transparency holds "
             "with per-thread caches and TLC produces the torn entry when the cache is shared (negative "
             "configuration). ThreadsMC: three workers x three requests from one shared and private sources at the "
             "grain of single memory accesses: no raced cell and every request sees fully derived state under the "
             "discipline; lazy first use, a shared cache, worker-side reference counting and lazy implementation "
             "choice each produce a race. The same access log and race predicate (Threads.tla) are applied by "
             "DispatchTrace to the cache / validate / reference-count events of the real library. Real library: 2-8 threads execute a seeded request stream on private destinations with "
             "private and pre-validated shared sources (bits+transform, gradient, solid); TLC checks every thread's "
             "Lookup events against its own cache model, that a cache address belongs to one thread, that no worker "
             "finds a shared image dirty, and that every request's bytes equal the single-threaded run; a "
             "ThreadSanitizer build of the same run must finish without a report (a report aborts -> Crash event -> "
             "rejected trace). The negative scenario (shared sources first used concurrently) must be rejected.",
        ref="5 C16"),
}


def fmt(bpp, typ, a, r, g, b):
    return (bpp << 24) | (typ << 16) | (a << 12) | (r << 8) | (g << 4) | b


T_A, T_ARGB, T_ABGR, T_BGRA, T_RGBA = 1, 2, 3, 8, 9
F = {
    "a8r8g8b8": fmt(32, T_ARGB, 8, 8, 8, 8), "x8r8g8b8": fmt(32, T_ARGB, 0, 8, 8, 8),
    "a8b8g8r8": fmt(32, T_ABGR, 8, 8, 8, 8), "x8b8g8r8": fmt(32, T_ABGR, 0, 8, 8, 8),
    "b8g8r8a8": fmt(32, T_BGRA, 8, 8, 8, 8), "b8g8r8x8": fmt(32, T_BGRA, 0, 8, 8, 8),
    "r8g8b8": fmt(24, T_ARGB, 0, 8, 8, 8),
    "r5g6b5": fmt(16, T_ARGB, 0, 5, 6, 5), "b5g6r5": fmt(16, T_ABGR, 0, 5, 6, 5),
    "a1r5g5b5": fmt(16, T_ARGB, 1, 5, 5, 5), "x1r5g5b5": fmt(16, T_ARGB, 0, 5, 5, 5),
    "a4r4g4b4": fmt(16, T_ARGB, 4, 4, 4, 4),
    "a8": fmt(8, T_A, 8, 0, 0, 0), "a1": fmt(1, T_A, 1, 0, 0, 0),
    "a2r10g10b10": fmt(32, T_ARGB, 2, 10, 10, 10), "x2r10g10b10": fmt(32, T_ARGB, 0, 10, 10, 10),
    "r3g3b2": fmt(8, T_ARGB, 0, 3, 3, 2),
    "a8r8g8b8_sRGB": fmt(32, 10, 8, 8, 8, 8),       # PIXMAN_TYPE_ARGB_SRGB: always the wide pipeline, table-driven store
    "b8g8r8": fmt(24, T_ABGR, 0, 8, 8, 8), "r8g8b8a8": fmt(32, T_RGBA, 8, 8, 8, 8),
    "a2b10g10r10": fmt(32, T_ABGR, 2, 10, 10, 10),
}
SOLID = 1
OPS_PD = list(range(0x00, 0x0e))          # CLEAR .. SATURATE
OPS_ALL = OPS_PD + list(range(0x10, 0x1c)) + list(range(0x20, 0x2c)) + list(range(0x30, 0x3f))
FX1 = 65536
IDENT = [FX1, 0, 0, FX1, 0, 0]
CONFIGS_QUICK = ["fast mmx sse2 ssse3", "", "ssse3", "sse2 ssse3", "mmx sse2 ssse3", "wholeops"]
def _all_configs():
    names = ["fast", "mmx", "sse2", "ssse3"]
    out = []
    for mask in range(16):
        sub = [n for i, n in enumerate(names) if mask >> i & 1]
        for wo in (False, True):
            out.append(" ".join((["wholeops"] if wo else []) + sub))
    return out


# thorough tier: every subset of {fast, mmx, sse2, ssse3} with and without wholeops (32 configurations)
CONFIGS_MORE = [c for c in _all_configs() if c not in CONFIGS_QUICK]


def creq(op, sf, sw, sh, srep, sfilt, t, mf, mw, mh, mrep, mca, df, dw, dh, sx, sy, mx, my, dx, dy, w, h, seed,
         sopaque=0, shared=0, acc=0, dclip=0, samebits=0, pat=0):
    f = [op, sf, sw, sh, srep, sfilt] + list(t) + [mf, mw, mh, mrep, mca, df, dw, dh, sx, sy, mx, my, dx, dy, w, h,
                                                    seed, sopaque, shared, acc, dclip]
    if samebits or pat:
        f += [samebits, pat]
    return "C %d %s" % (len(f), " ".join(str(int(x)) for x in f))


def gen_requests(rng, n, threads=False):
    reqs = []
    dst_fmts = ["a8r8g8b8", "x8r8g8b8", "r5g6b5", "a8", "a8b8g8r8", "x8b8g8r8", "b8g8r8a8", "a1r5g5b5", "x1r5g5b5",
                "r8g8b8", "b5g6r5", "a4r4g4b4", "a2r10g10b10", "r3g3b2", "a8r8g8b8_sRGB", "b8g8r8", "r8g8b8a8",
                "a2b10g10r10"]
    src_fmts = ["a8r8g8b8", "x8r8g8b8", "r5g6b5", "a8", "a8b8g8r8", "x8b8g8r8", "b8g8r8a8", "b5g6r5", "a1r5g5b5",
                "x2r10g10b10", "a1", "a8r8g8b8_sRGB", "r8g8b8", "b8g8r8", "r8g8b8a8"]
    mask_fmts = [0, 0, 0, F["a8"], F["a8"], F["a8r8g8b8"], SOLID, F["a1"]]
    recent = []
    while len(reqs) < n:
        cls = rng.choice(["plain", "plain", "plain", "scaled", "scaled", "solid", "rot", "fill", "blt", "wideop"])
        seed = rng.randrange(1, 2 ** 31)
        if threads and rng.random() < 0.10:
            # trapezoid / triangle calls and region algebra on thread-private objects
            if rng.random() < 0.6:
                tk = rng.choice([0, 1, 2])
                f = [tk, F["a8"] if tk == 0 else F[rng.choice(["a8r8g8b8", "r5g6b5", "x8r8g8b8"])], rng.randint(4, 30),
                     rng.randint(2, 8), seed]
                reqs.append("T %d %s" % (len(f), " ".join(map(str, f))))
            else:
                reqs.append("X 2 %d %d" % (seed, rng.randint(2, 12)))
            continue
        if threads and rng.random() < 0.12:
            # very wide general-path composites: the scanline scratch no longer fits the stack buffer
            # (2048 pixels narrow, 512 float) and is allocated per call
            fl = rng.random() < 0.5
            dw = rng.choice([600, 777]) if fl else rng.choice([2100, 2500])
            op = rng.choice([0x13, 0x36, 0x0d, 0x2b]) if fl else rng.choice([3, 9, 11, 5])
            sf = F[rng.choice(["r5g6b5", "a4r4g4b4", "a1r5g5b5"])]
            reqs.append(creq(op, sf, dw + 4, 2, 0, 0, IDENT, F["a8"], dw + 4, 2, 0, 0, F[rng.choice(["r5g6b5", "a4r4g4b4"])],
                             dw, 1, 1, 0, 2, 0, 0, 0, dw, 1, seed, 0, 0))
            continue
        # working-set behaviour: re-issue one of the last requests with other pixel contents, so that the
        # fast path cache sees hits at every depth, move-to-front and eviction
        if recent and rng.random() < 0.45:
            parts = rng.choice(recent[-rng.choice([1, 2, 4, 8, 9, 12]):]).split()
            parts[-5] = str(seed)
            reqs.append(" ".join(parts))
            continue
        if cls in ("fill", "blt") and threads and rng.random() < 0.5:
            cls = "plain"
        if cls == "fill":
            bpp = rng.choice([1, 4, 8, 16, 24, 32])
            stride = rng.choice([3, 4, 5, 11])
            rows = rng.randint(1, 3)
            maxpx = stride * 32 // bpp
            x = rng.randint(0, min(maxpx - 1, 40))
            w = rng.randint(0, max(0, min(maxpx - x, 40)))
            y = rng.randint(0, rows - 1)
            h = rng.randint(0, rows - y)
            val = rng.choice([0, 0xffffffff, 0x12345678, 0x80, 0xa5a5a5a5, rng.randrange(2 ** 32)])
            f = [bpp, stride, rows, x, y, w, h, val, seed]
            reqs.append("F %d %s" % (len(f), " ".join(map(str, f))))
        elif cls == "blt":
            bpp = rng.choice([8, 16, 32, 32, 16, 24, 4])
            ss, ds = rng.choice([3, 5, 11]), rng.choice([3, 5, 11])
            rows = rng.randint(1, 3)
            maxw = min(ss, ds) * 32 // bpp
            w = rng.randint(0, min(maxw, 40))
            sx = rng.randint(0, min(ss * 32 // bpp - w, 9))
            dx = rng.randint(0, min(ds * 32 // bpp - w, 9))
            h = rng.randint(0, rows)
            sy = rng.randint(0, rows - h)
            dy = rng.randint(0, rows - h)
            f = [bpp, ss, ds, rows, sx, sy, dx, dy, w, h, seed]
            reqs.append("B %d %s" % (len(f), " ".join(map(str, f))))
        else:
            op = rng.choice(OPS_PD + [0x03, 0x01, 0x0c]) if cls != "wideop" else rng.choice(OPS_ALL)
            df = F[rng.choice(dst_fmts)]
            dw, dh = rng.randint(1, 44), rng.randint(1, 3)
            w, h = rng.randint(1, dw), rng.randint(1, dh)
            dx, dy = rng.randint(0, dw - w), rng.randint(0, dh - h)
            if rng.random() < 0.15:       # partly outside the destination
                dx, dy, w, h = dx - 3, dy - 1, w + 6, h + 2
            mf = rng.choice(mask_fmts) if cls != "solid" else rng.choice([F["a8"], F["a8r8g8b8"], F["a1"]])
            mca = 1 if (mf == F["a8r8g8b8"] and rng.random() < 0.6) else 0
            mw, mh, mrep = dw + 8, dh + 2, 0
            if mf and rng.random() < 0.2:
                mw, mh, mrep = 1, 1, 1       # 1x1 repeating mask
            mx, my = rng.randint(0, 4), rng.randint(0, 1)
            sopaque = 1 if rng.random() < 0.3 else 0
            shared = 0
            t = IDENT
            sfilt, srep = 0, 0
            if cls == "solid":
                sf, sw, sh, sx, sy = SOLID, 1, 1, 0, 0
            else:
                sf = F[rng.choice(src_fmts)]
                sw, sh = dw + 10, dh + 3
                sx, sy = rng.randint(0, 6), rng.randint(0, 2)
                if rng.random() < 0.15:
                    sw, sh, srep = 1, 1, 1   # 1x1 repeating source
                if cls == "scaled":
                    # pixman_filter_t: FAST 0, GOOD 1, BEST 2, NEAREST 3, BILINEAR 4
                    sfilt = rng.choice([3, 3, 4, 4, 0, 2])
                    scale = rng.choice([FX1 // 2, FX1 * 2 // 3, FX1, FX1 * 3 // 2, FX1 * 2, FX1 + 1, 43690, 87381])
                    scy = rng.choice([FX1, scale])
                    tx = rng.choice([0, FX1 // 2, -FX1 // 2, FX1, 3 * FX1 + 1000, -2 * FX1, 77])
                    t = [scale, 0, 0, scy, tx, rng.choice([0, FX1 // 2, -FX1, 12345])]
                    srep = rng.choice([0, 1, 2, 3])
                    sw, sh = rng.choice([(dw + 10, dh + 3), (7, 3), (max(1, dw // 2), 2), (64, 4)])
                elif cls == "rot":
                    k = rng.choice([90, 180, 270])
                    sw, sh = 48, 48
                    if k == 90:
                        t = [0, -FX1, FX1, 0, 47 * FX1, 0]
                    elif k == 180:
                        t = [-FX1, 0, 0, -FX1, 47 * FX1, 47 * FX1]
                    else:
                        t = [0, FX1, -FX1, 0, 0, 47 * FX1]
                    sx, sy = rng.randint(0, 3), rng.randint(0, 3)
                    if rng.random() < 0.7:
                        sf = df if df in (F["a8r8g8b8"], F["x8r8g8b8"], F["r5g6b5"], F["a8"]) else sf
                        op, mf = 1, 0
                if threads and rng.random() < 0.4:
                    shared = rng.choice([1, 2, 3, 4, 4, 5, 5])
            # read/write accessors on thread-private images (destination / mask / private source)
            acc = rng.choice([0, 0, 0, 1, 2, 3, 4, 5]) if (threads or rng.random() < 0.15) else 0
            if shared:
                acc &= 3
            # a destination clip of many boxes (with a clipped shared source the composite region then has more
            # boxes than the source's clip and the offsets dx - sx, dy - sy are rarely zero)
            dclip = rng.choice([1, 2]) if (rng.random() < (0.6 if shared >= 4 else 0.12)) else 0
            reqs.append(creq(op, sf, sw, sh, srep, sfilt, t, mf, mw, mh, mrep, mca, df, dw, dh, sx, sy, mx, my,
                             dx, dy, w, h, seed, sopaque, shared, acc, dclip))
            recent.append(reqs[-1])
    return reqs


def extreme_geometry_requests(rng, quick):
    """scaled sources at the edge of the 16.16 coordinate range: images close to 32768 pixels wide (or high) under
       strong reductions and enlargements, partly covering the destination, for the format pairs that have scaled
       fast paths and for one that has none - where a 32-bit intermediate of a special-cased routine can wrap while
       the general path (64-bit) does not"""
    reqs = []
    pairs = [("a8r8g8b8", "a8r8g8b8"), ("r5g6b5", "r5g6b5"), ("a8r8g8b8", "r5g6b5"), ("x8r8g8b8", "a8r8g8b8"),
             ("a8", "a8")]
    widths = [32766, 32767, 30000, 16385] if not quick else [32766, 30000]
    scales = [4 * FX1, 5000 * FX1, FX1 * 3 // 2, 32767 * FX1 // 40, FX1 // 2] if not quick else [4 * FX1, 5000 * FX1, FX1 // 2]
    for (sfn, dfn) in pairs:
        for sw in widths:
            for sc in scales:
                for sfilt in (3, 4):
                    for srep in ((0, 2) if quick else (0, 1, 2, 3)):
                        for op in (1, 3):
                            dw = rng.randint(40, 90)
                            # translations that leave padding on the left, on the right, or on both sides
                            tx = rng.choice([0, -3 * sc, (sw - 5) * FX1 - (dw // 2) * sc, -2 * FX1])
                            if abs(tx) >= 2 ** 31:
                                tx = 0
                            t = [sc, 0, 0, FX1, tx, 0]
                            reqs.append(creq(op, F[sfn], sw, 2, srep, sfilt, t, 0, 1, 1, 0, 0, F[dfn], dw, 2,
                                             0, 0, 0, 0, 0, 0, dw, 2, rng.randrange(1, 2 ** 31)))
    # the same on the y axis (narrow, very tall sources)
    for (sfn, dfn) in pairs[:3]:
        for sh in ([32766] if quick else [32766, 30000]):
            for sc in (4 * FX1, 5000 * FX1):
                for sfilt in (3, 4):
                    t = [FX1, 0, 0, sc, 0, rng.choice([0, -3 * sc if 3 * sc < 2 ** 31 else 0])]
                    reqs.append(creq(1, F[sfn], 3, sh, rng.choice([0, 2]), sfilt, t, 0, 1, 1, 0, 0, F[dfn], 3, 30,
                                     0, 0, 0, 0, 0, 0, 3, 30, rng.randrange(1, 2 ** 31)))
    return reqs


# flag numbers of pixman-private.h (FAST_PATH_*) used to derive the geometry an entry asks for
FL_ID, FL_NO_PAD, FL_NO_REFLECT, FL_NEAREST, FL_NO_NORMAL, FL_NO_NONE, FL_BILINEAR = 0, 3, 4, 11, 14, 15, 19
FL_ROT = (20, 21, 22)                     # rotation by 90, 180, 270 degrees
FL_COMPONENT_ALPHA, FL_UNIFIED_ALPHA = 8, 9
ROT_MATRIX = {20: [0, -FX1, FX1, 0, 63 * FX1, 0], 21: [-FX1, 0, 0, -FX1, 63 * FX1, 63 * FX1],
              22: [0, FX1, -FX1, 0, 0, 63 * FX1]}
FL_COVER = (23, 24)
REPEAT_BY_FLAGS = {frozenset((FL_NO_PAD, FL_NO_REFLECT, FL_NO_NORMAL)): 0,      # NONE
                   frozenset((FL_NO_PAD, FL_NO_REFLECT, FL_NO_NONE)): 1,        # NORMAL
                   frozenset((FL_NO_REFLECT, FL_NO_NORMAL, FL_NO_NONE)): 2,     # PAD
                   frozenset((FL_NO_PAD, FL_NO_NORMAL, FL_NO_NONE)): 3}         # REFLECT


def pat(block, band=0):
    """request field `pat` of the driver: run-structured alpha levels in blocks of `block` pixels; band 0 = chosen by
       the request's seed, 1 = around transparent (0, 1, 2), 2 = around opaque (255, 254, 253), 3 = both"""
    return block | (band << 8)


COMBINERS, GENERAL_COMBINERS = set(), set()       # filled by read_tables


TABLE_KEYS, TABLE_SPECIAL = set(), {}             # filled by table_directed_requests (the dumped fast path tables)

# 16.16 x phases of a scaled source, by class: just below a boundary of the 7-bit interpolation weight (a step of
# 1/128 = 0x200) or of the sample position (0x10000) - where a routine that accumulates the position differently
# from x0 + i * unit changes weight or pixel first -, on a boundary, just above one, and in the middle
PHASES_BELOW = [0x1ff, 0xffff, 0x81ff, 0x1fe, 0x7dff]
PHASES_OTHER = [0x200, 0x8001, 0, 0x8000, 1, 0x4100, 77]
RUN_SCALES = [FX1 // 2, FX1 * 3 // 4, FX1 * 3 // 2, FX1 // 4, 43690, FX1 + 1]


def value_run_requests(rng, quick):
    """Value runs x sampling phases, per fast path table entry (TABLE_KEYS: the tables dumped from the running
       library).  Source, mask and destination carry runs of lengths 1, 3, 4, 5, 8, 16 of the value classes transparent /
       opaque / 1 / 254 / partial / random (driver: pat band 4) in rows of 64..96 pixels, so that routines which test a
       whole vector of mask or source pixels ("all zero: skip the block", "all opaque: copy") take the shortcut for some
       blocks and the ordinary path for the pixels that FOLLOW in the same row, at aligned and unaligned destinations.
         * every entry for scaled sources (nearest / bilinear; the repeat mode its flags name, or each of the four):
           each scale of 1/2, 3/4, 3/2 (quick tier; thorough: also 1/4, 2/3, 1 + 1/65536) with one x phase just below a
           weight / pixel boundary and one of the other phase classes, the source partly outside the sampled area for
           the entries that are not about covering samples;
         * every entry for untransformed sources that takes a mask image, or whose operator reads source alpha: one
           request (two in the thorough tier).
       Wildcard entries are left to combiner_directed_requests (they run the scanline pipeline)."""
    S = TABLE_SPECIAL
    concrete = lambda c: (c >> 24) != 0
    out = []
    scales = RUN_SCALES[:3] if quick else RUN_SCALES
    for key in sorted(TABLE_KEYS):
        (op, sfc, mfc, dfc, cover, nearest, bilinear, rot, ident, rep, ca) = key
        if op == S["any_op"] or S["any"] in (sfc, mfc, dfc) or not concrete(dfc):
            continue
        if not (concrete(sfc) or sfc == S["solid"]):
            continue
        if mfc == S["null"]:
            m = 0
        elif mfc == S["solid"]:
            m = SOLID
        elif concrete(mfc):
            m = mfc
        else:
            continue
        mca = ca if ca >= 0 else 0
        if not m:
            mca = 0
        jobs = []             # (filter, scale or None, phase, repeat)
        if concrete(sfc) and not ident and not rot and (nearest or bilinear):
            # an entry about covering samples does not look at the repeat mode: one mode by the seed
            reps = [rep] if rep >= 0 else [rng.randrange(4)] if (cover and quick) else [0, 1, 2, 3]
            for r in reps:
                if quick:
                    # one request per scale; over the scales of one entry both phase classes occur
                    cl = [PHASES_BELOW, PHASES_OTHER, rng.choice([PHASES_BELOW, PHASES_OTHER])]
                    rng.shuffle(cl)
                    pairs = [(sc, rng.choice(c)) for sc, c in zip(scales, cl)]
                    if not bilinear:
                        sp = sorted(pairs, key=lambda p: p[1] not in PHASES_BELOW)
                        pairs = [sp[0], rng.choice(sp[1:])]
                else:
                    pairs = [(sc, rng.choice(c)) for sc in scales for c in (PHASES_BELOW, PHASES_OTHER)]
                for (sc, ph) in pairs:
                    jobs.append((4 if bilinear else 3, sc, ph, r))
        elif (ident or sfc == S["solid"]) and not rot and (concrete(mfc) or (concrete(sfc) and PIXMAN_FORMAT_A(sfc))):
            jobs = [(0, None, 0, rep if rep >= 0 else 0)] * (1 if quick else 2)
        for (sfilt, sc, ph, r) in jobs:
            dw, dh = rng.randint(64, 96), 2
            dx = rng.choice([0, 0, rng.randint(1, 15)])
            w = dw - dx
            t, srep = IDENT, r
            sw, sh, sx, sy = dw + 6, dh + 2, rng.randint(0, 3), rng.randint(0, 1)
            sf = sfc
            if sfc == S["solid"]:
                sf, sw, sh, sx, sy, srep = SOLID, 1, 1, 0, 0, 0
            if sc is not None:
                tx = rng.choice([0, 0, 3, -2]) * FX1 + ph
                t = [sc, 0, 0, rng.choice([FX1, sc, FX1 * 3 // 4]), tx, rng.choice([0, 0x8000, 0x1ff])]
                need = (dw * sc >> 16) + 8
                sw, sh = need + 4, 8
                if not cover:
                    sw, sh = rng.choice([(need + 4, 8), (max(3, need * 3 // 5), 4), (max(3, need * 3 // 5), 4), (7, 3)])
                sx, sy = rng.randint(0, 2), 0
            mw, mh, mrep, mx, my = dw + 6, dh + 2, 0, rng.randint(0, 3), rng.randint(0, 1)
            out.append(creq(op, sf, sw, sh, srep, sfilt, t, m, mw, mh, mrep, mca, dfc, dw, dh, sx, sy, mx, my, dx, 0, w, dh,
                            rng.randrange(1, 2 ** 31), 0, 0, 0, 0, 0, pat(8, 4)))
    return out


def PIXMAN_FORMAT_A(c):
    return (c >> 12) & 15


def combiner_directed_requests(rng, quick):
    """The second table along which implementations differ: the per-operator combiners of the scanline pipeline
       (dumped by the driver: which implementation defines a combiner for which operator, unified and component
       alpha).  One group of requests per (operator, unified / component alpha) that some SIMD implementation combines
       itself, with formats for which no whole-operation fast path exists (b8g8r8a8 / a8b8g8r8 sources onto a8r8g8b8,
       a8b8g8r8 or 565 destinations), so that fetch - combine - store runs; run-structured alpha levels in source, mask
       and destination in blocks of 4 / 8 / 16 at aligned and unaligned destination offsets, because the combiners
       test whole vectors for "all opaque" / "all zero".  The combiners only the general implementation has are
       sampled (thorough tier: all)."""
    reqs = []
    todo = sorted(COMBINERS)
    rest = sorted(GENERAL_COMBINERS - COMBINERS)
    todo += rest if not quick else rng.sample(rest, min(6, len(rest)))
    for (op, ca) in todo:
        masks = [F["a8r8g8b8"]] if ca else [0, F["a8"]]
        for mi, m in enumerate(masks):
            shapes = [(L, band, al) for L in (4, 8, 16) for band in (2, 3, 1) for al in (0, 1)]
            if quick:       # one per band of levels; block length and alignment by the seed
                shapes = [(rng.choice([4, 8, 16]), band, rng.choice([0, 1])) for band in (2, 3, 1)]
            for (L, band, al) in shapes:
                sf = F[rng.choice(["b8g8r8a8", "a8b8g8r8"])]
                df = F[rng.choice(["a8r8g8b8", "a8r8g8b8", "a8b8g8r8", "r5g6b5"])]
                if sf == df:
                    sf = F["b8g8r8a8"]
                dw = rng.randint(24, 56)
                dx = 0 if al else rng.randint(1, 7)
                reqs.append(creq(op, sf, dw + 6, 4, 0, 0, IDENT, m, dw + 6, 4, 0, ca, df, dw, 2, rng.randint(0, 3), rng.randint(0, 1),
                                 rng.randint(0, 2), 0, dx, 0, dw - dx, 2, rng.randrange(1, 2 ** 31), 0, 0, 0, 0, 0, pat(L, band)))
    return reqs


def read_tables(exe, wd, configs):
    """the Tables dump of the running library under every configuration: (entries, special) where entries is the set
       of (op, sf, mf, df, source flags, mask flags) over all implementations and special maps the names of the pseudo formats of
       pixman-private.h (null, solid, pixbuf, rpixbuf, unknown, any) to their codes"""
    import json
    entries, special, any_op = set(), {}, None
    COMBINERS.clear()
    code = lambda hl: (hl[0] << 16) | hl[1]
    for ci, dis in enumerate(configs):
        empty = os.path.join(wd, "empty.script")
        open(empty, "w").write("")
        tr = os.path.join(wd, "tables%d.ndjson" % ci)
        run_config(exe, empty, tr, dis)
        for line in open(tr):
            if line.startswith('{"e":"Tables"'):
                t = json.loads(line)
                any_op = t["any_op"]
                special = {k: code(v) for k, v in t["special"].items()}
                # combiners an implementation other than the last (general) one defines itself: (operator, component alpha)
                for ca, name in ((0, "comb"), (1, "comb_ca")):
                    for ops in t[name][:-1]:
                        COMBINERS.update((o, ca) for o in ops)
                    GENERAL_COMBINERS.update((o, ca) for o in t[name][-1])
                for imp in t["imps"]:
                    for e in imp:
                        entries.add((e["op"], code(e["sf"]), code(e["mf"]), code(e["df"]), frozenset(e["sfl"]),
                                     frozenset(e["mfl"])))
    return entries, special, any_op


def table_directed_requests(rng, exe, wd, configs, quick=True):
    """One group of requests per fast path table entry of the running library (all implementations, all
       configurations): the driver is run with an empty script to obtain the Tables dump, and for EVERY entry requests
       are generated whose operator and formats equal the entry's, in the geometric variants the entry's flags call
       for (untransformed, tiled, scaled nearest, scaled bilinear, rotated; the repeat mode the flags name).  Every
       kind of format field is realised:
         concrete code   a bits image of that format
         null            no mask / a mask that is opaque (the library drops it)
         solid           a solid fill image / a 1x1 repeating bits image
         pixbuf, rpixbuf an x8b8g8r8 / x8r8g8b8 source and an a8b8g8r8 or a8r8g8b8 mask over the SAME bits, same origin
                         and repeat (plus near misses: other origin / other repeat, which are ordinary masked requests)
         unknown         a gradient
         any             a sample of all of the above; operator "any": a sample of operators
       A code that is none of these is reported (evidence: table_entries_not_realised), never skipped silently.
       Each variant is issued as a wide two-row request and a narrow one with independent random pixels of the
       driver's value classes, and as "ramp" requests: run-structured alpha levels around 0/1 and 254/255 in blocks of
       4, 8 and 16 pixels (constant runs, mixes, halves, ramps - what per-vector "all opaque / all transparent" tests
       of the SIMD paths look at) at 16-byte aligned and unaligned destination offsets.
       Whether a request really reaches the entry is decided by the library; the Lookup events say which entry served
       it (evidence: table_entries_served).  Returns (regular, special_requests, not_realised)."""
    entries, special, any_op = read_tables(exe, wd, configs)
    S = special
    keys = set()
    # (operator, formats) that have an entry for untransformed sources: entries for transformed sources of the same
    # formats need no untransformed request of their own
    ident_triples = {(op, sfc, mfc, dfc) for (op, sfc, mfc, dfc, sfl, mfl) in entries if FL_ID in sfl}
    for (op, sfc, mfc, dfc, sfl, mfl) in entries:
        rep = None
        for fs, r in REPEAT_BY_FLAGS.items():
            if fs <= sfl:
                rep = r
        keys.add((op, sfc, mfc, dfc, bool(sfl & set(FL_COVER)), FL_NEAREST in sfl, FL_BILINEAR in sfl,
                  max([0] + [f for f in FL_ROT if f in sfl]), FL_ID in sfl, -1 if rep is None else rep,
                  1 if FL_COMPONENT_ALPHA in mfl else (0 if FL_UNIFIED_ALPHA in mfl else -1)))
    concrete = lambda c: (c >> 24) != 0
    TABLE_KEYS.clear()
    TABLE_KEYS.update(keys)
    TABLE_SPECIAL.clear()
    TABLE_SPECIAL.update(S, any_op=any_op)
    any_src = [("bits", F[n]) for n in ("a8r8g8b8", "x8r8g8b8", "r5g6b5", "a8", "x2r10g10b10", "a8b8g8r8", "a1r5g5b5",
                                        "a8r8g8b8_sRGB")] + [("solid", None), ("bits1x1", F["a8r8g8b8"]), ("gradient", None),
                                                             ("pixbuf", F["x8b8g8r8"]), ("pixbuf", F["x8r8g8b8"])]
    any_mask = [("none", 0), ("none", 0), ("bits", F["a8"]), ("bits", F["a8r8g8b8"]), ("bits", F["a1"]), ("solid", None),
                ("bits1x1", F["a8"]), ("gradient", None), ("opaque", None)]
    any_dst = [F[n] for n in ("a8r8g8b8", "x8r8g8b8", "r5g6b5", "a8", "a8b8g8r8", "b5g6r5", "a2r10g10b10", "a1r5g5b5",
                              "r8g8b8", "b8g8r8a8")]
    not_realised = set()

    def src_kinds(c):
        if c == S["any"]:
            return any_src
        if c == S["solid"]:
            return [("solid", None), ("bits1x1", F[rng.choice(["a8r8g8b8", "x8r8g8b8", "a8", "r5g6b5"])])]
        if c == S["pixbuf"]:
            return [("pixbuf", F["x8b8g8r8"])]
        if c == S["rpixbuf"]:
            return [("pixbuf", F["x8r8g8b8"])]
        if c == S["unknown"]:
            return [("gradient", None)]
        if concrete(c):
            return [("bits", c)]
        not_realised.add(c)
        return []

    def mask_kinds(c):
        if c == S["any"]:
            return any_mask
        if c == S["null"]:
            return [("none", 0), ("none", 0), ("none", 0), ("opaque", None)]
        if c == S["solid"]:
            return [("solid", None), ("bits1x1", F[rng.choice(["a8", "a8r8g8b8"])])]
        if c in (S["pixbuf"], S["rpixbuf"]):
            return [("tied", None)]            # decided by the source
        if c == S["unknown"]:
            return [("gradient", None)]
        if concrete(c):
            return [("bits", c)]
        not_realised.add(c)
        return []

    regular, spec = [], []
    for key in sorted(keys):
        (op, sfc, mfc, dfc, cover, nearest, bilinear, rot, ident, rep, ca) = key
        is_special = bool({sfc, mfc} & {S["pixbuf"], S["rpixbuf"], S["unknown"]})
        wild = op == any_op or S["any"] in (sfc, mfc, dfc)
        if not (concrete(dfc) or dfc == S["any"]):
            not_realised.add(dfc)
            continue
        sk, mk = src_kinds(sfc), mask_kinds(mfc)
        if not sk or not mk:
            continue
        # the realisations of this entry: all of them for a fully determined entry, a sample for a wildcard entry
        if wild:
            combos = [(rng.choice(OPS_ALL) if op == any_op else op, rng.choice(sk), rng.choice(mk),
                       rng.choice(any_dst) if dfc == S["any"] else dfc) for _ in range(24 if quick else 96)]
        else:
            combos = [(op, a, rng.choice(mk), dfc) for a in sk]
            if sfc != S["solid"] and mfc == S["solid"]:
                combos = [(op, a, b, dfc) for a in sk for b in mk]
        for (cop, (skind, sfmt), (mkind, mfmt), cdf) in combos:
            out = spec if (is_special or skind in ("pixbuf", "gradient") or mkind == "gradient") else regular
            src_img = skind in ("bits", "pixbuf")
            variants = ["plain"] if (ident or (op, sfc, mfc, dfc) not in ident_triples) else []
            if src_img and rep == 1 and ident:
                variants = ["tiled", "tiled"]
            # an untransformed image has the "nearest" flag whatever its filter, so entries for untransformed sources
            # name it too: one scaled request for those (quick tier), two for entries that are about scaling, and an
            # entry about scaling that names no repeat mode is tried with each of the four
            if nearest and src_img:
                variants += ["snear"] if (ident and quick) else ["snear", "snear"] if rep >= 0 else ["snear:%d" % k for k in range(4)]
            if bilinear and src_img:
                variants += ["sbil", "sbil"] if rep >= 0 else ["sbil:%d" % k for k in range(4)]
            if rot and src_img:
                variants += ["rot"]
            if wild and src_img and skind != "pixbuf":
                variants = [rng.choice(["plain", "plain", "tiled", "snear", "sbil", "rot"])]
            if skind == "pixbuf":
                # the two mask formats the library accepts, then the near misses
                variants = ["pixbuf:a8b8g8r8", "pixbuf:a8r8g8b8", "pixbuf:a8b8g8r8:origin", "pixbuf:a8r8g8b8:repeat"]
                if wild:
                    variants = [rng.choice(variants)]
            for var in variants:
                sizes = [("wide", 0), ("narrow", 0)]
                # ramp requests: every block length x two bands, alternately unaligned / aligned, for the special kinds;
                # otherwise one around opaque per variant plus one around transparent / both for untransformed sources
                # (thorough tier: every block length)
                if out is spec:
                    sizes += [("ramp", pat(L, band)) for L in (4, 8, 16) for band in (2, 3)] + [("ramp", pat(8, 1))]
                elif not quick and not wild:
                    sizes += [("ramp", pat(L, 2)) for L in (4, 8, 16)] + [("ramp", pat(rng.choice([4, 8, 16]), rng.choice([1, 3])))]
                elif wild:
                    sizes = [rng.choice(sizes + [("ramp", pat(rng.choice([4, 8, 16])))])]
                elif var == "snear" and ident:
                    pass            # the one scaled request of an entry for untransformed sources: no ramp in the quick tier
                else:
                    sizes += [("ramp", pat(rng.choice([4, 8, 16]), 2))]
                    if var in ("plain", "tiled"):
                        sizes += [("ramp", pat(rng.choice([4, 8, 16]), rng.choice([1, 3])))]
                for ri, (size, pt) in enumerate(sizes):
                    seed = rng.randrange(1, 2 ** 31)
                    dw, dh = (rng.choice([1, 2, 3, 5, 7]), 1) if size == "narrow" else (rng.randint(33, 44), 2)
                    dx = dy = 0
                    if size == "ramp":
                        # destination start: 16-byte aligned (dx 0; malloc'ed rows) and every other offset within 16 bytes
                        dw = rng.randint(40, 56)
                        aligned = (ri % 2 == 1) if len(sizes) > 4 else (rng.random() < 0.34)
                        dx = 0 if aligned else rng.randint(1, 15)
                    w, h = dw - dx, dh
                    t = IDENT
                    sfilt, srep = 0, (rep if (rep >= 0 and var != "plain") else 0)
                    sw, sh = dw + 6, dh + 2
                    sx, sy = rng.randint(0, 3), rng.randint(0, 1)
                    mw, mh, mrep, mx, my, samebits = dw + 6, dh + 2, 0, rng.randint(0, 2), 0, 0
                    sf = sfmt
                    if skind == "solid":
                        sf, sw, sh, sx, sy = SOLID, 1, 1, 0, 0
                    elif skind == "bits1x1":
                        sw, sh, srep, sx, sy = 1, 1, 1, 0, 0
                    elif skind == "gradient":
                        sf, srep = S["unknown"], rng.choice([0, 1, 2, 3])
                    if var == "tiled":
                        sw, sh, srep = rng.choice([(3, 2), (7, 3), (17, 1), (2, 2), (dw // 2, 2), (64, 1)])[:2] + (1,)
                        sw = max(sw, 1)
                        sx, sy = rng.randint(0, 40), rng.randint(0, 5)
                    elif var.startswith("snear") or var.startswith("sbil"):
                        sfilt = 3 if var.startswith("snear") else 4
                        sc = rng.choice([FX1 // 2, FX1 * 3 // 2, FX1 * 2, 43690])
                        t = [sc, 0, 0, rng.choice([FX1, sc]), rng.choice([0, FX1 // 2, 3 * FX1]), 0]
                        srep = rep if (rep >= 0 and rng.random() < 0.75) else rng.choice([0, 1, 2, 3])
                        if ":" in var:
                            srep = int(var.split(":")[1])
                        sw, sh = (4 * dw + 16, 4 * dh + 8) if (cover and rng.random() < 0.8) else \
                            rng.choice([(4 * dw + 16, 4 * dh + 8), (7, 3)])
                    elif var == "rot":
                        sw, sh = 64, 64
                        t = ROT_MATRIX[rot or rng.choice(FL_ROT)]
                    m = 0
                    if mkind == "bits":
                        m = mfmt
                    elif mkind == "solid":
                        m = SOLID
                    elif mkind == "bits1x1":
                        m, mw, mh, mrep, mx, my = mfmt, 1, 1, 1, 0, 0
                    elif mkind == "opaque":
                        m, mw, mh, mrep, mx, my = F["x8r8g8b8"], 1, 1, 1, 0, 0
                    elif mkind == "gradient":
                        m, mrep = S["unknown"], rng.choice([0, 1, 2, 3])
                    if var.startswith("pixbuf"):
                        parts = var.split(":")
                        m, samebits, mx, my, mrep = F[parts[1]], 1, sx, sy, srep
                        if parts[-1] == "origin":
                            mx = sx + rng.choice([1, 2])
                        elif parts[-1] == "repeat":
                            mrep = 1
                    # component alpha: as the entry's mask flags say; free where they say nothing
                    mca = ca if ca >= 0 else (1 if (m == F["a8r8g8b8"] and rng.random() < 0.7) else 0)
                    if samebits or not m:
                        mca = 0
                    out.append(creq(cop, sf, sw, sh, srep, sfilt, t, m, mw, mh, mrep, mca, cdf,
                                    dw, dh, sx, sy, mx, my, dx, dy, w, h, seed, 0, 0, 0, 0, samebits, pt))
    return regular, spec, sorted(not_realised)


def fill_blt_sweep(rng, quick):
    """pixman_fill / pixman_blt over every start offset within a 16-byte block and every width up to 40 pixels"""
    out = []
    for bpp in (8, 16, 32, 1, 4, 24):
        for x in range(0, 8 if bpp >= 8 else 33, 1 if bpp >= 8 else 8):
            for w in (range(0, 41) if not quick else [0, 1, 2, 3, 4, 7, 8, 9, 15, 16, 17, 31, 32, 33, 40]):
                stride = (((x + w) * bpp + 31) // 32) + rng.choice([0, 1])
                stride = max(stride, 1)
                f = [bpp, stride, 2, x, rng.randint(0, 1), w, 1, rng.choice([0x5a5a5a5a, 0xffffffff, 0x01020304]),
                     rng.randrange(1, 2 ** 31)]
                out.append("F %d %s" % (len(f), " ".join(map(str, f))))
    for bpp in (16, 32, 8):
        for sx in range(0, 4):
            for dx in range(0, 4):
                for w in ([0, 1, 2, 3, 5, 8, 15, 16, 17, 33, 36] if quick else range(0, 37)):
                    ss = ((sx + w) * bpp + 31) // 32 + 1
                    ds = ((dx + w) * bpp + 31) // 32 + 1
                    f = [bpp, ss, ds, 2, sx, 0, dx, rng.randint(0, 1), w, 1, rng.randrange(1, 2 ** 31)]
                    out.append("B %d %s" % (len(f), " ".join(map(str, f))))
    return out


def threaded_api_requests(rng, n):
    """C16: the drawing entry points other than pixman_image_composite32, on thread-private objects, for the threaded
       stream (driver kinds L, G, R; plus larger F / B / X requests).  Every request has its own colour / shapes (by its
       seed) and most calls draw many boxes / glyphs / trapezoids, so that calls of different threads overlap in time.
         L  pixman_image_fill_boxes / pixman_image_fill_rectangles: operator x colour (opaque / translucent) x destination
            format (formats pixman_fill handles, formats it does not, wide formats) x alpha map x accessors (plain / slow)
            x destination clip - both branches of the function (direct pixman_fill and the composited one) are walked
         G  pixman_composite_glyphs / _no_mask from the thread's own glyph cache (a8 and component-alpha glyphs)
         R  pixman_rasterize_trapezoid, pixman_add_traps, pixman_add_triangles, pixman_composite_trapezoids / _triangles"""
    A4 = fmt(4, T_A, 4, 0, 0, 0)
    fill_ok = ["a8r8g8b8", "x8r8g8b8", "a8b8g8r8", "b8g8r8a8", "r8g8b8a8", "r5g6b5", "b5g6r5", "a8"]
    fill_no = ["r8g8b8", "b8g8r8", "a1r5g5b5", "a4r4g4b4", "r3g3b2", "x1r5g5b5"]
    wide = ["a2r10g10b10", "a2b10g10r10", "a8r8g8b8_sRGB"]
    # CLEAR SRC OVER ADD XOR IN ATOP OUT_REVERSE SATURATE / a few separable and non-separable blend modes
    fill_ops = [0x00, 0x01, 0x03, 0x03, 0x03, 0x0c, 0x0c, 0x0b, 0x05, 0x09, 0x08, 0x0d, 0x30, 0x31, 0x3b]
    out = []
    # blocks of requests of one class, so that consecutive requests (which go to different threads) are of the same class
    while len(out) < n:
        cls = rng.choice(["L", "L", "L", "L", "G", "G", "R", "R", "FBX"])
        for _ in range(rng.choice([4, 6, 8])):
            seed = rng.randrange(1, 2 ** 31)
            if cls == "L":
                kindsel = rng.random()
                name = rng.choice(fill_ok) if kindsel < 0.55 else rng.choice(fill_no) if kindsel < 0.85 else rng.choice(wide)
                op = rng.choice(fill_ops)
                dw, dh = rng.randint(8, 40), rng.randint(2, 6)
                amap = 1 if (rng.random() < 0.2 and name not in ("a8",)) else 0
                acc = rng.choice([0, 0, 0, 0, 1, 2, 2])
                nbox = rng.choice([1, 3, 8, 24, 60, 120]) if acc != 2 else rng.choice([8, 16, 24])
                opaque = 1 if rng.random() < 0.25 else 0
                dclip = rng.choice([0, 0, 0, 1, 2])
                f = [rng.choice([0, 0, 1]), op, F[name], dw, dh, nbox, seed, amap, acc, opaque, dclip]
                out.append("L %d %s" % (len(f), " ".join(map(str, f))))
            elif cls == "G":
                font = rng.choice([0, 0, 1])
                maskfmt = rng.choice([0, 0, F["a8"], F["a8r8g8b8"]])
                name = rng.choice(["a8r8g8b8", "x8r8g8b8", "r5g6b5", "a8", "a8b8g8r8", "r8g8b8", "a2r10g10b10"])
                f = [rng.choice([0x03, 0x03, 0x0c, 0x01, 0x05, 0x0b]), F[name], rng.randint(10, 40), rng.randint(3, 8),
                     rng.choice([1, 4, 12, 30, 60]), seed, maskfmt, font, 1 if rng.random() < 0.3 else 0]
                out.append("G %d %s" % (len(f), " ".join(map(str, f))))
            elif cls == "R":
                rk = rng.choice([0, 1, 2, 3, 3, 4])
                if rk <= 2:
                    df = rng.choice([F["a8"], F["a8"], F["a1"], A4])
                else:
                    df = F[rng.choice(["a8r8g8b8", "x8r8g8b8", "r5g6b5", "a8", "r8g8b8", "a4r4g4b4"])]
                f = [rk, df, rng.randint(8, 40), rng.randint(3, 8), rng.choice([1, 3, 8, 20, 32]), seed,
                     rng.choice([0x03, 0x0c, 0x03, 0x05, 0x0b, 0x01])]
                out.append("R %d %s" % (len(f), " ".join(map(str, f))))
            else:
                k = rng.choice("FBX")
                if k == "F":
                    bpp = rng.choice([8, 16, 32, 32, 1, 4, 24])
                    stride, rows = rng.choice([8, 13, 20]), rng.randint(2, 6)
                    maxpx = stride * 32 // bpp
                    x = rng.randint(0, min(maxpx - 1, 30))
                    w = rng.randint(1, max(1, min(maxpx - x, 150)))
                    y = rng.randint(0, rows - 1)
                    f = [bpp, stride, rows, x, y, w, rng.randint(1, rows - y), rng.randrange(2 ** 32), seed]
                    out.append("F %d %s" % (len(f), " ".join(map(str, f))))
                elif k == "B":
                    bpp = rng.choice([8, 16, 32, 32, 16])
                    ss, ds, rows = rng.choice([13, 20, 29]), rng.choice([13, 20, 29]), rng.randint(2, 6)
                    w = rng.randint(1, min(ss, ds) * 32 // bpp - 9)
                    h = rng.randint(1, rows)
                    f = [bpp, ss, ds, rows, rng.randint(0, 9), rng.randint(0, rows - h), rng.randint(0, 9),
                         rng.randint(0, rows - h), w, h, seed]
                    out.append("B %d %s" % (len(f), " ".join(map(str, f))))
                else:
                    out.append("X 2 %d %d" % (seed, rng.randint(6, 12)))
    return out[:n]


def run_config(exe, script, trace, disable, nthreads=0, extra=(), timeout=900, env_extra=None):
    env = dict(os.environ)
    env["PIXMAN_DISABLE"] = disable
    if env_extra:
        env.update(env_extra)
    cmd = [exe, script, trace] + ([str(nthreads)] if (nthreads or extra) else []) + list(extra)

    class R:
        pass
    r = R()
    r.returncode, r.stdout = vf.run_driver(cmd, trace, env=env, timeout=timeout)
    if r.returncode not in (0, 3):
        r.returncode = 0          # the Crash event appended to the trace is judged by TLC
    return r


def split_results(traces, wd, chunk=120, tag="res"):
    """regroup the Res lines of several traces by request number range (no judging: lines are copied verbatim)"""
    buckets = {}
    for name, tr in traces:
        for line in open(tr):
            if line.startswith('{"e":"Res"'):
                i = line.find('"req":')
                req = int(line[i + 6:line.find(",", i)])
                buckets.setdefault(req // chunk, {}).setdefault(name, []).append(line)
    files = []
    for b in sorted(buckets):
        fn = os.path.join(wd, "%s%d.ndjson" % (tag, b))
        with open(fn, "w") as f:
            for name in buckets[b]:
                f.write('{"e":"Reset","scenario":"%s"}\n' % (name.replace('"', "") or "default"))
                f.writelines(buckets[b][name])
        files.append(fn)
    return files


def lookup_file(tr, out):
    with open(out, "w") as f:
        for line in open(tr):
            if not line.startswith('{"e":"Res"') and not line.startswith('{"e":"Dispatch"'):
                f.write(line)
    return out


def mc(chk, names_neg):
    base = os.path.join(vf.SPEC, "mc")
    for name, neg in names_neg:
        r = vf.tlc_mc(os.path.join(base, "DispatchMC.tla"), cfg=os.path.join(base, "DispatchMC_%s.cfg" % name),
                      workers=8, timeout=900, expect_violation=neg)
        chk.add_tlc(r, ("negative config (must be rejected) " if neg else "model check ") + "DispatchMC_" + name)
        if not neg and "violated" in r.out:
            raise vf.Infra("DispatchMC_%s violates its invariants:\n%s" % (name, r.out[-2000:]))


def count_res(chk, tr):
    for line in open(tr):
        if line.startswith('{"e":"Res"'):
            chk.evaluations += 1
        elif line.startswith('{"e":"Lookup"'):
            i = line.find('"hit":')
            chk.extra["lookups"] = chk.extra.get("lookups", 0) + 1
            if line[i + 6] != "-":
                chk.extra["cache_hits"] = chk.extra.get("cache_hits", 0) + 1
            j = line.find('"op":')
            chk.distinct_keys.add(hash(line[j:]))


def entry_coverage(traces):
    """which fast path table entries (identified by operator, formats and source flags, over all configurations) were
       returned by at least one Lookup - a measurement for the evidence (an entry never reached proves nothing), not a
       verdict"""
    import json
    code = lambda hl: (hl[0] << 16) | hl[1]
    all_entries, served = set(), set()
    for _, tr in traces:
        tables, any_fmt, any_op = None, None, None
        for line in open(tr):
            if line.startswith('{"e":"Tables"'):
                t = json.loads(line)
                tables, any_fmt, any_op = t["imps"], t["any_fmt"], t["any_op"]
                for imp in tables:
                    for e in imp:
                        all_entries.add((e["op"], code(e["sf"]), code(e["mf"]), code(e["df"]), tuple(e["sfl"])))
            elif line.startswith('{"e":"Lookup"') and tables is not None:
                ev = json.loads(line)
                if not (1 <= ev["imp"] <= len(tables)):
                    continue
                for e in tables[ev["imp"] - 1]:
                    if e["func"] == ev["func"] and e["op"] in (ev["op"], any_op) and all(e[k] in (ev[k], any_fmt) for k in ("sf", "mf", "df")) \
                            and set(e["sfl"]) <= set(ev["sfl"]):
                        served.add((e["op"], code(e["sf"]), code(e["mf"]), code(e["df"]), tuple(e["sfl"])))
                        break
    missing = sorted(all_entries - served)
    return len(all_entries), len(served), ["op %d src %#x mask %#x dest %#x flags %s" % (m[0], m[1], m[2], m[3], list(m[4]))
                                           for m in missing]


def run_c02(args):
    chk = vf.Check("C02", args.tier, args.seed)
    quick = args.tier == "quick"
    rng = random.Random(args.seed * 31337 + 2)
    wd = vf.workdir("dispatch")
    mc(chk, [("T1", False), ("negloose", True)])
    exe, px = vf.build_driver("drv_dispatch", "plain", cflags=["-pthread"])
    chk.extra["build"] = px["hash"]
    configs = CONFIGS_QUICK + ([] if quick else CONFIGS_MORE)
    reqs = gen_requests(rng, 500 if quick else 15000)
    directed, special, not_realised = table_directed_requests(rng, exe, wd, configs, quick)
    cap = 2600
    if quick and len(directed) > cap:
        directed = rng.sample(directed, cap)
    # requests for the special kinds of entry (pixbuf / rpixbuf / gradient realisations) are few and never sampled away
    chk.extra["table_directed_requests"] = len(directed) + len(special)
    chk.extra["table_directed_special_requests"] = len(special)
    chk.extra["table_entries_not_realised"] = ["%#x" % c for c in not_realised]
    reqs += directed + special
    comb = combiner_directed_requests(rng, quick)
    chk.extra["combiner_directed_requests"] = len(comb)
    chk.extra["simd_combiners"] = len(COMBINERS)
    reqs += comb
    runs = value_run_requests(random.Random(args.seed * 31337 + 202), quick)
    chk.extra["value_run_requests"] = len(runs)
    reqs += runs
    sweep = fill_blt_sweep(rng, quick)
    chk.extra["fill_blt_sweep_requests"] = len(sweep)
    reqs += sweep
    extreme = extreme_geometry_requests(rng, quick)
    chk.extra["extreme_geometry_requests"] = len(extreme)
    reqs += extreme
    script = os.path.join(wd, "reqs.script")
    open(script, "w").write("\n".join(reqs) + "\n")
    chk.sample({"request_script_lines": reqs[:3]})
    traces = []
    for i, dis in enumerate(configs):
        tr = os.path.join(wd, "cfg%d.ndjson" % i)
        p = run_config(exe, script, tr, dis)
        if p.returncode != 0:
            raise vf.Infra("drv_dispatch failed under PIXMAN_DISABLE='%s' rc=%d: %s" % (dis, p.returncode, p.stdout[-800:]))
        traces.append((dis or "default", tr))
        count_res(chk, tr)
    chk.extra["configurations"] = configs
    n_entries, n_served, unserved = entry_coverage(traces)
    chk.extra["table_entries"] = n_entries
    chk.extra["table_entries_served"] = n_served
    chk.extra["table_entries_never_served"] = unserved
    # fills/blts that succeeded per configuration (so that "always FALSE" cannot pass silently)
    okfill = {}
    for name, tr in traces:
        n = 0
        for line in open(tr):
            if line.startswith('{"e":"Res"') and ('"kind":"F"' in line or '"kind":"B"' in line) and '"ret":true' in line:
                n += 1
        okfill[name] = n
    chk.extra["fill_blt_true_per_configuration"] = okfill
    lfiles = [lookup_file(tr, tr + ".lookup") for _, tr in traces]
    rfiles = split_results(traces, wd)
    cfg = os.path.join(vf.SPEC, "trace", "DispatchTrace.cfg")
    vf.validate_batches(chk, "DispatchTrace", lfiles, cfg=cfg, parallel=8, timeout=1500, label="lookup traces")
    vf.validate_batches(chk, "DispatchTrace", rfiles, cfg=cfg, parallel=12, timeout=1500, label="agreement traces")
    if not quick:
        # the repository's own tests, traced through the file sink: every lookup they perform obeys the model
        import repotests
        rt = repotests.traces(wd)
        chk.extra["repository_tests_traced"] = [n for n, _ in rt]
        vf.validate_batches(chk, "DispatchTrace", [t for _, t in rt], cfg=cfg, parallel=8, timeout=1500,
                            label="lookup traces of the repository's tests")
    for v in chk.violations:
        try:
            if os.path.exists(v["replay"] + ".script"):
                os.unlink(v["replay"] + ".script")      # a replay directory that is used again: not the old script
            os.link(script, v["replay"] + ".script")
        except OSError:
            pass
    chk.extra["rule"] = ("evaluations = request executions (requests x configurations); distinct non-trivial = distinct "
                         "lookup keys (operator, formats, flag sets) seen by the library")
    chk.assumptions += ["the general-only configuration is judged against the compositing/sampling specifications by C01/C08; "
                        "here agreement of all configurations is judged",
                        "undefined bits of a destination format (x channels) are cleared by the driver before logging",
                        "the Lookup hook reports what _pixman_implementation_lookup_composite decided"]
    return chk.finish()


def run_c16(args):
    chk = vf.Check("C16", args.tier, args.seed)
    quick = args.tier == "quick"
    rng = random.Random(args.seed * 7 + 16)
    wd = vf.workdir("threads")
    mc(chk, [("T2", False), ("negshared", True)])
    # Threads.tla: the sharing discipline at the grain of single reads and writes (three workers, three requests each,
    # one shared and three private sources): race-free and solo-equal under the discipline, one race per removed leg
    for name, neg in [("", False), ("_live", True), ("_neg_lazy_first_use", True), ("_neg_lazy_first_use_result", True),
                      ("_neg_shared_cache", True), ("_neg_worker_refs", True), ("_neg_lazy_imp", True)]:
        r = vf.tlc_mc("ThreadsMC", cfg="ThreadsMC%s.cfg" % name, workers=8, timeout=900, expect_violation=neg)
        chk.add_tlc(r, ("negative config (must be rejected) " if neg else "model check ") + "ThreadsMC" + name)
        if not neg and "violated" in r.out:
            raise vf.Infra("ThreadsMC%s violates its invariants:\n%s" % (name, r.out[-2000:]))
    # entry points that draw several pieces from a temporary of their own (fill_boxes / fill_rectangles, trapezoids,
    # glyphs): per-call temporary is race-free and solo-equal; one process-wide recoloured temporary must be rejected
    for name, neg in [("", False), ("_live", True), ("_neg_static_race", True), ("_neg_static_colour", True)]:
        r = vf.tlc_mc("ThreadsMCFill", cfg="ThreadsMCFill%s.cfg" % name, workers=4, timeout=600, expect_violation=neg)
        chk.add_tlc(r, ("negative config (must be rejected) " if neg else "model check ") + "ThreadsMCFill" + name)
        if not neg and "violated" in r.out:
            raise vf.Infra("ThreadsMCFill%s violates its invariants:\n%s" % (name, r.out[-2000:]))
    exe, px = vf.build_driver("drv_dispatch", "plain", cflags=["-pthread"])
    chk.extra["build"] = px["hash"]
    reqs = gen_requests(rng, 600 if quick else 12000, threads=True)
    # every routine of the fast-path tables from several threads at once: the per-table-entry requests of C02 (kept in
    # their order: the variants of one entry are consecutive, and consecutive requests go to different threads), so that
    # state a routine keeps outside its arguments (a static or per-implementation scratch record, a lazily built
    # table) is written by two threads - ThreadSanitizer reports it, and the results differ from the solo run
    directed, special, _nr = table_directed_requests(random.Random(args.seed * 31 + 5), exe, wd, [""], quick)
    allreq = directed + special
    blk = 6
    pick = (args.seed % 4) if quick else None
    routed = [r for i, r in enumerate(allreq) if pick is None or (i // blk) % 4 == pick]
    chk.extra["table_directed_requests_in_threads"] = len(routed)
    # every other drawing entry point of the public API (fill_boxes / fill_rectangles in both of their branches, glyphs
    # from per-thread caches, trapezoid / triangle rasterisation, fill / blt, region algebra) on thread-private objects,
    # each request with its own colour and shapes: state such a function keeps outside its arguments is exposed by the
    # same two obligations (results equal to the solo run; ThreadSanitizer)
    api_reqs = threaded_api_requests(random.Random(args.seed * 131 + 16), 240 if quick else 3000)
    chk.extra["api_entry_point_requests_in_threads"] = {k: sum(1 for r in api_reqs if r[0] == k) for k in "LGRFBX"}
    reqs = reqs + api_reqs + routed
    script = os.path.join(wd, "reqs.script")
    open(script, "w").write("\n".join(reqs) + "\n")
    chk.sample({"request_script_lines": reqs[:3]})
    # solo run
    solo = os.path.join(wd, "solo.ndjson")
    p = run_config(exe, script, solo, "")
    if p.returncode != 0:
        raise vf.Infra("solo run failed: " + p.stdout[-800:])
    runs = [("solo", solo)]
    lfiles = [lookup_file(solo, solo + ".lookup")]
    thread_counts = [2, 5] if quick else [2, 3, 5, 8]
    for nt in thread_counts:
        for rep in range(1 if quick else 10):
            tr = os.path.join(wd, "thr%d_%d.ndjson" % (nt, rep))
            p = run_config(exe, script, tr, "", nthreads=nt)
            if p.returncode != 0:
                raise vf.Infra("threaded run failed: " + p.stdout[-800:])
            # one file per run: main events, then each thread's events (order across threads is immaterial:
            # every thread has its own cache; within a thread the order is the program order)
            merged = tr + ".merged"
            with open(merged, "w") as f:
                f.write(open(tr).read())
                for k in range(1, nt + 1):
                    vf.clean_tail("%s.t%d" % (tr, k))
                    f.write(open("%s.t%d" % (tr, k)).read())
            runs.append(("threads%d_%d" % (nt, rep), merged))
            lfiles.append(lookup_file(merged, merged + ".lookup"))
            count_res(chk, merged)
    chk.extra["thread_counts"] = thread_counts
    rfiles = split_results(runs, wd)
    cfg = os.path.join(vf.SPEC, "trace", "DispatchTrace.cfg")
    vf.validate_batches(chk, "DispatchTrace", lfiles, cfg=cfg, parallel=8, timeout=1500, label="per-thread lookup traces")
    vf.validate_batches(chk, "DispatchTrace", rfiles, cfg=cfg, parallel=12, timeout=1500, label="solo-vs-threaded results")
    # ThreadSanitizer run of the same stream
    exe_t, _ = vf.build_driver("drv_dispatch", "tsan", cflags=["-pthread"])
    ttr = os.path.join(wd, "tsan.ndjson")
    p = run_config(exe_t, script, ttr, "", nthreads=4, timeout=600,
                   env_extra={"TSAN_OPTIONS": "halt_on_error=1:exitcode=66:report_signal_unsafe=0"})
    tsan_merged = ttr + ".merged"
    with open(tsan_merged, "w") as f:
        f.write(open(ttr).read())
        for k in range(1, 5):
            if os.path.exists("%s.t%d" % (ttr, k)):
                vf.clean_tail("%s.t%d" % (ttr, k))
                f.write(open("%s.t%d" % (ttr, k)).read())
    chk.extra["tsan_exit"] = p.returncode
    if p.returncode != 0 and '"e":"Crash"' not in open(ttr).read():
        # make the abnormal end visible to TLC: an event no action matches
        open(tsan_merged, "a").write('{"e":"Crash","sig":%d}\n' % p.returncode)
        open(os.path.join(wd, "tsan.report"), "w").write(p.stdout[-6000:])
    vf.validate_batches(chk, "DispatchTrace", [lookup_file(tsan_merged, tsan_merged + ".lookup")], cfg=cfg, parallel=1,
                        timeout=1500, label="ThreadSanitizer run")
    # negative scenario: shared sources first used concurrently must be rejected (binding/vacuity check)
    neg = os.path.join(wd, "neg.ndjson")
    rejected = False
    for attempt in range(3):
        p = run_config(exe, script, neg, "", nthreads=4, extra=["nofirstuse"])
        negm = neg + ".merged"
        with open(negm, "w") as f:
            f.write(open(neg).read())
            for k in range(1, 5):
                vf.clean_tail("%s.t%d" % (neg, k))
                f.write(open("%s.t%d" % (neg, k)).read())
        ok, matched, total, r = vf.tlc_trace("DispatchTrace", lookup_file(negm, negm + ".lookup"), cfg=cfg, timeout=900)
        chk.add_tlc(r, "negative scenario (lazy first use in workers; must be rejected)")
        if not ok:
            rejected = True
            break
    chk.extra["negative_scenario_rejected"] = rejected
    if not rejected:
        # Accepted: either the obligation is vacuous (the hook events do not reach TLC: an infrastructure failure), or
        # this library never validates lazily (setters / constructors compute the derived state at once), in which case
        # a first use by several threads writes nothing and there is nothing to reject.
        import json as _json
        shared_imgs, lazy, anyv = set(), 0, 0
        for ln in open(negm):
            if ln.startswith('{"e":"Shared"'):
                shared_imgs = set(tuple(i) for i in _json.loads(ln)["imgs"])
            elif ln.startswith('{"e":"Validate"'):
                anyv += 1
                ev = _json.loads(ln)
                if ev["dirty"] and ev["tid"] != 0 and tuple(ev["img"]) in shared_imgs:
                    lazy += 1
        if lazy or not anyv:
            raise vf.Infra("negative scenario (shared sources validated lazily by workers) was accepted although %d "
                           "worker validations of dirty SHARED images were recorded (%d Validate events): the Validate "
                           "obligation is vacuous" % (lazy, anyv))
        chk.extra["negative_scenario_note"] = ("not rejected: no worker ever found a shared image dirty (%d Validate events) - this library computes derived image state eagerly" % anyv)
    chk.extra["rule"] = ("evaluations = request executions in threaded runs; distinct non-trivial = distinct lookup keys")
    chk.assumptions += ["schedules explored on the real library are those the OS produced in these runs; all interleavings "
                        "are explored on the DispatchMC model only",
                        "ThreadSanitizer decides races on memory cells that have no hook event"]
    return chk.finish()


def run(prop, args):
    return run_c02(args) if prop == "C02" else run_c16(args)
