# C17: the glyph cache against spec/GlyphCache.tla (open-addressing table, refined level) and
# spec/GlyphMap.tla (map + LRU order, abstract level).
#   MC   spec/mc/GlyphCacheMC     invariants, termination of every probe, refinement GlyphCache => GlyphMap;
#                                 negative configurations incl. pixman 0.40.1's capacity test (the finding)
#   GEN  spec/gen/GlyphGen        all behaviours of small depth + long -generate behaviours, replayed on the
#                                 small-table build (flavour smallglyph); seeded client-like scripts
#   TV   spec/trace/GlyphTrace    every call validated (A) against the map under the refinement mapping of the logged
#                                 dump (layout independent, mandatory) and (B) against the exact layout model (note only)
#        spec/trace/GlyphMapTrace real constants: long runs (17000 inserts, table-filling run, tombstone build-up)
#                                 against the abstract spec; glyph drawing against the fold the statement names
import json
import os
import random
import shutil
import time
from concurrent.futures import ThreadPoolExecutor

import vf

PROPS = {"C17": "C17"}

CLAIMS = {
    "C17": dict(
        technique="TLA+ GlyphCache (refined open-addressing table) + GlyphMap (abstract map + LRU): TLC model checking "
                  "incl. refinement and probe termination; TLC-generated behaviours replayed on a small-table build of "
                  "the library; trace validation by TLC at the refined level (table dumps) and, with the real constants, "
                  "at the abstract level; glyph drawing validated by TLC against the per-glyph / mask-accumulation fold",
        text="spec/GlyphCache.tla models pixman-glyph.c's table exactly (slots NULL/TOMBSTONE/key, n_glyphs, "
             "n_tombstones, freeze_count, mru; the probe loops of lookup/insert/remove incl. the backwards tombstone "
             "sweep; thaw: clear when tombstones > HIGH, then evict from the mru tail down to LOW) with non-termination "
             "of a probe as an explicit outcome. TLC checks exhaustively on small tables (H=8/5 keys, H=6 and H=4 "
             "filled completely): counts match slots, every key reachable before the first NULL, a NULL slot always "
             "exists, all probes terminate, and the refinement to spec/GlyphMap.tla (lookup = live entry or NULL, "
             "entries vanish only by remove or by the outermost thaw above the high-water mark, least recently used "
             "first, a full cache refuses insertion). Negative configurations (the shipped capacity test n_glyphs >= "
             "HASH_SIZE, remove without tombstone, unconditional sweep, eviction from the mru head, eviction at nested "
             "thaw) are each rejected. All behaviours of small depth and long TLC-generated behaviours plus seeded "
             "client-like scripts (real colliding hashes, full collisions, table-filling runs) are replayed on the "
             "library built with HIGH=4/LOW=2; TLC validates every call in two levels: (A) mandatory and independent of "
             "the table layout -- the call is an action of the abstract map under the refinement mapping applied to the "
             "logged dump (lookup = map, nothing vanishes except by remove / the outermost thaw, refusal only when the "
             "logged counters say full, a NULL slot always remains, counters = slot counts, thaw follows the water-mark "
             "rule on the logged counters and evicts exactly the least recently used, every drawn glyph -- also one "
             "drawn outside the destination or clipped away -- becomes most recently used); (B) tracked only -- the "
             "exact slot layout predicted by the linear-probing model; a departure is reported as a note in the "
             "evidence, not as a violation. With the real constants, long runs (17000 inserts in one freeze, drawing-touched glyphs, survivors "
             "after thaw, a table-filling run, tombstone build-up and whole-table dump) are validated against the "
             "abstract spec, and pixman_composite_glyphs[_no_mask] against the fold of Composite32 the statement "
             "names (random cases with a1/a8/a8r8g8b8 glyphs, off-image positions, clips, many operators; and "
             "systematically every glyph format with alpha -- a8 a1 a4 x4a4, the 32-bit channel orders, sRGB, 10-bit, "
             "16/8/4-bit ARGB/ABGR, rgba_float -- x OVER/ADD/SRC/IN_REVERSE, every such mask format x operator, and "
             "glyph format x mask format). Every call that could spin "
             "is guarded by alarm(): a hang becomes a Crash event no action explains.",
        ref="5 C17"),
}

HERE = os.path.dirname(os.path.abspath(__file__))
MCDIR = os.path.join(vf.SPEC, "mc")

# ------------------------------------------------------------------------------------------
# 1. model checking

MC_QUICK = [("GlyphCacheMC.cfg", False), ("GlyphCacheMC_fill6k5.cfg", False), ("GlyphCacheMC_fill4.cfg", False),
            ("GlyphCacheMC_neg_capacity6.cfg", True), ("GlyphCacheMC_neg_capacity4.cfg", True),
            ("GlyphCacheMC_neg_remove_null.cfg", True), ("GlyphCacheMC_neg_sweep_always.cfg", True),
            ("GlyphCacheMC_neg_thaw_head.cfg", True), ("GlyphCacheMC_neg_thaw_nested.cfg", True),
            # the abstract level on its own: any layout that refines the map keeps its invariants
            ("GlyphMapMC.cfg", False), ("GlyphMapMC_neg_dead.cfg", True)]
MC_THOROUGH = [("GlyphCacheMC_fill6.cfg", False), ("GlyphCacheMC_vals.cfg", False),
               ("GlyphCacheMC_neg_capacity8.cfg", True)]


def mc(chk, tier):
    cfgs = MC_QUICK + (MC_THOROUGH if tier == "thorough" else [])
    def one(c):
        cfg, neg = c
        mod = os.path.join(MCDIR, "GlyphMapMC.tla" if cfg.startswith("GlyphMapMC") else "GlyphCacheMC.tla")
        return c, vf.tlc_mc(mod, cfg=os.path.join(MCDIR, cfg), workers=4, timeout=1500, expect_violation=neg,
                            tag="glyphmc-" + cfg[:-4])

    with ThreadPoolExecutor(max_workers=3) as ex:
        results = list(ex.map(one, cfgs))
    for (cfg, neg), r in results:
        chk.add_tlc(r, ("negative config (must be rejected) " if neg else "model check ") + cfg)
        if not neg and (r.inv_violation or r.deadlock or "is violated" in r.out):
            raise vf.Infra("the GlyphCache model itself violates its invariants/refinement under %s:\n%s"
                           % (cfg, r.out[-2500:]))
        if neg:
            what = r.inv_violation.group(1) if r.inv_violation else "refinement (action property of GlyphMap)"
            chk.extra.setdefault("negative_configs", {})[cfg] = "rejected: " + what


# ------------------------------------------------------------------------------------------
# 2. behaviours generated by TLC

def class_code(classes):
    return sum(c * 8 ** i for i, c in enumerate(classes))


def gen_cfg(path, classes, nv, depth):
    open(path, "w").write(
        "SPECIFICATION GenSpec\nCONSTANTS\n  Keys <- GKeys\n  Vals <- GVals\n  Hash <- GHash\n  NoVal = 0\n"
        "  H = 8\n  HIGH = 4\n  LOW = 2\n  CapRule = \"slots\"\n  NK = %d\n  ClassCode = %d\n  NV = %d\n"
        "  Depth = %d\n  MaxFreeze = 2\nINVARIANT Emit\n" % (len(classes), class_code(classes), nv, depth))


def tlc_behaviours(wd, classes, nv, depth, generate=None, seed=1, tag="ggen"):
    path = os.path.join(vf.SPEC, "gen", "GlyphGen.tla")
    cfg = os.path.join(wd, "%s.cfg" % tag)
    gen_cfg(cfg, classes, nv, depth)
    extra = []
    if generate:
        extra = ["-generate", "num=%d" % max(1, generate // 4), "-depth", str(2 * depth + 1), "-seed", str(seed)]
    r = vf.run_tlc(path, cfg=cfg, workers=4, timeout=900, extra=extra, tag=tag)
    behs = [json.loads(json.loads(b)) for b in r.vf("behaviour")]
    if not behs:
        raise vf.Infra("GlyphGen produced no behaviours:\n" + r.out[-2000:])
    return behs, r


def key_line(classes, fonts=None):
    fonts = fonts or [0] * len(classes)
    return "K %d %s" % (len(classes), " ".join("%d %d" % (c, f) for c, f in zip(classes, fonts)))


def glyph_params(rng):
    fmt = rng.choice([0, 1, 1, 2])
    return (rng.randint(-4, 4), rng.randint(-4, 4), fmt, rng.randint(1, 4), rng.randint(1, 3), rng.getrandbits(40))


def beh_to_script(beh, name, rng):
    out = ["R %s" % name]
    for c in beh:
        op, k = c["op"], c["k"]
        if op == "F" or op == "T":
            out.append(op)
        elif op == "I":
            # IQ/UQ: as a client does, look up first -- keeps the replay inside the API's domain (no double insertion,
            # no drawing of an absent glyph) even if the library decides a capacity case differently from the generator
            out.append("IQ %d %d %d %d %d %d %d" % ((k,) + glyph_params(rng)))
        elif op == "L":
            out.append("L %d" % k)
        elif op == "D":
            out.append("D %d" % k)
        elif op == "U":
            out.append("UQ %d 1 %d" % (rng.choice([0, 0, 1, 2, 3]), k))
    return out


# client-like seeded scripts for the small table: no model needed, the driver looks up before it inserts/draws
def client_script(rng, name, nk, length):
    out = ["R %s" % name]
    fr = 0
    phase = rng.choice(["fill", "churn", "mixed", "thaws", "cluster"])
    hot = rng.sample(range(1, nk + 1), rng.randint(3, nk))
    for _ in range(length):
        r = rng.random()
        k = rng.choice(hot) if rng.random() < 0.8 else rng.randint(1, nk)
        p_ins = {"fill": 0.6, "churn": 0.35, "mixed": 0.3, "thaws": 0.35, "cluster": 0.45}[phase]
        p_rem = {"fill": 0.08, "churn": 0.3, "mixed": 0.15, "thaws": 0.1, "cluster": 0.25}[phase]
        p_thaw = {"fill": 0.02, "churn": 0.04, "mixed": 0.08, "thaws": 0.2, "cluster": 0.03}[phase]
        if fr == 0 or (r < 0.05 and fr < 3):
            out.append("F")
            fr += 1
        elif r < 0.05 + p_thaw:
            out.append("T")
            fr -= 1
        elif r < 0.05 + p_thaw + p_ins:
            out.append("IQ %d %d %d %d %d %d %d" % ((k,) + glyph_params(rng)))
        elif r < 0.05 + p_thaw + p_ins + p_rem:
            out.append("D %d" % k)
        elif r < 0.05 + p_thaw + p_ins + p_rem + 0.12:
            n = rng.randint(1, 3)
            out.append("UQ %d %d %s" % (rng.choice([0, 0, 1, 2, 3]), n, " ".join(str(rng.choice(hot)) for _i in range(n))))
        else:
            out.append("L %d" % k)
    while fr > 0:
        out.append("T")
        fr -= 1
    for k in range(1, nk + 1):
        out.append("L %d" % k)
    return out


def fill_script(name, nk, rng):
    """the table-filling run on the small table: insert until refused, look up an absent key, churn, thaw"""
    out = ["R %s" % name, "F"]
    order = list(range(1, nk))          # key nk stays absent
    rng.shuffle(order)
    for k in order:
        out.append("IQ %d %d %d %d %d %d %d" % ((k,) + glyph_params(rng)))
    out.append("L %d" % nk)
    for k in order[:3]:
        out.append("D %d" % k)
    out.append("L %d" % nk)
    for k in order[:3]:
        out.append("IQ %d %d %d %d %d %d %d" % ((k,) + glyph_params(rng)))
    out.append("IQ %d %d %d %d %d %d %d" % ((nk,) + glyph_params(rng)))
    out.append("UQ 0 2 %d %d" % (order[-1], order[-2]))
    out.append("T")
    for k in range(1, nk + 1):
        out.append("L %d" % k)
    out += ["F", "IQ %d %d %d %d %d %d %d" % ((nk,) + glyph_params(rng)), "T", "L %d" % nk]
    return out


def clip_script(name, nk, rng):
    """old glyphs are drawn where no pixel reaches the destination (outside it / clipped away), then the outermost
       thaw finds the cache above its high-water mark: the glyphs just used must be the survivors"""
    ks = rng.sample(range(1, nk + 1), 5 + rng.randint(0, 2))
    out = ["R %s" % name, "F"]
    for k in ks:
        out.append("IQ %d %d %d %d %d %d %d" % ((k,) + glyph_params(rng)))
    if rng.random() < 0.5:
        out += ["F", "L %d" % ks[0], "T"]
    old = ks[:2] if rng.random() < 0.7 else [ks[1], ks[0]]
    style = rng.randint(0, 3)
    if style == 0:
        out.append("UQ %d 2 %d %d" % (rng.choice([2, 3]), old[0], old[1]))
    elif style == 1:
        out += ["UQ 2 1 %d" % old[0], "UQ 3 1 %d" % old[1]]
    elif style == 2:
        out += ["UQ 0 1 %d" % ks[2], "UQ 3 1 %d" % old[0], "UQ 1 1 %d" % ks[3], "UQ 2 1 %d" % old[1]]
    else:
        out += ["UQ 2 3 %d %d %d" % (old[0], ks[-1], old[1])]
    out.append("T")
    for k in ks:
        out.append("L %d" % k)
    out += ["F", "IQ %d %d %d %d %d %d %d" % ((ks[2],) + glyph_params(rng)), "UQ 3 1 %d" % ks[2], "T"]
    for k in ks:
        out.append("L %d" % k)
    return out


# ------------------------------------------------------------------------------------------
# 3. long runs with the real constants (abstract level)

def long_scripts(rng, tier):
    s = []
    a = rng.randint(2, 40)
    s.append(("lru", [
        "KR 20000 0", "R lru", "F", "IB 1 17000", "F", "UB %d 100 %d" % (a, rng.randint(11, 60)), "L 5", "T",
        "LB 1 17000", "T", "LB 1 17100", "F", "IB 17001 200", "L 17001", "T", "LB 1 17300",
        "F", "DB 17001 50 3", "T", "LB 16900 400"]))
    s.append(("fill", [
        "KR 33000 0", "R fill", "F", "IB 1 32900", "L 32950", "LB 32600 400", "DB %d 100 1" % rng.randint(1, 30000),
        "IB 32901 60", "L 32990", "T", "LB 1 33000", "F", "IB 32961 30", "T", "LB 32900 100"]))
    s.append(("tomb", [
        "KR 20000 64", "R tomb", "F", "IB 1 18000", "DB 1 17000 1", "LB 1 18000", "IB 1 500", "LB 1 600", "T",
        "LB 1 18000", "F", "IB 18001 100", "UB 18001 10 7", "T", "LB 18001 200"]))
    if tier == "thorough":
        for i in range(4):
            w = rng.choice([0, 256, 4096])
            n1 = rng.randint(16500, 19000)
            st = rng.randint(2, 5)
            s.append(("mix%d" % i, [
                "KR 30000 %d" % w, "R mix%d" % i, "F", "IB 1 %d" % n1, "DB 2 %d %d" % (n1 // st - 1, st),
                "LB 1 %d" % n1, "F", "IB %d %d" % (n1 + 1, rng.randint(100, 9000)), "UB 1 200 %d" % (st * 7), "T", "T",
                "LB 1 30000", "F", "IB 29000 500", "T", "LB 28000 2000"]))
    return s


# ------------------------------------------------------------------------------------------
# 4. glyph drawing

OPS = list(range(0, 14)) * 3 + [0x10, 0x13, 0x15, 0x1b, 0x23, 0x25, 0x2b] + list(range(0x30, 0x3f))


def draw_script(rng, name, ncases):
    nk = 12
    out = ["R %s" % name, "F"]
    for k in range(1, nk + 1):
        fmt = [0, 1, 2][k % 3] if rng.random() < 0.7 else rng.choice([0, 1, 2])
        out.append("I %d %d %d %d %d %d %d" % (k, rng.randint(-5, 6), rng.randint(-5, 6), fmt, rng.randint(1, 8),
                                                rng.randint(1, 8), rng.getrandbits(40)))
    for _ in range(ncases):
        mode = rng.choice([0, 1])
        op = rng.choice(OPS)
        dfmt = rng.choice([2, 2, 3, 4, 1])
        dw, dh = rng.randint(6, 20), rng.randint(3, 10)
        nclip = rng.choice([0, 0, 1, 2, 3])
        clips = []
        for _c in range(nclip):
            x1, y1 = rng.randint(-2, dw - 1), rng.randint(-2, dh - 1)
            clips += [x1, y1, x1 + rng.randint(1, dw), y1 + rng.randint(1, dh)]
        skind = rng.choice([0, 0, 1, 1, 2, 3, 4])
        srep = rng.choice([0, 1, 2, 3])
        sw, sh = rng.randint(1, 16), rng.randint(1, 12)
        if skind != 0 and srep == 0 and rng.random() < 0.6:
            sw, sh = dw + 16, dh + 16                   # a source that covers, so that fast paths are eligible
        src_x, src_y = rng.randint(-3, 8), rng.randint(-3, 8)
        mask_x, mask_y = rng.randint(-4, 4), rng.randint(-4, 4)
        dest_x, dest_y = rng.randint(-4, 8), rng.randint(-4, 6)
        width, height = rng.randint(1, 24), rng.randint(1, 12)
        mfmt = rng.choice([0, 1, 1, 2])
        n = rng.choice([0, 1, 2, 3, 4, 6, 8])
        same = rng.random() < 0.3
        kf = rng.randint(1, nk)
        gl = []
        for _g in range(n):
            k = (kf + 3 * _g - 1) % nk + 1 if same else rng.randint(1, nk)   # same: one glyph format throughout
            gl += [k, rng.randint(-8, dw + 6), rng.randint(-8, dh + 6)]
        vals = [mode, op, dfmt, dw, dh, rng.getrandbits(40), nclip] + clips + \
               [skind, srep, sw, sh, rng.getrandbits(40), src_x, src_y, mask_x, mask_y, dest_x, dest_y, width, height,
                mfmt, n] + gl
        out.append("G " + " ".join(map(str, vals)))
    out.append("T")
    return out


# glyph formats (indices of drv_glyph.c's fmt_code table): every format with an alpha channel that pixman offers for
# a glyph image -- a8 a1 a4 x4a4, the four 32-bit channel orders, sRGB, 10-bit, 16-bit, 8-bit, 4-bit ARGB/ABGR,
# rgba_float -- plus two without alpha; mask formats for pixman_composite_glyphs likewise
GLYPH_FMTS = [1, 0, 5, 20, 2, 6, 7, 8, 9, 10, 14, 11, 16, 12, 17, 15, 18, 13, 3, 19]
MASK_FMTS = [1, 0, 5, 20, 2, 6, 7, 8, 9, 10, 14, 11, 16, 12, 17, 15, 18, 13, 3]
FMT_OPS = [3, 12, 1, 6]            # OVER, ADD, SRC, IN_REVERSE


def g_line(rng, mode, op, mfmt, glyphs, dfmt=None, clip=False):
    dfmt = dfmt if dfmt is not None else rng.choice([2, 2, 3, 4, 1])
    dw, dh = rng.randint(10, 20), rng.randint(6, 10)
    clips = []
    if clip:
        x1, y1 = rng.randint(0, dw // 2), rng.randint(0, dh // 2)
        clips = [x1, y1, x1 + rng.randint(2, dw), y1 + rng.randint(2, dh)]
    skind = rng.choice([0, 0, 1, 4])
    sw, sh = (dw + 16, dh + 16) if rng.random() < 0.5 else (rng.randint(1, 8), rng.randint(1, 8))
    vals = [mode, op, dfmt, dw, dh, rng.getrandbits(40), len(clips) // 4] + clips + \
           [skind, rng.choice([0, 1, 2, 3]), sw, sh, rng.getrandbits(40), rng.randint(0, 4), rng.randint(0, 4),
            rng.randint(-2, 2), rng.randint(-2, 2), rng.randint(-2, 3), rng.randint(-2, 3),
            rng.randint(6, 22), rng.randint(4, 11), mfmt, len(glyphs)]
    for k in glyphs:
        vals += [k, rng.randint(-3, dw - 2), rng.randint(-3, dh - 2)]
    return "G " + " ".join(map(str, vals))


def format_script(rng, name):
    """the drawing half, systematic over glyph formats x operators (no_mask), mask formats x operators and
       glyph format x mask format (through a mask); colour channels differ from alpha (random pixels)"""
    nk = len(GLYPH_FMTS)
    out = ["R %s" % name, "F"]
    for k, f in enumerate(GLYPH_FMTS, 1):
        out.append("I %d %d %d %d %d %d %d" % (k, rng.randint(-3, 4), rng.randint(-3, 4), f, rng.randint(3, 8),
                                                rng.randint(2, 6), rng.getrandbits(40)))
    for k in range(1, nk + 1):
        for op in FMT_OPS:
            out.append(g_line(rng, 0, op, 1, [k, k], clip=rng.random() < 0.3))
    for m in MASK_FMTS:
        for op in FMT_OPS:
            ks = rng.sample(range(1, nk + 1), 3)
            if m in GLYPH_FMTS:
                ks.append(GLYPH_FMTS.index(m) + 1)
            out.append(g_line(rng, 1, op, m, ks, clip=rng.random() < 0.3))
    i = 0
    for k in range(1, nk + 1):
        for m in MASK_FMTS:
            out.append(g_line(rng, 1, FMT_OPS[i % 4], m, [k, k]))
            i += 1
    out.append("T")
    return out, nk


# ------------------------------------------------------------------------------------------

def run_driver(exe, script_lines, path):
    sp = path + ".script"
    with open(sp, "w") as f:
        f.write("\n".join(script_lines) + "\n")
    p = vf.sh([exe, sp, path], timeout=1200, check=False)
    if p.returncode != 0:
        raise vf.Infra("drv_glyph failed rc=%d on %s: %s" % (p.returncode, sp, (p.stdout or "")[-1000:]))
    return path


def count_small(chk, tracefile):
    for line in open(tracefile):
        if line.startswith('{"e":"Reset"') or line.startswith('{"e":"Keys"'):
            continue
        chk.evaluations += 1
        try:
            ev = json.loads(line)
        except ValueError:
            continue
        kinds = chk.extra.setdefault("events_by_kind", {})
        kinds[ev["e"]] = kinds.get(ev["e"], 0) + 1
        if "slots" in ev:
            sl = ev["slots"]
            nonnull = sum(1 for x in sl if x != 0)
            mx = chk.extra.get("max_occupied_slots_seen", 0)
            chk.extra["max_occupied_slots_seen"] = max(mx, nonnull)
            if ev["e"] == "Insert" and not ev["ret"]:
                chk.extra["refused_inserts_seen"] = chk.extra.get("refused_inserts_seen", 0) + 1
            chk.distinct_keys.add(hash((ev["e"], ev.get("ret"), tuple(sl), tuple(ev["mru"]), ev["ctr"][2])))
        elif ev["e"] == "Glyphs":
            chk.extra["glyph_drawings"] = chk.extra.get("glyph_drawings", 0) + 1
            chk.distinct_keys.add(hash(line))
        else:
            chk.distinct_keys.add(hash(line[:400]))


def save_scripts(chk, scripts_by_name, metas):
    """keep the script next to a saved replay so that --replay can re-execute it"""
    for v in chk.violations:
        try:
            lines = open(v["replay"]).read().splitlines()
            name = json.loads(lines[0]).get("scenario")
            if name in scripts_by_name:
                open(v["replay"] + ".script", "w").write("\n".join(scripts_by_name[name]) + "\n")
                json.dump(metas[name], open(v["replay"] + ".meta", "w"))
        except Exception:
            pass


def run(prop, args):
    chk = vf.Check(prop, args.tier, args.seed)
    rng = random.Random(args.seed * 1000003 + 17)
    quick = args.tier == "quick"
    wd = vf.workdir("glyph")
    cfg_ref = os.path.join(vf.SPEC, "trace", "GlyphTrace.cfg")
    cfg_abs = os.path.join(vf.SPEC, "trace", "GlyphMapTrace.cfg")

    if args.replay:
        script = args.replay if args.replay.endswith(".script") else args.replay + ".script"
        meta = json.load(open(script[:-7] + ".meta"))
        exe, px = vf.build_driver("drv_glyph", meta["flavour"])
        tr = run_driver(exe, open(script).read().splitlines(), os.path.join(wd, "replay.ndjson"))
        vf.validate_batches(chk, meta["module"], [tr], cfg=cfg_ref if meta["module"] == "GlyphTrace" else cfg_abs,
                            parallel=1)
        return chk.finish()

    # 1. design-level model checking (independent of the implementation; VERIF_GLYPH_SKIP_MC=1 skips it when a
    #    series of mutants is evaluated -- the evidence then says so)
    if os.environ.get("VERIF_GLYPH_SKIP_MC") == "1":
        chk.extra["model_checking"] = "skipped (VERIF_GLYPH_SKIP_MC)"
    else:
        mc(chk, args.tier)
    vf.log("C17: model checking done (%.0fs)" % (time.time() - chk.t0))

    # 2. scripts for the small table
    small = []                 # (key line, [executions]) -> one trace file each (one key table per file)
    scripts, metas = {}, {}

    def reg(name, lines, keyline, flavour, module):
        scripts[name] = [keyline, "R " + name] + lines
        metas[name] = {"flavour": flavour, "module": module}

    cls3 = [6, 6, 0]
    behs, r = tlc_behaviours(wd, cls3, 1, 4 if quick else 5, tag="ggen-bfs")
    chk.add_tlc(r, "behaviour enumeration (GlyphGen, breadth-first, every behaviour of the depth)")
    chk.extra["tlc_enumerated_behaviours"] = len(behs)
    chk.sample({"tlc_enumerated_behaviour": behs[len(behs) // 2]})
    ex = [beh_to_script(b, "bfs%d" % i, rng) for i, b in enumerate(behs)]
    nparts = 2 if quick else 8
    for p in range(nparts):
        small.append((key_line(cls3), ex[p::nparts]))

    cls10 = [6, 6, 6, 0, 0, 3, 3, 6, 0, 6]
    fonts10 = [0, 0, 1, 0, 2, 0, 0, 2, 1, 1]
    behs, r = tlc_behaviours(wd, cls10, 2, 60 if quick else 80, generate=240 if quick else 3000, seed=args.seed,
                             tag="ggen-sim")
    chk.add_tlc(r, "behaviour generation (GlyphGen, -generate)")
    chk.extra["tlc_generated_behaviours"] = len(behs)
    chk.sample({"tlc_generated_behaviour": " ".join("%s%d" % (c["op"], c["k"]) for c in behs[0])})
    ex = [beh_to_script(b, "gen%d" % i, rng) for i, b in enumerate(behs)]
    nparts = 3 if quick else 10
    for p in range(nparts):
        small.append((key_line(cls10, fonts10), ex[p::nparts]))

    # client-like seeded scripts: 12 keys, three classes (the run of class 6 wraps into class 0), keys 11 and 12
    # collide with keys 1 and 4 in the full hash (same font_key + glyph_key)
    # in the full hash (same font_key + glyph_key); keys 13 and 14 are the glyph keys of keys 2 and 6 under another font
    cls12 = [6, 6, 6, 0, 0, 3, 3, 7, 5, 6, -2, -5, -102, -106]
    fonts12 = [0, 0, 1, 0, 2, 0, 0, 2, 1, 1, 1, 1, 2, 1]
    nk12 = len(cls12)
    ex = []
    for i in range(40 if quick else 600):
        ex.append(client_script(rng, "cli%d" % i, nk12, rng.choice([30, 80, 200])))
    for i in range(6 if quick else 40):
        ex.append(fill_script("fill%d" % i, nk12, rng))
    for i in range(12 if quick else 80):
        ex.append(clip_script("clip%d" % i, nk12, rng))
    nparts = 3 if quick else 10
    for p in range(nparts):
        small.append((key_line(cls12, fonts12), ex[p::nparts]))

    for kl, exs in small:
        for e in exs:
            reg(e[0][2:], e[1:], kl, "smallglyph", "GlyphTrace")
    chk.extra["executions_small_table"] = sum(len(e) for _k, e in small)

    # 3. execute on the real library built from the repository's working tree
    exe_s, px_s = vf.build_driver("drv_glyph", "smallglyph")
    exe_p, px_p = vf.build_driver("drv_glyph", "plain")
    chk.extra["build"] = {"smallglyph": px_s["hash"], "plain": px_p["hash"]}
    traces_small = []
    for i, (kl, exs) in enumerate(small):
        lines = [kl]
        for e in exs:
            lines += e
        traces_small.append(run_driver(exe_s, lines, os.path.join(wd, "s%d.ndjson" % i)))
    if not quick:
        exe_a, px_a = vf.build_driver("drv_glyph", "smallglyph-asan")
        chk.extra["build"]["smallglyph-asan"] = px_a["hash"]
        for i, (kl, exs) in enumerate(small[-10:]):
            lines = [kl]
            for e in exs:
                lines += e
            traces_small.append(run_driver(exe_a, lines, os.path.join(wd, "sa%d.ndjson" % i)))

    traces_abs = []
    for name, lines in long_scripts(rng, args.tier):
        scripts[name] = lines
        metas[name] = {"flavour": "plain", "module": "GlyphMapTrace"}
        traces_abs.append(run_driver(exe_p, lines, os.path.join(wd, "p-%s.ndjson" % name)))
    ndraw_files = 4 if quick else 12
    ncases = 450 if quick else 2500
    kl = key_line([-1] * 12)
    for i in range(ndraw_files):
        lines = draw_script(rng, "draw%d" % i, ncases)
        reg("draw%d" % i, lines[1:], kl, "plain", "GlyphMapTrace")
        traces_abs.append(run_driver(exe_p, [kl] + lines, os.path.join(wd, "d%d.ndjson" % i)))
    vf.log("C17: %d small-table executions, %d long/drawing traces recorded (%.0fs)"
           % (chk.extra["executions_small_table"], len(traces_abs), time.time() - chk.t0))
    for i in range(1 if quick else 4):
        lines, nkf = format_script(rng, "fmt%d" % i)
        klf = key_line([-1] * nkf)
        reg("fmt%d" % i, lines[1:], klf, "plain", "GlyphMapTrace")
        traces_abs.append(run_driver(exe_p, [klf] + lines, os.path.join(wd, "f%d.ndjson" % i)))
    chk.extra["glyph_formats_drawn"] = len(GLYPH_FMTS)
    chk.extra["mask_formats_drawn"] = len(MASK_FMTS)
    for t in traces_small + traces_abs:
        count_small(chk, t)
    chk.sample({"script_lines": scripts["fill0"][:12]})

    # 4. trace validation.  VF:policy notes (level (B) of GlyphTrace: the table layout departs from the linear-probing
    #    model) are recorded in the evidence; they are not violations.
    notes = []
    orig = vf.tlc_trace

    def noting(*a, **k):
        res = orig(*a, **k)
        notes.extend(res[3].vf("policy"))
        return res

    vf.tlc_trace = noting
    try:
        vf.validate_batches(chk, "GlyphTrace", traces_small, cfg=cfg_ref, parallel=8, timeout=1500, label="refined")
        vf.log("C17: small-table trace validation done (%.0fs)" % (time.time() - chk.t0))
        vf.validate_batches(chk, "GlyphMapTrace", traces_abs, cfg=cfg_abs, parallel=8, timeout=1500, label="abstract",
                            xmx="6g")
    finally:
        vf.tlc_trace = orig
    chk.extra["layout_model"] = ("every logged table state / counter is the one the linear-probing + tombstone model of GlyphCache.tla predicts"
                                 if not notes else
                                 "NOTE (not a violation): %d executions depart from the linear-probing / tombstone model of "
                                 "GlyphCache.tla (%d in the table layout, %d in the tombstone bookkeeping of runs without "
                                 "dumps); they were validated at the property level only; first at event %s"
                                 % (len(notes), sum(1 for x in notes if "layout" in x),
                                    sum(1 for x in notes if "tombstones" in x), notes[0][:60]))
    if notes:
        vf.log("C17: " + chk.extra["layout_model"])
    save_scripts(chk, scripts, metas)

    if not args.keep and not chk.violations:
        shutil.rmtree(wd, ignore_errors=True)
    chk.extra["rule"] = ("a case is one logged API call (batched events count once); distinct = distinct (call, result, "
                         "table dump, mru order, freeze) on the small table, distinct drawing case / batched event otherwise")
    chk.assumptions += [
        "API preconditions of pixman-glyph.c: insert only inside a freeze and only of a key that is not present "
        "(clients look up first), thaw only after freeze; allocation does not fail",
        "'used' means inserted or passed to a drawing call that touches the destination; drawing calls in cache "
        "histories place every glyph inside the destination",
        "the Composite32 steps of the drawing fold are executed by the same library (the compositing equations are "
        "property C01's subject); the glyph-drawing claim is the equality of the two routes, as the statement phrases it",
        "hook H1 (_pixman_verif_glyph_dump/_hash, water marks overridable) reports the table faithfully; HASH_SIZE "
        "stays derived as in the source",
        "TLC/SANY and the CommunityModules Json/IOUtils readers are trusted"]
    return chk.finish()
