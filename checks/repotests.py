# Traces of the repository's own test programs (hook H5: PIXMAN_VERIF_TRACE file sink), shared by the thorough tiers
# of C02 (every Lookup obeys the cache/table model) and C09 (every operator reduction is valid in its opacity cell).
import os

import vf

TESTS = [("blitters-test", ["1", "1500"]), ("scaling-test", ["1", "500"]), ("affine-test", ["1", "500"]),
         ("composite-traps-test", ["1", "200"]), ("glyph-test", ["1", "200"]), ("rotate-test", []),
         ("alphamap", []), ("cover-test", ["1", "300"]), ("pdf-op-test", [])]


def traces(wd, max_events=6000, disable=""):
    exes = vf.build_repo_tests([t for t, _ in TESTS], "plain")
    out = []
    for name, argv in TESTS:
        tr = os.path.join(wd, "repo-%s.ndjson" % name)
        env = {"PIXMAN_VERIF_TRACE": tr, "PIXMAN_VERIF_TRACE_MAX": str(max_events), "PIXMAN_DISABLE": disable}
        e = dict(os.environ)
        e.update(env)
        p = vf.sh([exes[name]] + argv, env=e, timeout=900, check=False)
        if not os.path.exists(tr) or os.path.getsize(tr) == 0:
            continue
        out.append((name, tr))
    return out
