# C20: image lifetime against the lifetime part of spec/Image.tla.
#   MC   spec/mc/LifeMC       exhaustive small-scope check of the reference/ownership design + negative configs
#   GEN  spec/gen/LifeGen     all behaviours of a small depth (breadth-first) and -generate behaviours of depth ~25,
#                             each ending with the client dropping everything it owns
#                             pressure mode (PressSpec): histories of one glyph cache that bring its table into each of
#                             the situations an outermost thaw distinguishes (Image!GPressureClasses) and thaw it there
#   EXEC harness/drv_life.c   (+ life_alloc.c, --wrap=malloc/calloc/realloc/free) on the ASan build of /repo; the
#                             pressure histories on an ASan build with water marks 8 / 3 (16 slots)
#   TV   spec/trace/LifeTrace every recorded call, with the allocations, reference-count reports and destroy
#                             callbacks inside it, validated by TLC
import json
import os
import random

import vf

PROPS = {"C20": "C20"}

CLAIMS = {
    "C20": dict(
        technique="TLA+ Image spec (lifetime part): TLC model checking of reference/ownership invariants + "
                  "TLC-generated call histories replayed on the ASan build with malloc/free interposition + "
                  "trace validation by TLC",
        text="spec/Image.tla models reference counts, owned buffers, alpha-map attachment (reference exchange, chain "
             "refusal), destroy callbacks and glyph-cache copies. TLC checks exhaustively (3 images to depth 7-9, 2 "
             "images without bound) that references are accounted for, attached maps stay alive, there are no chains, "
             "every buffer is freed exactly once in the unref that returns TRUE, the callback runs once before the "
             "frees and nothing is left when the client has dropped everything; ten wrong designs are rejected. Every "
             "call history of depth 3 and random histories of depth 25 are replayed on the real library; TLC "
             "validates each call's unref return value, hook-reported counts, callbacks and the live-allocation set. " + 'Directed histories: every ordered pair of concrete setter values (incl. a zero-length parameter block) on every image kind, and one alpha map shared by two holders released in every order.' + " Glyph-cache pressure: histories generated from the specification thaw a cache whose table is below the high-water mark, above it (eviction to the low-water mark), tombstone-dominated with few and with many live glyphs (ASan build with marks 8/3 where all of these are reachable; the situations actually recorded are measured from the library's counters and a missing one is a vacuous run); every copy the thaw lets go must be released once and completely, the survivors are drawn, removed or left to destroy, and nothing is live at the end.",
        ref="5 C20"),
}

# A build whose water marks leave room for every situation an outermost thaw distinguishes: with the stock small-table
# flavour (4 / 2, 8 slots, at most 7 of them occupied) a table cannot hold more tombstones than the high-water mark AND
# more live glyphs than the low-water mark; that needs low <= high - 3.  (Flavours are looked up by name in vf.FLAVOURS;
# this one belongs to this check, so it is registered here rather than in lib/vf.py.)
G_HIGH, G_LOW = 8, 3
PRESSURE_FLAVOUR = "glyph%dx%d-asan" % (G_HIGH, G_LOW)
vf.FLAVOURS.setdefault(PRESSURE_FLAVOUR, (
    ["-D" + vf.GUARD, "-DPIXMAN_VERIF_GLYPH_HIGH_WATER=%d" % G_HIGH, "-DPIXMAN_VERIF_GLYPH_LOW_WATER=%d" % G_LOW,
     "-fsanitize=address", "-fno-omit-frame-pointer", "-O1"],
    ["-Db_lundef=false"], ["-fsanitize=address", "-fno-omit-frame-pointer"]))
PRESSURE_CLASSES = ["below", "evict", "settled", "dump", "dump_over"]      # Image!GPressureClasses


def pressure_class(g, t, high, low):
    """Image!GPressure, used only to MEASURE which situations the recorded thaws were in"""
    if g + t <= high:
        return "below"
    if t > high:
        return "dump_over" if g > low else "dump"
    return "evict" if g > low else "settled"


LDFLAGS = ["-Wl,--wrap=malloc,--wrap=calloc,--wrap=realloc,--wrap=free"]
NEGATIVE = ["leak_old_map", "no_ref_new", "selfattach", "cb_after_frees", "cb_twice", "no_free_bits",
            "filter_leak", "transform_leak", "glyph_leak", "fini_keeps_map", "cache_destroy_leaks_glyphs",
            "bad_insert_keeps_entry"]
NCV = {"create": 8, "alpha": 2, "transform": 3, "filter": 4, "clip": 4, "ginsert": 4}


def mc(chk, tier):
    base = os.path.join(vf.SPEC, "mc")
    mod = os.path.join(base, "LifeMC.tla")
    runs = [("LifeMC.cfg", False)]
    if tier == "thorough":
        runs += [("LifeMC_d9.cfg", False), ("LifeMC_2img.cfg", False)]
    runs += [("LifeMC_neg_%s.cfg" % b, True) for b in NEGATIVE]
    rejected = []
    for cfg, neg in runs:
        r = vf.tlc_mc(mod, cfg=os.path.join(base, cfg), workers=8 if not neg else 2, timeout=1500,
                      expect_violation=neg)
        chk.add_tlc(r, ("negative config (must be rejected) " if neg else "model check ") + cfg)
        if neg:
            rejected.append("%s: %s" % (cfg, r.inv_violation.group(1) if r.inv_violation else "rejected"))
        elif r.inv_violation or r.deadlock:
            raise vf.Infra("the lifetime model itself violates an invariant under %s:\n%s" % (cfg, r.out[-2500:]))
    chk.extra["negative_configs_rejected"] = rejected


def gen(mode, depth, seed, n=0, img="{1, 2, 3}", gkeys="{1, 2}", maxheld=3, tag="lgen"):
    """behaviours (lists of call records) from spec/gen/LifeGen.tla; mode 'bfs' = all of that depth."""
    path = os.path.join(vf.SPEC, "gen", "LifeGen.tla")
    cfg = os.path.join(vf.workdir(tag), "LifeGen.cfg")
    open(cfg, "w").write("SPECIFICATION GenSpec\nCONSTANTS\n  Img = %s\n  GKeys = %s\n  MaxHeld = %d\n  Bugs = {}\n"
                         "  Depth = %d\n  GHigh = 4\n  GLow = 2\n  Goal = \"\"\nINVARIANT EmitBehaviour\n"
                         % (img, gkeys, maxheld, depth))
    if mode == "bfs":
        r = vf.run_tlc(path, cfg=cfg, workers=4, timeout=1500, xmx="6g", tag=tag)
    else:
        r = vf.run_tlc(path, cfg=cfg, workers=4, timeout=900, tag=tag,
                       extra=["-generate", "num=%d" % max(1, n), "-depth", str(8 * depth + 40), "-seed", str(seed)])
    seen, behs = set(), []
    for b in r.vf("behaviour"):
        if b in seen:
            continue
        seen.add(b)
        behs.append(json.loads(json.loads(b)))
    if not behs:
        raise vf.Infra("LifeGen produced no behaviours:\n" + r.out[-2000:])
    return behs, r


def gen_pressure(goal, seed, n, tag="lgenp"):
    """histories of one glyph cache thawed in situation `goal` (spec/gen/LifeGen.tla, PressSpec)"""
    path = os.path.join(vf.SPEC, "gen", "LifeGen.tla")
    cfg = os.path.join(vf.workdir(tag), "LifePress_%s.cfg" % goal)
    open(cfg, "w").write("SPECIFICATION PressSpec\nCONSTANTS\n  Img = {1}\n  GKeys = {%s}\n  MaxHeld = 1\n  Bugs = {}\n"
                         "  Depth = 0\n  GHigh = %d\n  GLow = %d\n  Goal = \"%s\"\nINVARIANT EmitPressure\n"
                         % (", ".join(str(k) for k in range(1, 2 * G_HIGH)), G_HIGH, G_LOW, goal))
    r = vf.run_tlc(path, cfg=cfg, workers=2, timeout=600, tag=tag + goal,
                   extra=["-generate", "num=%d" % n, "-depth", "600", "-seed", str(seed)])
    seen, behs = set(), []
    for b in r.vf("behaviour"):
        if b not in seen:
            seen.add(b)
            behs.append(json.loads(json.loads(b)))
    return behs, r


def to_script(beh, name, rng):
    out = ["reset %s" % name]
    for c in beh:
        cv = rng.randrange(NCV.get(c["op"], 1))
        out.append("%s %d %d %d %d" % (c["op"], c["i"], c["j"], c["v"], cv))
    out.append("end")
    return out


# implementation-shaped histories the random generator reaches only rarely
HANDWRITTEN = [
    # a map kept alive only by the attachment; the holder's release cascades to the map (two callbacks in one unref)
    ["create 1 0 1 0", "create 2 0 2 1", "destroyfn 1 0 1 0", "destroyfn 2 0 2 0", "alpha 1 2 0 0", "unref 2 0 0 0",
     "use 1 0 0 0", "ref 2 0 0 0", "unref 2 0 0 0", "unref 1 0 0 0"],
    # re-attachment: A -> B, same map twice, detach, map shared by two holders
    ["create 1 0 1 0", "create 2 0 1 1", "create 3 0 1 2", "alpha 1 2 0 0", "alpha 1 2 0 1", "alpha 1 3 0 0",
     "alpha 2 3 0 0", "unref 3 0 0 0", "alpha 1 0 0 0", "use 2 0 0 0", "unref 2 0 0 0", "unref 1 0 0 0"],
    # chains must be refused in both directions, and an image is not its own alpha map
    ["create 1 0 1 0", "create 2 0 1 0", "create 3 0 2 0", "alpha 1 2 0 0", "alpha 2 3 0 0", "alpha 3 1 0 0",
     "alpha 1 1 0 0", "alpha 3 3 0 0", "use 3 0 0 0", "unref 3 0 0 0", "unref 2 0 0 0", "use 1 0 0 0", "unref 1 0 0 0"],
    # DESIGN.md 6 #8: the holder dies while the map is attached; the map is then (over-)refused a map of its own
    ["create 1 0 1 0", "create 2 0 1 0", "create 3 0 1 0", "alpha 1 2 0 0", "unref 1 0 0 0", "alpha 2 3 0 0",
     "alpha 2 0 0 0", "unref 3 0 0 0", "unref 2 0 0 0"],
    # every owned buffer replaced several times, every clip path, on every image type
    ["create 1 0 4 1", "transform 1 0 1 0", "transform 1 0 1 1", "transform 1 0 0 1", "transform 1 0 1 2",
     "filter 1 0 1 0", "filter 1 0 1 1", "filter 1 0 0 0", "filter 1 0 0 0", "filter 1 0 1 2", "clip 1 0 2 0",
     "clip 1 0 2 1", "clip 1 0 2 2", "clip 1 0 0 0", "clip 1 0 1 2", "clip 1 0 2 3", "clip 1 0 1 1", "clip 1 0 2 0",
     "use 1 0 0 0", "ref 1 0 0 0", "unref 1 0 0 0", "unref 1 0 0 0"],
    # glyph cache: the cache owns a copy, the argument image may go first; destroy releases what is left
    ["gcreate 0 0 0 0", "create 1 0 1 0", "create 2 0 2 3", "alpha 1 2 0 0", "ginsert 1 1 0 0", "ginsert 2 2 0 0",
     "glookup 0 1 0 0", "gcomp 0 0 0 0", "unref 1 0 0 0", "gcomp 0 0 1 0", "gremove 0 1 0 0", "gremove 0 1 0 0",
     "glookup 0 1 0 0", "unref 2 0 0 0", "gdestroy 0 0 0 0"],
    # an insert whose private copy cannot be made, followed by every kind of operation on the same cache
    ["gcreate 0 0 0 0", "create 1 0 1 0", "ginsert 1 1 0 0", "gbad 0 2 0 0", "ginsert 1 2 0 0", "gcomp 0 0 0 0",
     "gcomp 0 0 1 0", "gbad 0 3 0 0", "gremove 0 1 0 0", "gthaw 0 0 0 0", "gremove 0 1 0 0", "gremove 0 2 0 0",
     "gbad 0 1 0 0", "ginsert 1 1 0 1", "gcomp 0 0 0 0", "unref 1 0 0 0", "gdestroy 0 0 0 0"],
    ["gcreate 0 0 0 0", "gbad 0 1 0 0", "gdestroy 0 0 0 0", "gcreate 0 0 0 0", "gbad 0 1 0 0", "gbad 0 1 0 0",
     "create 1 0 2 0", "ginsert 1 1 0 0", "unref 1 0 0 0", "gthaw 0 0 0 0", "gremove 0 1 0 0", "gdestroy 0 0 0 0"],
]




def shared_map_histories():
    """one alpha map attached to two images at once: every order in which the three references are dropped (holders
       destroyed while attached, the map kept alive by the attachments alone, or outliving them), with and without a
       detach first, destroy callbacks on all three, a use in between"""
    import itertools
    out = []
    for kind_m in (1, 2):
        for order in itertools.permutations([1, 2, 3]):
            for detach in (0, 1, 2):
                h = ["create 1 0 1 0", "create 2 0 %d 1" % (1 + detach % 2), "create 3 0 %d 2" % kind_m,
                     "destroyfn 1 0 1 0", "destroyfn 2 0 2 0", "destroyfn 3 0 1 0", "alpha 1 3 0 0", "alpha 2 3 0 1", "use 1 0 0 0"]
                if detach:
                    h.append("alpha %d 0 0 0" % detach)
                for k, i in enumerate(order):
                    h.append("unref %d 0 0 0" % i)
                    if k == 0:
                        alive = [j for j in (1, 2) if j != i]
                        h.append("use %d 0 0 0" % alive[0])
                out.append(h)
    return out


def setter_pair_histories():
    """Owned buffers are exchanged by the setters: every ordered pair, and every triple with a detour over "none", of the
       concrete presentations of a value (NULL / given, each kernel, a parameter block of length 0, each matrix, each clip
       shape) applied to one image of every kind, with and without a use in between, then released."""
    out = []
    vals = {"filter": [(0, 0), (0, 1), (1, 0), (1, 1), (1, 2), (1, 3)],
            "transform": [(0, 0), (0, 1), (1, 0), (1, 1), (1, 2)],
            "clip": [(0, 0), (1, 0), (1, 1), (2, 0), (2, 1), (2, 2), (2, 3)]}
    kind = 0
    for op, vs in vals.items():
        for a in vs:
            for b in vs:
                kind += 1
                for use in (0, 1):
                    h = ["create 1 0 %d %d" % (1 + kind % 5, kind % 8), "%s 1 0 %d %d" % (op, a[0], a[1])]
                    if use:
                        h.append("use 1 0 0 0")
                    h += ["%s 1 0 %d %d" % (op, b[0], b[1]), "use 1 0 0 0", "%s 1 0 %d %d" % (op, a[0], a[1]), "unref 1 0 0 0"]
                    out.append(h)
    return out


# thaw evicting glyphs: needs more glyphs than the high-water mark, so these run on the build whose marks are 4 / 2
EVICTION = [
    ["gcreate 0 0 0 0", "create 1 0 1 0"] + ["ginsert 1 %d 0 0" % k for k in (1, 2, 3, 4, 5)] +
    ["gcomp 0 0 0 0", "gthaw 0 0 0 0"] + ["gremove 0 %d 0 0" % k for k in (1, 2, 3, 4, 5, 6)] +
    ["ginsert 1 2 0 0", "ginsert 1 6 0 1", "unref 1 0 0 0", "gdestroy 0 0 0 0"],
    ["gcreate 0 0 0 0", "create 1 0 2 1", "create 2 0 1 2"] + ["ginsert %d %d 0 0" % (1 + k % 2, k) for k in (1, 2, 3, 4, 5, 6)] +
    ["gremove 0 3 0 0", "gbad 0 3 0 0", "gthaw 0 0 0 0"] + ["gremove 0 %d 0 0" % k for k in (1, 2, 3, 4, 5, 6)] +
    ["gbad 0 1 0 0"] + ["ginsert 2 %d 0 0" % k for k in (1, 2, 3, 4, 5)] +
    ["unref 1 0 0 0", "gcomp 0 0 1 0", "unref 2 0 0 0", "gdestroy 0 0 0 0"],
]


def count_events(chk, tracefile):
    ops = chk.extra.setdefault("events_by_op", {})
    subs = chk.extra.setdefault("sub_events", {"M": 0, "F": 0, "R": 0, "U": 0, "D": 0})
    for line in open(tracefile):
        if not line.startswith('{"e":"Op"'):
            continue
        chk.evaluations += 1
        try:
            ev = json.loads(line)
        except ValueError:
            continue
        ops[ev["op"]] = ops.get(ev["op"], 0) + 1
        shape = []
        for s in ev["sub"]:
            subs[s["k"]] = subs.get(s["k"], 0) + 1
            shape.append(s["k"] if s["k"] in "MF" else "%s%d.%d.%d" % (s["k"], s["a"], s["b"], s["c"]))
        if ev["sub"]:
            chk.distinct_keys.add(hash((ev["op"], ev["i"], ev["j"], ev["v"], ev["ret"], tuple(shape))))


def run(prop, args):
    chk = vf.Check(prop, args.tier, args.seed)
    rng = random.Random(args.seed * 1000003 + 20)
    quick = args.tier == "quick"
    wd = vf.workdir("life")
    cfg = os.path.join(vf.SPEC, "trace", "LifeTrace.cfg")
    env = {"ASAN_OPTIONS": "detect_leaks=0:abort_on_error=1:handle_abort=0:allocator_may_return_null=1"}

    def execute(script_path, trace_path, flavour="asan"):
        exe, px = vf.build_driver("drv_life", flavour, extra_src=["life_alloc.c"], ldflags=LDFLAGS)
        e = dict(os.environ)
        e.update(env)
        p = vf.sh([exe, script_path, trace_path], timeout=900, check=False, env=e)
        if p.returncode != 0:
            data = open(trace_path).read()
            if '"e":"Crash"' not in data[-300:]:
                if p.returncode < 0 or p.returncode > 128:
                    # killed by a signal whose handler could not run (e.g. stack exhaustion): record the fact,
                    # TLC decides what an execution that stops here means
                    with open(trace_path, "a") as f:
                        f.write(("" if data.endswith("\n") or not data else "\n") +
                                '{"e":"Crash","sig":%d}\n' % (abs(p.returncode) & 127))
                else:
                    raise vf.Infra("drv_life failed rc=%d without recording a crash: %s"
                                   % (p.returncode, p.stdout[-1500:]))
        return px

    if args.replay:
        script = args.replay if args.replay.endswith(".script") else args.replay + ".script"
        tr = os.path.join(wd, "replay.ndjson")
        first = open(script).readline()
        execute(script, tr, flavour=PRESSURE_FLAVOUR if " press_" in first else
                "smallglyph-asan" if " evict" in first else "asan")
        vf.validate_batches(chk, "LifeTrace", [tr], cfg=cfg, parallel=1)
        return chk.finish()

    # 1. design-level model checking
    mc(chk, args.tier)

    # 2. behaviours from the specification
    execs = []
    bfs, r = gen("bfs", 3 if quick else 4, args.seed, img="{1, 2}", gkeys="{1}", maxheld=2, tag="lgenb")
    chk.add_tlc(r, "behaviour generation (LifeGen, breadth-first: all behaviours of depth %d)" % (3 if quick else 4))
    chk.extra["breadth_first_behaviours_generated"] = len(bfs)
    if len(bfs) > 60000:
        bfs = rng.sample(bfs, 60000)
    rnd, r = gen("generate", 25, args.seed, n=300 if quick else 6000)
    chk.add_tlc(r, "behaviour generation (LifeGen, -generate depth 25)")
    chk.sample({"tlc_generated_behaviour": rnd[0][:8]})
    for k, b in enumerate(bfs):
        execs.append(to_script(b, "bfs%d" % k, rng))
    for k, b in enumerate(rnd):
        execs.append(to_script(b, "gen%d" % k, rng))
    for k, h in enumerate(HANDWRITTEN):
        execs.append(["reset hand%d" % k] + h + ["end"])
    sp_h = setter_pair_histories()
    for k, h in enumerate(sp_h):
        execs.append(["reset pair%d" % k] + h + ["end"])
    sm_h = shared_map_histories()
    for k, h in enumerate(sm_h):
        execs.append(["reset smap%d" % k] + h + ["end"])
    chk.extra["executions"] = len(execs)
    chk.extra["tlc_generated_behaviours"] = {"breadth_first": len(bfs), "generate_depth25": len(rnd),
                                             "handwritten": len(HANDWRITTEN), "setter_value_pairs": len(sp_h), "shared_alpha_map_histories": len(sm_h)}

    # 3. execute on the real library (ASan build of /repo's working tree)
    nb = 8 if quick else 12
    traces = []
    px = None
    for bi in range(nb):
        part = execs[bi::nb]
        if not part:
            continue
        sp = os.path.join(wd, "b%d.ndjson.script" % bi)
        with open(sp, "w") as f:
            for e in part:
                f.write("\n".join(e) + "\n")
        tr = os.path.join(wd, "b%d.ndjson" % bi)
        px = execute(sp, tr)
        traces.append(tr)
        count_events(chk, tr)
    # thaw eviction on the small-table build
    sp = os.path.join(wd, "evict.ndjson.script")
    with open(sp, "w") as f:
        for k, h in enumerate(EVICTION):
            f.write("\n".join(["reset evict%d" % k] + h + ["end"]) + "\n")
    tr = os.path.join(wd, "evict.ndjson")
    execute(sp, tr, flavour="smallglyph-asan")
    traces.append(tr)
    count_events(chk, tr)
    for k, h in enumerate(EVICTION):
        execs.append(["reset evict%d" % k] + h + ["end"])
    # every situation an outermost thaw distinguishes, on the build whose water marks make all of them reachable
    npress = 6 if quick else 60
    pexecs = []
    from concurrent.futures import ThreadPoolExecutor
    with ThreadPoolExecutor(len(PRESSURE_CLASSES)) as ex:      # (a goal that needs few live glyphs gets stuck more often)
        gens = list(ex.map(lambda a: gen_pressure(a[1], args.seed + a[0], 3 * npress, tag="lgenp%d" % a[0]),
                           enumerate(PRESSURE_CLASSES)))
    for gi, goal in enumerate(PRESSURE_CLASSES):
        behs, r = gens[gi]
        behs = behs[:npress]
        chk.add_tlc(r, "behaviour generation (LifeGen pressure mode, thaw in situation '%s')" % goal)
        if not behs:
            raise vf.Infra("LifeGen (pressure mode) produced no history that thaws the cache in situation %s:\n%s"
                           % (goal, r.out[-1500:]))
        for k, b in enumerate(behs):
            pexecs.append(to_script(b, "press_%s_%d" % (goal, k), rng))
    sp = os.path.join(wd, "press.ndjson.script")
    with open(sp, "w") as f:
        for e in pexecs:
            f.write("\n".join(e) + "\n")
    tr = os.path.join(wd, "press.ndjson")
    execute(sp, tr, flavour=PRESSURE_FLAVOUR)
    traces.append(tr)
    count_events(chk, tr)
    execs += pexecs
    # which situations were the recorded thaws in (all traces; measured from the counters the library reports)
    seen_cls = {}
    for t in traces:
        for line in open(t):
            if line.startswith('{"e":"Op"') and '"op":"gthaw"' in line:
                try:
                    g, tb, hi, lo = json.loads(line)["press"]
                except (ValueError, KeyError):
                    continue
                key = "%s (marks %d/%d)" % (pressure_class(g, tb, hi, lo), hi, lo)
                seen_cls[key] = seen_cls.get(key, 0) + 1
    chk.extra["thaw_situations_recorded"] = seen_cls
    missing = [c for c in PRESSURE_CLASSES if "%s (marks %d/%d)" % (c, G_HIGH, G_LOW) not in seen_cls]
    crashed = '"e":"Crash"' in open(tr).read()[-300:]
    if missing and not crashed:
        raise vf.Infra("no recorded thaw found the glyph table in situation(s) %s: the pressure histories do not "
                       "cross every threshold (vacuous)" % missing)
    chk.extra["executions"] = len(execs)
    chk.extra["build"] = px["hash"]
    chk.sample({"script_lines": execs[-1]})

    # 4. trace validation
    vf.validate_batches(chk, "LifeTrace", traces, cfg=cfg, parallel=nb + 2, timeout=1500)
    for v in chk.violations:
        try:
            lines = open(v["replay"]).read().splitlines()
            name = json.loads(lines[0]).get("scenario")
            for e in execs:
                if e[0] == "reset %s" % name:
                    open(v["replay"] + ".script", "w").write("\n".join(e) + "\n")
        except Exception:
            pass
    chk.extra["rule"] = ("a case is one logged API call; distinct = distinct (call, return value, sequence of "
                         "sub-events inside it) with at least one sub-event (allocation, release, reference-count "
                         "change or callback)")
    chk.assumptions += [
        "the destroy callback must run before anything the image owns is freed (it receives the image)",
        "clients only pass pointers to images that are alive and only drop references they own",
        "alpha maps are BITS images; allocation failure is C15's business (no faults injected here)",
        "an image whose holder died while it was attached may or may not be refused an alpha map of its own "
        "(alpha_count is not decremented by _pixman_image_fini; the statement does not forbid over-refusal)",
        "TLC/SANY and the CommunityModules Json/IOUtils readers are trusted",
    ]
    return chk.finish()
