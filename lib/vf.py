# Common machinery for the pixman TLA+ verification framework (DESIGN.md section 2).
#
#  * build_pixman(flavour)   -> static libpixman built from /repo's *current working tree*
#                               (content-addressed cache under /verif/build/pixman)
#  * build_driver(...)       -> C driver linked against that library
#  * tlc_mc / tlc_trace      -> run TLC (model checking / trace validation) and parse its output
#  * Check                   -> per-property bookkeeping: counts, samples, evidence, exit codes
#
# Exit-code discipline: 0 = property held on everything explored, 1 = VIOLATION (line printed),
# 2 = infrastructure failure (never reported as a violation).
import fcntl
import glob
import atexit
import hashlib
import itertools
import json
import os
import re
import shutil
import subprocess
import sys
import time

ROOT = os.path.dirname(os.path.dirname(os.path.abspath(__file__)))
REPO = os.environ.get("VERIF_REPO", "/repo")
BUILD = os.path.join(ROOT, "build")
SPEC = os.path.join(ROOT, "spec")
HARNESS = os.path.join(ROOT, "harness")
EVID = os.environ.get("VERIF_EVID", os.path.join(ROOT, "evidence"))
JAR = "/opt/veriftools/tla/tla2tools.jar"
JARS = JAR + ":/opt/veriftools/tla/CommunityModules-deps.jar"
TLA_LIB = ":".join([SPEC, os.path.join(SPEC, "lib"), os.path.join(SPEC, "mc"),
                    os.path.join(SPEC, "trace"), os.path.join(SPEC, "gen")])
GUARD = "PIXMAN_VERIF"
# sanitizer reports must abort (SIGABRT -> the drivers' handler writes a Crash event) instead of exit(1)
os.environ.setdefault("ASAN_OPTIONS", "abort_on_error=1")
os.environ.setdefault("UBSAN_OPTIONS", "halt_on_error=1:abort_on_error=1")


class Infra(Exception):
    """Infrastructure failure: build, TLC crash, timeout.  Exit code 2."""


def log(*a):
    print("[verif]", *a, file=sys.stderr, flush=True)


def sh(cmd, cwd=None, env=None, timeout=None, check=True, capture=True):
    p = subprocess.run(cmd, cwd=cwd, env=env, timeout=timeout, shell=isinstance(cmd, str),
                       stdout=subprocess.PIPE if capture else None,
                       stderr=subprocess.STDOUT if capture else None, text=True, errors="replace")
    if check and p.returncode != 0:
        raise Infra("command failed (%d): %s\n%s" % (p.returncode, cmd, (p.stdout or "")[-4000:]))
    return p


# ------------------------------------------------------------------------------------------
# building the implementation under test

FLAVOURS = {
    # name: (extra c_args, meson -D options, driver cflags/ldflags)
    "plain": (["-D" + GUARD], [], []),
    "asan": (["-D" + GUARD, "-fsanitize=address", "-fno-omit-frame-pointer", "-O1"],
             ["-Db_lundef=false"], ["-fsanitize=address", "-fno-omit-frame-pointer"]),
    "tsan": (["-D" + GUARD, "-fsanitize=thread", "-O1"],
             ["-Db_lundef=false"], ["-fsanitize=thread"]),
    "smallglyph": (["-D" + GUARD, "-DPIXMAN_VERIF_GLYPH_HIGH_WATER=4", "-DPIXMAN_VERIF_GLYPH_LOW_WATER=2"],
                   [], []),
    "smallglyph-asan": (["-D" + GUARD, "-DPIXMAN_VERIF_GLYPH_HIGH_WATER=4", "-DPIXMAN_VERIF_GLYPH_LOW_WATER=2",
                         "-fsanitize=address", "-fno-omit-frame-pointer", "-O1"],
                        ["-Db_lundef=false"], ["-fsanitize=address", "-fno-omit-frame-pointer"]),
    "nohooks": ([], [], []),
}


def repo_hash(flavour):
    h = hashlib.sha1()
    files = sorted(glob.glob(os.path.join(REPO, "pixman", "*")))
    files += [os.path.join(REPO, "meson.build"), os.path.join(REPO, "meson_options.txt")]
    for f in files:
        if os.path.isfile(f):
            h.update(os.path.basename(f).encode())
            with open(f, "rb") as fh:
                h.update(fh.read())
    h.update(repr(FLAVOURS[flavour]).encode())
    return h.hexdigest()[:16]


PRUNE_AGE = 3 * 3600


def build_pixman(flavour="plain"):
    """Build /repo's working tree as a static library; returns a dict with lib/include paths."""
    hh = repo_hash(flavour)
    base = os.path.join(BUILD, "pixman")
    os.makedirs(base, exist_ok=True)
    d = os.path.join(base, "%s-%s" % (flavour, hh))
    lock = open(os.path.join(base, ".lock-" + flavour), "w")
    fcntl.flock(lock, fcntl.LOCK_EX)
    try:
        lib = os.path.join(d, "pixman", "libpixman-1.a")
        if not os.path.exists(os.path.join(d, ".ok")):
            shutil.rmtree(d, ignore_errors=True)
            cargs, mopts, _ = FLAVOURS[flavour]
            t0 = time.time()
            cmd = ["meson", "setup", d, REPO, "-Dtests=disabled", "-Dgtk=disabled", "-Dlibpng=disabled",
                   "-Dopenmp=disabled", "-Ddefault_library=static", "-Dwerror=false",
                   "-Dc_args=" + " ".join(cargs + ["-Wno-error"])] + mopts
            p = sh(cmd, check=False)
            if p.returncode != 0:
                raise Infra("meson setup failed:\n" + p.stdout[-3000:])
            p = sh(["ninja", "-C", d, "pixman/libpixman-1.a"], check=False)
            if p.returncode != 0:
                shutil.rmtree(d, ignore_errors=True)
                raise Infra("build of /repo failed (flavour %s):\n%s" % (flavour, p.stdout[-3000:]))
            open(os.path.join(d, ".ok"), "w").write(str(time.time()))
            log("built pixman flavour=%s hash=%s in %.1fs" % (flavour, hh, time.time() - t0))
            # prune builds of this flavour that nobody has used for PRUNE_AGE seconds (never the two newest): other
            # processes may be checking other trees (bin/selftest) against their own builds at this very moment
            olds = sorted(glob.glob(os.path.join(base, flavour + "-????????????????")), key=os.path.getmtime)
            for o in olds[:-2]:
                if o != d and time.time() - os.path.getmtime(o) > PRUNE_AGE:
                    shutil.rmtree(o, ignore_errors=True)
        else:
            os.utime(d)
    finally:
        fcntl.flock(lock, fcntl.LOCK_UN)
        lock.close()
    return {"dir": d, "lib": lib, "inc": [os.path.join(REPO, "pixman"), os.path.join(d, "pixman")],
            "hash": hh, "flavour": flavour}


def build_repo_tests(names, flavour="plain"):
    """Build some of the repository's own test programs against the hook-enabled library (for tracing them with
       PIXMAN_VERIF_TRACE).  Returns {name: executable}."""
    hh = repo_hash(flavour)
    h2 = hashlib.sha1()
    for f in sorted(glob.glob(os.path.join(REPO, "test", "*.[ch]")) + [os.path.join(REPO, "test", "meson.build")]):
        h2.update(open(f, "rb").read())
    base = os.path.join(BUILD, "pixman")
    os.makedirs(base, exist_ok=True)
    d = os.path.join(base, "tests-%s-%s-%s" % (flavour, hh, h2.hexdigest()[:8]))
    lock = open(os.path.join(base, ".lock-tests-" + flavour), "w")
    fcntl.flock(lock, fcntl.LOCK_EX)
    try:
        if not os.path.exists(os.path.join(d, "build.ninja")):
            shutil.rmtree(d, ignore_errors=True)
            for o in glob.glob(os.path.join(base, "tests-%s-*" % flavour)):
                if time.time() - os.path.getmtime(o) > PRUNE_AGE:
                    shutil.rmtree(o, ignore_errors=True)
            cargs, mopts, _ = FLAVOURS[flavour]
            p = sh(["meson", "setup", d, REPO, "-Dtests=enabled", "-Dgtk=disabled", "-Dlibpng=disabled",
                    "-Dopenmp=disabled", "-Ddefault_library=static", "-Dwerror=false",
                    "-Dc_args=" + " ".join(cargs + ["-Wno-error"])] + mopts, check=False)
            if p.returncode != 0:
                raise Infra("meson setup (tests) failed:\n" + p.stdout[-3000:])
        p = sh(["ninja", "-C", d] + ["test/" + n for n in names], check=False)
        if p.returncode != 0:
            raise Infra("build of the repository's tests failed:\n" + p.stdout[-3000:])
    finally:
        fcntl.flock(lock, fcntl.LOCK_UN)
        lock.close()
    return {n: os.path.join(d, "test", n) for n in names}


def build_driver(name, flavour="plain", extra_src=(), cflags=(), ldflags=()):
    """Compile harness/<name>.c (+ common) against the library of the given flavour."""
    px = build_pixman(flavour)
    srcs = [os.path.join(HARNESS, name + ".c"), os.path.join(HARNESS, "common", "vcommon.c")]
    srcs += [os.path.join(HARNESS, s) for s in extra_src]
    h = hashlib.sha1()
    for s in srcs + sorted(glob.glob(os.path.join(HARNESS, "common", "*.h")) + glob.glob(os.path.join(HARNESS, "*.h"))):
        h.update(open(s, "rb").read())
    h.update(repr((cflags, ldflags, px["hash"], flavour)).encode())
    outdir = os.path.join(BUILD, "drv")
    os.makedirs(outdir, exist_ok=True)
    variant = hashlib.sha1(repr((tuple(extra_src), tuple(cflags), tuple(ldflags))).encode()).hexdigest()[:6]
    exe = os.path.join(outdir, "%s-%s-%s-%s" % (name, flavour, variant, h.hexdigest()[:12]))
    if os.path.exists(exe):
        os.utime(exe)
        return exe, px
    # several checks (or several runs of one check) may want the same driver at the same moment: build under a
    # lock, into a private temporary name, and publish by an atomic rename
    lock = open(exe + ".lock", "w")
    fcntl.flock(lock, fcntl.LOCK_EX)
    try:
        if not os.path.exists(exe):
            for o in glob.glob(os.path.join(outdir, "%s-%s-%s-*" % (name, flavour, variant))):
                try:
                    if time.time() - os.path.getmtime(o) > PRUNE_AGE:   # see build_pixman
                        os.unlink(o)
                except OSError:
                    pass
            dflags = FLAVOURS[flavour][2]
            tmp = "%s.tmp%d" % (exe, os.getpid())
            cmd = ["gcc", "-O1", "-g", "-D" + GUARD, "-DHAVE_CONFIG_H", "-Wall", "-Wno-unused-function",
                   "-I" + os.path.join(HARNESS, "common")]
            cmd += ["-I" + i for i in px["inc"]] + list(dflags) + list(cflags) + ["-o", tmp] + srcs
            cmd += [px["lib"], "-lm", "-lpthread"] + list(ldflags)
            p = sh(cmd, check=False)
            if p.returncode != 0:
                raise Infra("driver build failed: %s\n%s" % (name, p.stdout[-4000:]))
            os.rename(tmp, exe)
    finally:
        fcntl.flock(lock, fcntl.LOCK_UN)
        lock.close()
    return exe, px


def sanitize_trace(path):
    """A driver that dies inside the library while a line is half written (and whose signal handler then logs the
       crash) leaves an incomplete JSON line in the MIDDLE of the trace.  Replace every such line by a Crash event:
       TLC must judge the crash (no action matches it), not stumble over the syntax."""
    try:
        data = open(path, "rb").read()
    except OSError:
        return
    if not data:
        return
    complete = data.endswith(b"\n")
    lines = data.split(b"\n")
    last = lines.pop()            # text after the final newline (b"" if the file ends with one)
    out, changed = [], False
    for ln in lines:
        t = ln.strip()
        if not t:
            changed = True
            continue
        if t.startswith(b"{") and t.endswith(b"}"):
            out.append(ln)
        else:
            out.append(b'{"e":"Crash","partial_line":true}')
            changed = True
    if changed:
        with open(path, "wb") as f:
            f.write(b"\n".join(out) + b"\n")
            if not complete:
                f.write(last)


def clean_tail(path):
    """Remove a trailing partial line (a driver killed in mid-write) so that the file stays parseable NDJSON."""
    sanitize_trace(path)
    try:
        data = open(path, "rb").read()
    except OSError:
        return
    if data and not data.endswith(b"\n"):
        cut = data.rfind(b"\n")
        open(path, "wb").write(data[:cut + 1] if cut >= 0 else b"")


def run_driver(cmd, trace, env=None, timeout=900, cwd=None):
    """Run a conformance driver.  A driver that does not end normally (non-zero exit, killed by a signal, sanitizer
       report, timeout) leaves a truncated trace; so that the abnormal end is judged by TLC (and not silently
       accepted as a shorter trace) a Crash event -- which no action of any trace specification matches -- is
       appended unless the driver's own signal handler already wrote one.  Returns the CompletedProcess-like
       (returncode, output)."""
    e = dict(os.environ)
    e.setdefault("ASAN_OPTIONS", "abort_on_error=1:detect_leaks=1")
    e.setdefault("UBSAN_OPTIONS", "halt_on_error=1")
    if env:
        e.update({k: str(v) for k, v in env.items()})
    rc, out = None, ""
    try:
        p = subprocess.run(cmd, cwd=cwd, env=e, timeout=timeout, stdout=subprocess.PIPE, stderr=subprocess.STDOUT,
                           text=True, errors="replace")
        rc, out = p.returncode, p.stdout or ""
    except subprocess.TimeoutExpired as ex:
        rc, out = -999, "timeout after %ds\n%s" % (timeout, (ex.stdout or b"")[-2000:] if isinstance(ex.stdout, bytes) else "")
    sanitize_trace(trace)
    if rc != 0:
        clean_tail(trace)
        tail = ""
        try:
            with open(trace, "rb") as f:
                f.seek(0, 2)
                f.seek(max(0, f.tell() - 400))
                tail = f.read().decode("utf-8", "replace")
        except OSError:
            pass
        if '"e":"Crash"' not in tail:
            with open(trace, "a") as f:
                f.write('\n{"e":"Crash","rc":%d}\n' % rc)
        log("driver ended abnormally (rc=%s): %s\n%s" % (rc, " ".join(map(str, cmd))[:200], out[-1500:]))
    return rc, out


# ------------------------------------------------------------------------------------------
# TLC

_tlc_seq = itertools.count(1)      # next() is atomic: validate_batches calls this from several threads


def _metadir(tag):
    d = os.path.join(BUILD, "tlc", "%s-%d-%d" % (tag, os.getpid(), next(_tlc_seq)))
    shutil.rmtree(d, ignore_errors=True)
    os.makedirs(d, exist_ok=True)
    atexit.register(_cleanup_dir, d)
    return d


class TlcResult:
    def __init__(self, rc, out, wall):
        self.rc, self.out, self.wall = rc, out, wall
        m = re.findall(r"(\d+) states generated, (\d+) distinct states found", out)
        self.generated = int(m[-1][0]) if m else 0
        self.distinct = int(m[-1][1]) if m else 0
        self.finished = "Model checking completed" in out or "Finished in" in out
        self.inv_violation = re.search(r"Invariant (\S+) is violated", out)
        self.post_violation = "ostcondition" in out and "violated" in out
        self.deadlock = "Deadlock reached" in out
        self.error = ("Error:" in out) and not (self.inv_violation or self.post_violation)
        self.prints = re.findall(r"^(\"VF:[^\n]*)$", out, re.M)

    def vf(self, key):
        """Values printed from the spec with PrintT(<<"VF:key", v...>>) -- returned as raw strings."""
        res = []
        for m in re.finditer(r'^<<"VF:%s"(?:, (.*))?>>$' % re.escape(key), self.out, re.M):
            res.append(m.group(1) or "")
        return res


def run_tlc(module_path, cfg=None, env=None, workers=1, timeout=600, xmx="4g", extra=(), tag="tlc",
            simulate=None, deadlock=False, depth=None, coverage=False):
    """Run TLC on module_path (absolute .tla).  Returns TlcResult; raises Infra on timeouts."""
    md = _metadir(tag)
    cfg = cfg or module_path[:-4] + ".cfg"
    cmd = ["java", "-XX:+UseParallelGC", "-Xmx" + xmx, "-Xss16m", "-DTLA-Library=" + TLA_LIB,
           "-cp", JARS, "tlc2.TLC", "-workers", str(workers), "-metadir", md, "-noGenerateSpecTE",
           "-config", cfg]
    if not deadlock:
        cmd += ["-deadlock"]      # -deadlock DISABLES deadlock checking
    if simulate:
        cmd += ["-simulate", simulate]
    if depth:
        cmd += ["-depth", str(depth)]
    if coverage:
        cmd += ["-coverage", "1"]
    cmd += list(extra) + [module_path]
    e = dict(os.environ)
    if env:
        e.update({k: str(v) for k, v in env.items()})
    t0 = time.time()
    try:
        p = subprocess.run(cmd, cwd=os.path.dirname(module_path), env=e, timeout=timeout,
                           stdout=subprocess.PIPE, stderr=subprocess.STDOUT, text=True, errors="replace")
    except subprocess.TimeoutExpired:
        shutil.rmtree(md, ignore_errors=True)
        raise Infra("TLC timed out after %ds on %s" % (timeout, module_path))
    shutil.rmtree(md, ignore_errors=True)
    return TlcResult(p.returncode, p.stdout, time.time() - t0)


def tlc_mc(module, cfg=None, workers=8, timeout=900, xmx="8g", expect_violation=False, tag=None, **kw):
    """Design-level model check.  Returns TlcResult.  expect_violation: negative configuration."""
    path = module if os.path.isabs(module) else os.path.join(SPEC, "mc", module + ".tla")
    r = run_tlc(path, cfg=cfg, workers=workers, timeout=timeout, xmx=xmx, tag=tag or os.path.basename(path)[:-4], **kw)
    bad = r.inv_violation or r.post_violation or r.deadlock or ("is violated" in r.out)
    if expect_violation:
        if not bad:
            raise Infra("negative configuration %s was NOT rejected by TLC (vacuous model?)\n%s"
                        % (cfg or path, r.out[-1500:]))
        return r
    if r.error or (r.rc != 0 and not bad) or (not bad and not r.finished):
        raise Infra("TLC failed on %s (rc=%d):\n%s" % (path, r.rc, r.out[-3000:]))
    return r


def tlc_trace(module, tracefile, cfg=None, timeout=900, xmx="3g", env=None, tag=None):
    """Validate one NDJSON trace.  The trace spec must define a POSTCONDITION that prints
       <<"VF:accepted", matched, total>> (see spec/lib/TraceIO.tla).  Returns
       (accepted: bool, matched_lines, total_lines, TlcResult)."""
    path = module if os.path.isabs(module) else os.path.join(SPEC, "trace", module + ".tla")
    e = {"TRACE": tracefile}
    if env:
        e.update(env)
    r = run_tlc(path, cfg=cfg, env=e, workers=1, timeout=timeout, xmx=xmx,
                tag=tag or os.path.basename(path)[:-4])
    acc = r.vf("accepted")
    if not acc:
        raise Infra("trace validation of %s produced no verdict (rc=%d):\n%s" % (tracefile, r.rc, r.out[-3000:]))
    matched, total = [int(x) for x in acc[-1].split(",")]
    accepted = (matched == total) and not r.post_violation and not r.inv_violation
    if r.error and accepted:
        raise Infra("TLC error during trace validation:\n" + r.out[-3000:])
    return accepted, matched, total, r


def sany(path):
    p = sh(["java", "-DTLA-Library=" + TLA_LIB, "-cp", JARS, "tla2sany.SANY", path], check=False,
           cwd=os.path.dirname(path))
    ok = p.returncode == 0 and "Semantic errors" not in p.stdout and "Parse Error" not in p.stdout \
        and "rror" not in p.stdout.replace("errors", "")
    return ok, p.stdout


# ------------------------------------------------------------------------------------------
# known findings

def known_findings(prop):
    res = []
    f = os.path.join(ROOT, "KNOWN_FINDINGS.jsonl")
    if os.path.exists(f):
        for line in open(f):
            line = line.strip()
            if not line or line.startswith("#"):
                continue
            r = json.loads(line)
            if prop in r.get("properties", [r.get("property")]):
                res.append(r)
    return res


def open_findings(prop):
    """ids of the findings recorded (not repaired) for this property: the only deviations a check tolerates"""
    return sorted(r["id"] for r in known_findings(prop) if r.get("status") == "open" and "id" in r)


def cfg_with_deviations(base_cfg, prop, tag=None):
    """Copy of a TLC .cfg in which CONSTANT Deviations is the set of open finding ids of KNOWN_FINDINGS.jsonl."""
    ids = open_findings(prop)
    txt = open(base_cfg).read()
    lines = [ln for ln in txt.splitlines() if "Deviations" not in ln]
    dev = "{" + ", ".join('"%s"' % i for i in ids) + "}"
    out = []
    done = False
    for ln in lines:
        if not done and (ln.startswith("POSTCONDITION") or ln.startswith("INVARIANT")):
            out.append("CONSTANT Deviations = " + dev)
            done = True
        out.append(ln)
    if not done:
        out.append("CONSTANT Deviations = " + dev)
    d = os.path.join(BUILD, "cfg")
    os.makedirs(d, exist_ok=True)
    path = os.path.join(d, "%s-%s-%d.cfg" % (os.path.basename(base_cfg)[:-4], tag or prop, os.getpid()))
    open(path, "w").write("\n".join(out) + "\n")
    return path


# ------------------------------------------------------------------------------------------
# check bookkeeping

class Check:
    def __init__(self, prop, tier, seed, level="model_checking"):
        self.prop, self.tier, self.seed, self.level = prop, tier, seed, level
        self.t0 = time.time()
        self.states = 0
        self.transitions = 0
        self.traces = 0
        self.evaluations = 0
        self.samples = []
        self.extra = {}
        self.assumptions = []
        self.violations = []
        self.known_seen = {}
        self.mc_runs = []
        self.distinct_keys = set()

    # -- accumulation
    def add_tlc(self, r, what):
        self.states += r.distinct
        self.transitions += r.generated
        self.mc_runs.append({"what": what, "distinct": r.distinct, "generated": r.generated,
                             "wall_s": round(r.wall, 1)})

    def sample(self, s):
        if len(self.samples) < 6:
            self.samples.append(s)

    def violation(self, what, replay):
        self.violations.append({"what": what, "replay": replay})

    def known(self, fid, what):
        self.known_seen[fid] = what

    # -- finishing
    def write_evidence(self):
        os.makedirs(EVID, exist_ok=True)
        cov = {"states": max(self.states, 0), "transitions": max(self.transitions, 0),
               "traces_validated_against_impl": self.traces,
               "evaluations": self.evaluations,
               "distinct_nontrivial": len(self.distinct_keys) if self.distinct_keys else self.extra.get("distinct_nontrivial", 0),
               "samples": self.samples or ["(no sample recorded)"],
               "tlc_runs": self.mc_runs}
        cov.update(self.extra)
        ev = {"property_id": self.prop, "tier": self.tier, "seed": self.seed, "level": self.level,
              "coverage": cov, "assumptions": self.assumptions,
              "wall_s": round(time.time() - self.t0, 1), "violations": len(self.violations),
              "known_findings_seen": sorted(self.known_seen)}
        with open(os.path.join(EVID, self.prop + ".json"), "w") as f:
            json.dump(ev, f, indent=1, sort_keys=True)
            f.write("\n")

    def finish(self):
        self.write_evidence()
        listed = {r["id"]: r for r in known_findings(self.prop) if r.get("status") == "open" and "id" in r}
        for fid, what in sorted(self.known_seen.items()):
            if fid in listed:
                print("KNOWN-FINDING: property=%s %s: %s" % (self.prop, fid, listed[fid].get("text", "")))
            else:      # a deviation that the committed file does not list is a violation, never tolerated
                self.violations.append({"what": "unlisted deviation %s reported (%s)" % (fid, what), "replay": "-"})
        if self.violations:
            _keep_work[0] = True
            for v in self.violations:
                print("VIOLATION property=%s replay=%s" % (self.prop, v["replay"]))
                log(v["what"])
            return 1
        print("OK property=%s tier=%s states=%d traces=%d wall=%.0fs" %
              (self.prop, self.tier, self.states, self.traces, time.time() - self.t0))
        return 0


def save_replay(prop, n, tracefile, note):
    d = os.path.join(EVID, "replay")
    os.makedirs(d, exist_ok=True)
    dst = os.path.join(d, "%s.%d.ndjson" % (prop, n))
    shutil.copyfile(tracefile, dst)
    with open(dst + ".note", "w") as f:
        f.write(note + "\n")
    return dst


def split_trace(tracefile):
    """Split an NDJSON trace at {"e":"Reset"} lines; returns list of lists of lines."""
    chunks, cur = [], []
    for line in open(tracefile):
        if '"e":"Reset"' in line and cur:
            chunks.append(cur)
            cur = []
        cur.append(line)
    if cur:
        chunks.append(cur)
    return chunks


def validate_batches(chk, module, tracefiles, cfg=None, parallel=8, timeout=900, env=None, label="trace",
                     confirm=True, xmx="3g"):
    """Validate several trace files side by side (one JVM each).  On a rejection: re-run to confirm,
       narrow down to the failing Reset-delimited execution, save a replay file, record a violation.
       Returns the number of accepted executions."""
    from concurrent.futures import ThreadPoolExecutor
    accepted_exec = 0

    def one(tf):
        return tf, tlc_trace(module, tf, cfg=cfg, timeout=timeout, env=env, xmx=xmx)

    with ThreadPoolExecutor(max_workers=parallel) as ex:
        results = list(ex.map(one, tracefiles))
    for tf, (ok, matched, total, r) in results:
        chk.add_tlc(r, "%s %s" % (label, os.path.basename(tf)))
        for d in r.vf("deviation"):
            fid = d.split(",")[0].strip().strip('"')
            chk.known(fid, d)
        # VF:policy = the code departs from an implementation-shaped model that is tracked next to the property-level
        # obligations (cache replacement policy, table layout): recorded in the evidence, never a violation
        for nt in r.vf("policy"):
            notes = chk.extra.setdefault("policy_notes", [])
            if len(notes) < 5:
                notes.append("%s: %s" % (os.path.basename(tf), nt[:240]))
        nexec = sum(1 for line in open(tf) if '"e":"Reset"' in line)
        if ok:
            accepted_exec += nexec
            continue
        if confirm:
            ok2, m2, t2, r2 = tlc_trace(module, tf, cfg=cfg, timeout=timeout, env=env, xmx=xmx)
            if ok2:
                raise Infra("non-reproducible rejection of %s (first matched %d/%d)" % (tf, matched, total))
            matched = m2
        # locate the failing execution: the matched prefix ends inside it
        lines = open(tf).read().splitlines(True)
        start = 0
        for i in range(min(matched, len(lines) - 1), -1, -1):
            if '"e":"Reset"' in lines[i]:
                start = i
                break
        end = len(lines)
        for i in range(matched + 1, len(lines)):
            if '"e":"Reset"' in lines[i]:
                end = i
                break
        sub = tf + ".fail"
        with open(sub, "w") as f:
            f.writelines(lines[start:end])
        bad_line = lines[matched].strip() if matched < len(lines) else "(end of trace)"
        n = len(chk.violations) + 1
        rp = save_replay(chk.prop, n, sub,
                         "rejected by %s at line %d of the execution (0-based offset %d of batch %s); first unmatched event:\n%s"
                         % (module, matched - start + 1, matched, os.path.basename(tf), bad_line[:2000]))
        chk.violation("%s rejected %s: event %d/%d not explained by the specification: %s"
                      % (module, os.path.basename(tf), matched + 1, total, bad_line[:600]), rp)
        # executions before the failing one were accepted
        accepted_exec += sum(1 for line in lines[:start] if '"e":"Reset"' in line)
    chk.traces += accepted_exec
    return accepted_exec


def main_wrapper(fn):
    """Run a check's main(); map Infra to exit 2."""
    try:
        rc = fn()
    except Infra as e:
        print("INFRASTRUCTURE-FAILURE:", str(e)[:6000], file=sys.stderr)
        sys.exit(2)
    sys.exit(rc)


def parse_args(argv=None):
    import argparse
    ap = argparse.ArgumentParser()
    ap.add_argument("--tier", default=os.environ.get("VERIF_TIER", "quick"), choices=["quick", "thorough"])
    ap.add_argument("--seed", type=int, default=int(os.environ.get("VERIF_SEED", "1")))
    ap.add_argument("--replay", default=None)
    ap.add_argument("--keep", action="store_true", help="keep trace files")
    return ap.parse_args(argv)


_keep_work = [False]       # set by Check.finish when a violation is reported: its scratch files stay for the post-mortem


def _cleanup_dir(d):
    if not os.environ.get("VERIF_KEEP_WORK") and not _keep_work[0]:
        shutil.rmtree(d, ignore_errors=True)


def workdir(tag):
    """Scratch directory of this process for one check; removed when the process ends (VERIF_KEEP_WORK=1 keeps it;
       what a violation needs for its replay is copied to evidence/replay by save_replay)."""
    d = os.path.join(BUILD, "work", "%s-%d" % (tag, os.getpid()))
    shutil.rmtree(d, ignore_errors=True)
    os.makedirs(d, exist_ok=True)
    atexit.register(_cleanup_dir, d)
    return d
